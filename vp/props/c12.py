"""C12 - every evaluated rule yields exactly one well-formed, accounted outcome.

rule_sets   generated rule sets in 1-3 synthetic modules (module base names, keys and types collide
            on purpose) evaluated through SingleEvaluator, InsightsEvaluator, JsonFormat, YamlFormat
            and the two formatter adapters, serial and incremental; a counting oracle derived from a
            small reference model says for every rule in which single place it must be accounted
            (heading entry / skips / system.metadata / top-level metadata key / broker.exceptions /
            nowhere) and what the entry carries; formatter options hide exactly the named headings.
            The rules stand on generated upstream chains of the real plugin types (plain component /
            spec registry point <- datasource / parser or condition on a spec / combiner on a parser)
            whose content provider may load lazily into ContentException / CalledProcessError; rule
            bodies read what they are given, so such an error surfaces inside the rule.
            Rules are declared with their own or with shared constants (one links dict / tags list /
            metadata dict / dependency list object for several decorators) and a generated "configs" list
            goes through insights.apply_configs before the evaluation (entries naming one rule, a module,
            nothing): every rule is reported with its own tags and links, runs iff it is enabled.
            The declarations are spelled the ways the decorator accepts: tags as a list / tuple / set /
            frozenset / dict view / one-shot iterator, on the decorator or on a rule subclass (class level
            tags), dependencies positionally or with requires=, a lone optional dependency bare or in a list.
filtering   the same check on a fixed rule set holding every outcome class, for *every*
            missing x show_rules-subset combination (finite, enumerated) through JSON and YAML.
responses   response constructor arguments: key validation, reserved names, payload sizes
            straddling settings.defaults["max_detail_length"] (default and re-configured limit)."""
import copy
import io
import itertools
import json
import logging
import re
import sys
import types

from hypothesis import strategies as st

from vp.core import Sub, Reg, Violation, HarnessError

PROPERTY = "C12"
RULE = ("rule sets of 1-10 generated rules in 1-3 synthetic modules (colliding module base names, "
        "shared keys, shared types) over 4 generated upstreams (value / skip / crash), each one a chain "
        "of a generated kind - plain component, spec registry point with its datasource, Parser class or "
        "condition on a spec, combiner on a parser - over a content provider whose content is readable "
        "or raises ContentException / CalledProcessError on first access (a parser/condition/combiner over "
        "unreadable content is absent, a component/spec value is present and fails in whoever reads it); "
        "per rule whether its body reads its arguments, a dependency declaration (required, at-least-one groups, optional; possibly none), "
        "enabled/disabled, tags, links, metadata - each one the rule's own literal or a constant shared by several "
        "rule declarations (the same dict / list object handed to several decorators; likewise identical group / "
        "optional lists), tags spelled as a list / tuple / set / frozenset / dict view / iterator, rules declared with "
        "@rule or with a generated rule subclass carrying class level tags, dependencies given positionally or as "
        "requires=[...], a lone optional dependency bare or wrapped in a list - optionally a 'configs' list of 1-3 entries applied through insights.apply_configs after "
        "a YAML round trip (each naming one rule exactly, a module by prefix, or nothing, and carrying any of "
        "links / tags / metadata / enabled, own values or anchors shared between entries) "
        "and a return kind out of fail, response, pass, info, "
        "fingerprint, metadata, metadata_key, None, a non-response value (incl. falsy ones and a "
        "response-shaped plain dict), raising (ValueError/KeyError/ContentException/"
        "CalledProcessError), deliberate SkipComponent, an invalid response constructed inside the "
        "rule, and a payload padded to limit-2..limit+2; evaluated through SingleEvaluator / "
        "InsightsEvaluator / JsonFormat / YamlFormat / their adapters with generated missing / "
        "show_rules / fail_only options, serial or incremental. Non-trivial: >= 3 rules, >= 2 of "
        "them sharing a key or a module, >= 2 different outcome classes; distinct by the whole case. "
        "Constructor cases: every response class x key shapes (str, '', None, int, bytes, list, "
        "bool, float, dict) x kwargs with/without reserved names x padding around the limit; "
        "non-trivial: invalid argument set or a length within 2 of the limit.")
ASSUMPTIONS = [
    "Broker.store_skips is left at its default (False), so a deliberate skip leaves no record",
    "a rule whose body lets a ContentException / CalledProcessError from reading its input escape has "
    "taken part in the evaluation and failed: its outcome is a recorded exception (PluginType docstring: "
    "these errors are lazy and can surface in any component)",
    "the size of a response is what the code measures: len(str(dict)) of type + key + details "
    "(independent of dict order)",
    "the YAML output is read back with a loader that maps python/object tags to plain dicts",
    "formatter adapter options follow their help texts: -F = -S fail, dropped when -m is given, "
    "-S wins over -F",
    "ComponentType.__init__ turns whatever iterable of strings it is given as tags= into a set, together with the "
    "class level tags of the decorator class (documented type: list; tuple / set / frozenset / dict views / "
    "iterators behave the same on the unchanged tree): the rule's tags are the strings in it, however spelled; "
    "requires=[...] stands for the positional dependencies when there are none; optional=X stands for optional=[X]",
    "apply_configs docstring: an entry applies to every component whose name starts with its name; 'enabled' "
    "defaults to True for the components an entry names (the last entry naming a rule decides); a rule no entry "
    "with links (tags) names is reported with exactly the links (tags) it declares; a rule such entries name is "
    "reported with every category (tag) of the last one, and with nothing that is neither declared by it nor "
    "configured for it - whether declared categories survive next to configured ones is not stated and not asserted",
]
EXCLUDED = [
    "rules whose metadata keys collide (merge order not claimed): colliding keys are only required "
    "to be present",
    "metadata_key keys equal to a report heading or to each other",
    "make_metadata_key responses are exempt from the size stub (the class overrides the length "
    "adjustment on purpose)",
    "keyword arguments named 'key' or 'self' (Python call semantics, TypeError before any validation)",
    "configured limits so small that the framework's own skip response would be stubbed (< 1500)",
    "text/HTML formatters and render_content (they render, they do not account)",
    "configuration entries whose name is a prefix of the upstream components' module, default_component_enabled / "
    "apply_default_enabled (process-wide switch over every loaded component), timeout, metadata keys that are "
    "attributes of a function object (apply_configs copies those onto the component)",
]

_counter = itertools.count()
DEFAULT_LIMIT = 65535

TYPED = {"fail": "rule", "response": "rule", "pass": "pass", "info": "info", "fingerprint": "fingerprint"}
KEYNAME = {"rule": "error_key", "pass": "pass_key", "info": "info_key", "fingerprint": "fingerprint_key",
           "none": "none_key", "metadata_key": "key"}
HEADING = {"rule": "reports", "pass": "pass", "info": "info", "fingerprint": "fingerprints", "none": "none"}
SHOW_OPTS = ["rule", "info", "pass", "none", "metadata", "fingerprint"]


def _classes():
    from insights.core import plugins
    return {"fail": plugins.make_fail, "response": plugins.make_response, "pass": plugins.make_pass,
            "info": plugins.make_info, "fingerprint": plugins.make_fingerprint,
            "metadata": plugins.make_metadata, "metadata_key": plugins.make_metadata_key,
            "none": plugins.make_none}


def _unjson(v):
    """case values -> python values (bytes cannot live in a JSON case)"""
    if isinstance(v, dict) and set(v) == set(["__bytes__"]):
        return v["__bytes__"].encode("latin-1")
    return v


# ------------------------------------------------------------------------------------------------
# reference model

def _full_response(kind, key, payload):
    """the dict a valid response carries, from the documentation of Response"""
    if kind == "metadata":
        d = {"type": "metadata"}
    elif kind == "metadata_key":
        return {"type": "metadata_key", "key": key, "value": payload["value"]}
    elif kind == "none":
        return {"type": "none", "none_key": "NONE_KEY"}
    else:
        t = TYPED[kind]
        d = {"type": t, KEYNAME[t]: key}
    d.update(payload)
    return d


def _expected_response(kind, key, payload, limit):
    """-> (dict, stubbed?)"""
    full = _full_response(kind, key, payload)
    n = len(str(full))
    if kind not in ("metadata_key", "none") and n > limit:
        stub = {"type": full["type"], "max_detail_length_error": n}
        if kind != "metadata":
            stub[KEYNAME[full["type"]]] = key
        return stub, True
    return full, False


def _pad_payload(kind, key, payload, limit, delta):
    """add a filler so that the measured length becomes limit + delta (when possible)"""
    p = dict(payload)
    p["pad"] = ""
    base = len(str(_full_response(kind, key, p)))
    n = limit + delta - base
    if n < 0:
        return dict(payload), False
    p["pad"] = "x" * n
    return p, True


def _key_valid(key):
    return isinstance(key, str) and len(key) > 0


UPKINDS = ["component", "spec", "parser", "condition", "combiner"]


def _up_kind(case, j):
    return (case.get("upkinds") or ["component"] * 4)[j]


def _up_content(case, j):
    return (case.get("upcontent") or ["ok"] * 4)[j]


def _up_present(case, j):
    """does upstream j give its dependents a value?  A provider (plain component, spec) is there as soon
    as its producer succeeded - whether its content can be read shows only when somebody reads it; a
    parser / condition / combiner reads the content while it is built, so it exists only if that worked"""
    if case["ups"][j] != "ok":
        return False
    return _up_kind(case, j) in ("component", "spec") or _up_content(case, j) == "ok"


def _up_unreadable(case, j):
    """the value handed to the rule is a content provider whose content raises when read"""
    return _up_kind(case, j) in ("component", "spec") and _up_content(case, j) != "ok"


def _flat_deps(decl):
    out = []
    for d in decl:
        out.extend(d[1] if d[0] == "grp" else [d[1]])
    return out


# --- what a rule is declared with, and what the configuration says about it
#
# Rule authors share decorator arguments between the rules of a module (a module level constant KCS = {...}
# passed as links= to several @rule lines, a TAGS list, a META dict, an OPTIONAL list): case["pools"][what]
# holds such constants, a rule refers to one with "<what>_ref" (index modulo the pool size) and every rule
# referring to the same index is declared with the very same object.  Every entry point (insights-run -c,
# insights-cat / insights-inspect -c, insights.tools.query, the shell, insights.collect) hands the "configs"
# list of its YAML configuration to insights.apply_configs: case["configs"] is that list, each entry naming
# one rule exactly, a module (prefix) or nothing and carrying any of links / tags / metadata / enabled.

SHAREABLE = ("links", "tags", "metadata")


def _pool(case, what):
    return list((case.get("pools") or {}).get(what) or [])


def _declared(case, r, what):
    """the value rule r is declared with: its own literal or the shared constant it refers to"""
    ref = r.get(what + "_ref")
    pool = _pool(case, what)
    if ref is not None and pool:
        return pool[ref % len(pool)]
    return r.get(what)


TAG_FORMS = ("list", "tuple", "set", "frozenset", "dictkeys", "iter")


def _rtype(case, r):
    """the generated rule subclass rule r is declared with (None: insights.core.plugins.rule itself)"""
    rts = case.get("rtypes") or []
    if r.get("rtype") is None or not rts:
        return None
    return r["rtype"] % len(rts)


def _declared_tags(case, r):
    """'tags: a list of strings that categorize the component' - those of the decorator class (class level
    attribute of a rule subclass) and those given to the decorator, however the author spelled the collection"""
    out = list(_declared(case, r, "tags") or [])
    k = _rtype(case, r)
    if k is not None:
        out.extend(case["rtypes"][k].get("tags") or [])
    return out


def _tags_form(case, r):
    """how the tags= argument of rule r is spelled"""
    ref = r.get("tags_ref")
    pool = _pool(case, "tags")
    if ref is not None and pool:
        forms = (case.get("pools") or {}).get("tags_form") or []
        form = forms[(ref % len(pool)) % len(forms)] if forms else "list"
    else:
        form = r.get("tags_form") or "list"
    if form not in TAG_FORMS:
        raise HarnessError("bad case: tags form %r" % (form,))
    return form


def _spell_tags(v, form):
    """the same tags, written the way the author chose"""
    v = list(v)
    if form == "tuple":
        return tuple(v)
    if form == "set":
        return set(v)
    if form == "frozenset":
        return frozenset(v)
    if form == "dictkeys":
        return dict.fromkeys(v).keys()
    if form == "iter":
        return (t for t in v)
    return v


def _cfg_value(case, e, what):
    """-> (does the entry carry the key?, value)"""
    ref = e.get(what + "_ref")
    pool = _pool(case, what)
    if ref is not None and pool:
        return True, pool[ref % len(pool)]
    if what in e:
        return True, e[what]
    return False, None


def _cfg_name(e, names, modfulls):
    t = e["target"]
    if t[0] == "rule":
        return names[t[1] % len(names)]
    if t[0] == "module":
        return modfulls[t[1] % len(modfulls)]
    if t[0] == "stem":
        return modfulls[t[1] % len(modfulls)] + ".r"
    if t[0] == "none":
        return modfulls[0] + "x"
    raise HarnessError("bad case: config target %r" % (t,))


def _config_matches(case, names, modfulls):
    """apply_configs: 'name is the prefix or exact name of any loaded component. Any component starting
    with name will have the associated configuration applied' -> per entry the indices of the rules it names"""
    out = []
    for e in case.get("configs") or []:
        name = _cfg_name(e, names, modfulls)
        out.append([i for i, n in enumerate(names) if n.startswith(name)])
    return out


def _configured(case, i, matches, what):
    """the values the entries naming rule i carry for links / tags / enabled, in the order of the entries"""
    out = []
    for e, hit in zip(case.get("configs") or [], matches or []):
        if i in hit:
            if what == "enabled":
                out.append(bool(e.get("enabled", True)))        # 'enabled ... Defaults to True'
            else:
                has, v = _cfg_value(case, e, what)
                if has:
                    out.append(v)
    return out


def _links_problem(declared, configured, got):
    """'reported ... with its ... links': without a configuration entry that carries links for the rule,
    exactly the links it declares.  With such entries: every category of the last one as configured, and
    nothing that is neither declared by the rule nor configured for it (whether categories the rule declares
    survive next to configured ones is not stated anywhere - left open)."""
    declared = declared or {}
    if not isinstance(got, dict):
        return "links=%r, not a dictionary" % (got,)
    if not configured:
        if got != declared:
            return "links=%r, the rule declares %r and no configuration entry with links names it" % (got, declared)
        return None
    last = configured[-1] or {}
    for c, v in last.items():
        if c not in got or got[c] != v:
            return "links=%r, the configuration sets %r to %r for this rule" % (got, c, v)
    for c, v in got.items():
        if c in last:
            continue
        own = [d[c] for d in [declared] + [x or {} for x in configured[:-1]] if c in d]
        if v not in own:
            return ("links=%r: %r -> %r is neither declared by the rule (%r) nor configured for it (%r)"
                    % (got, c, v, declared, configured))
    return None


def _tags_problem(declared, configured, got):
    declared = set(declared or [])
    if not isinstance(got, list):
        return "tags %r, not a list" % (got,)
    if not all(isinstance(t, str) for t in got):
        return "tags %r, not a list of strings (the rule declares %r)" % (got, sorted(declared))
    if not configured:
        if sorted(got) != sorted(declared):
            return "tags %r, the rule declares %r and no configuration entry with tags names it" % (got, sorted(declared))
        return None
    last = set(configured[-1] or [])
    own = set(declared)
    for x in configured:
        own.update(x or [])
    if not last <= set(got):
        return "tags %r, the configuration sets %r for this rule" % (got, sorted(last))
    if not set(got) <= own:
        return ("tags %r: %r neither declared by the rule (%r) nor configured for it (%r)"
                % (got, sorted(set(got) - own), sorted(declared), configured))
    return None


def model_rules(case, names, upnames, matches=None):
    """-> list of dict(cls=typed|skip|metadata|metadata_key|exception|nothing, ...) per rule"""
    limit = case.get("limit") or DEFAULT_LIMIT
    upval = [_up_present(case, j) for j in range(len(case["ups"]))]
    out = []
    for i, r in enumerate(case["rules"]):
        # declared enabled / disabled; the last configuration entry naming the rule decides otherwise
        enabled = (_configured(case, i, matches, "enabled") or [bool(r["enabled"])])[-1]
        if not enabled:
            out.append({"cls": "nothing", "why": "disabled", "invoked": False})
            continue
        mreq, mgrp = [], []
        for d in r["decl"]:
            if d[0] == "req" and not upval[d[1]]:
                mreq.append(d[1])
            elif d[0] == "grp" and not any(upval[j] for j in d[1]):
                mgrp.append(list(d[1]))
        if mreq or mgrp:
            miss = [upnames[j] for j in mreq] + [upnames[j] for g in mgrp for j in g]
            out.append({"cls": "skip", "missing": sorted(miss), "invoked": False})
            continue
        ret = r["ret"]
        kind = ret["kind"]
        if r.get("reads") and any(upval[j] and _up_unreadable(case, j) for j in _flat_deps(r["decl"])):
            # the dependency is there, its content is not: the rule's body fails while reading it, whatever
            # it would have returned
            out.append({"cls": "exception", "why": "lazy-content", "invoked": True})
            continue
        if kind in TYPED:
            payload = dict(ret.get("payload") or {})
            padded = False
            if ret.get("pad") is not None:
                payload, padded = _pad_payload(kind, ret["key"], payload, limit, ret["pad"])
            resp, stub = _expected_response(kind, ret["key"], payload, limit)
            out.append({"cls": "typed", "type": TYPED[kind], "key": ret["key"], "response": resp,
                        "stub": stub, "padded": padded, "payload": payload, "invoked": True})
        elif kind == "metadata":
            payload = dict(("md%d_%s" % (i, k), v) for k, v in (ret.get("payload") or {}).items())
            resp, stub = _expected_response(kind, None, payload, limit)
            out.append({"cls": "metadata", "response": resp, "stub": stub, "payload": payload, "invoked": True})
        elif kind == "metadata_key":
            out.append({"cls": "metadata_key", "key": "mk%d" % i, "value": ret.get("value"), "invoked": True})
        elif kind == "none":
            out.append({"cls": "typed", "type": "none", "key": "NONE_KEY", "stub": False, "padded": False,
                        "response": {"type": "none", "none_key": "NONE_KEY"}, "invoked": True})
        elif kind == "skip":
            out.append({"cls": "nothing", "why": "deliberate skip", "invoked": True})
        elif kind in ("nonresponse", "raise", "invalid"):
            out.append({"cls": "exception", "why": kind, "invoked": True})
        else:
            raise HarnessError("bad case: return kind %r" % kind)
    return out


def _effective_show(case):
    """-> (skips shown, set of shown result types incl. 'metadata'); None = everything"""
    ev = case["evaluator"]
    if ev in ("single", "insights"):
        return True, set(SHOW_OPTS)
    missing = bool(case.get("missing"))
    show = list(case.get("show_rules") or [])
    if ev.endswith("-adapter"):
        fail_only = bool(case.get("fail_only"))
        if missing and fail_only:
            fail_only = False
        if not show and fail_only:
            show = ["rule"]
    if not show:
        return missing, set(SHOW_OPTS) - set(["none"])
    return missing, set(show)


def selftest():
    # length rule and stub shape, from the repository's documentation/test expectation
    full = _full_response("fail", "TESTING", {"big": "x" * 10})
    assert full == {"type": "rule", "error_key": "TESTING", "big": "x" * 10}
    n = len(str(full))
    r, stub = _expected_response("fail", "TESTING", {"big": "x" * 10}, n)
    assert not stub and r == full
    r, stub = _expected_response("fail", "TESTING", {"big": "x" * 10}, n - 1)
    assert stub and r == {"type": "rule", "error_key": "TESTING", "max_detail_length_error": n}
    p, ok = _pad_payload("pass", "K", {"a": 1}, 200, 1)
    assert ok and len(str(_full_response("pass", "K", p))) == 201
    assert _expected_response("metadata", None, {"a": "y" * 50}, 20) == (
        {"type": "metadata", "max_detail_length_error": len(str({"type": "metadata", "a": "y" * 50}))}, True)
    assert _expected_response("metadata_key", "k", {"value": "y" * 50}, 20)[1] is False
    assert not _key_valid("") and not _key_valid(None) and not _key_valid(5) and not _key_valid(b"K") and _key_valid(" ")
    case = {"ups": ["ok", "skip", "crash", "ok"], "rules": [
        {"mod": 0, "decl": [["req", 0], ["grp", [1, 3]], ["opt", 2]], "enabled": True, "ret": {"kind": "pass", "key": "K"}},
        {"mod": 0, "decl": [["req", 1], ["req", 0], ["grp", [1, 2]], ["grp", [2, 0]]], "enabled": True, "ret": {"kind": "pass", "key": "K"}},
        {"mod": 0, "decl": [["req", 1]], "enabled": False, "ret": {"kind": "pass", "key": "K"}},
        {"mod": 0, "decl": [], "enabled": True, "ret": {"kind": "nonresponse", "value": 0}},
        {"mod": 0, "decl": [["opt", 1]], "enabled": True, "ret": {"kind": "none"}}]}
    m = model_rules(case, None, ["u0", "u1", "u2", "u3"])
    assert [x["cls"] for x in m] == ["typed", "skip", "nothing", "exception", "typed"], m
    assert m[1]["missing"] == ["u1", "u1", "u2"] and m[4]["type"] == "none"
    # what the rules are built on: a provider is there although unreadable, a parser on it is not
    case = {"ups": ["ok", "skip", "ok", "ok"], "upkinds": ["spec", "component", "parser", "component"],
            "upcontent": ["cpe", "ce", "ce", "ok"], "rules": [
        {"mod": 0, "decl": [["req", 0]], "enabled": True, "reads": True, "ret": {"kind": "pass", "key": "K"}},
        {"mod": 0, "decl": [["req", 0]], "enabled": True, "reads": False, "ret": {"kind": "pass", "key": "K"}},
        {"mod": 0, "decl": [["grp", [1, 3]], ["opt", 2]], "enabled": True, "reads": True, "ret": {"kind": "skip"}},
        {"mod": 0, "decl": [["req", 2], ["opt", 0]], "enabled": True, "reads": True, "ret": {"kind": "pass", "key": "K"}},
        {"mod": 0, "decl": [["req", 3], ["opt", 0]], "enabled": False, "reads": True, "ret": {"kind": "pass", "key": "K"}},
        {"mod": 0, "decl": [["grp", [3, 0]]], "enabled": True, "reads": True, "ret": {"kind": "raise", "exc": "KeyError"}}]}
    m = model_rules(case, None, ["u0", "u1", "u2", "u3"])
    assert [(x["cls"], x.get("why")) for x in m] == [
        ("exception", "lazy-content"), ("typed", None), ("nothing", "deliberate skip"), ("skip", None),
        ("nothing", "disabled"), ("exception", "lazy-content")], m
    assert m[3]["missing"] == ["u2"]
    # shared declaration constants and configuration entries
    case = {"ups": ["ok", "skip", "ok", "ok"], "pools": {"links": [{"kcs": ["u1"]}, {"bz": []}], "tags": [["t1"]]},
            "configs": [{"target": ["module", 1], "tags": ["c"], "enabled": False},
                        {"target": ["rule", 1], "links": {"jira": ["u2"]}},
                        {"target": ["rule", 5], "links_ref": 3, "enabled": False},
                        {"target": ["none"], "links": {"x": []}, "tags": ["n"], "enabled": False},
                        {"target": ["stem", 0], "tags_ref": 0}],
            "rules": [
        {"mod": 0, "decl": [], "enabled": True, "links_ref": 0, "links": {"own": []}, "ret": {"kind": "pass", "key": "K"}},
        {"mod": 1, "decl": [], "enabled": False, "links_ref": 2, "tags": ["d"], "ret": {"kind": "pass", "key": "K"}},
        {"mod": 1, "decl": [], "enabled": True, "links": {"own": []}, "tags_ref": 0, "ret": {"kind": "pass", "key": "K"}}]}
    names, modfulls = ["p_a.rules.r0", "p_b.rules.r0", "p_b.rules.r1"], ["p_a.rules", "p_b.rules"]
    mt = _config_matches(case, names, modfulls)
    assert mt == [[1, 2], [1], [2], [], [0]], mt
    assert [_declared(case, r, "links") for r in case["rules"]] == [{"kcs": ["u1"]}, {"kcs": ["u1"]}, {"own": []}]
    assert [_configured(case, i, mt, "links") for i in range(3)] == [[], [{"jira": ["u2"]}], [{"bz": []}]]
    assert [_configured(case, i, mt, "tags") for i in range(3)] == [[["t1"]], [["c"]], [["c"]]]
    assert [_configured(case, i, mt, "enabled") for i in range(3)] == [[True], [False, True], [False, False]]
    assert [x["cls"] for x in model_rules(case, names, ["u0", "u1", "u2", "u3"], mt)] == ["typed", "typed", "nothing"]
    assert _links_problem({"kcs": ["u1"]}, [], {"kcs": ["u1"]}) is None and _links_problem(None, [], {}) is None
    assert _links_problem({"kcs": ["u1"]}, [], {"kcs": ["u1"], "jira": ["u2"]}) and _links_problem({"kcs": ["u1"]}, [], {})
    for got in ({"jira": ["u2"]}, {"jira": ["u2"], "kcs": ["u1"]}):        # replaced or merged: both are "its" links
        assert _links_problem({"kcs": ["u1"]}, [{"jira": ["u2"]}], got) is None
    assert _links_problem({"kcs": ["u1"]}, [{"jira": ["u2"]}], {"kcs": ["u1"]})                    # configured, not reported
    assert _links_problem({"kcs": ["u1"]}, [{"jira": ["u2"]}], {"jira": ["u2"], "bz": []})        # nobody's
    assert _links_problem({"kcs": ["u1"]}, [{"jira": ["u2"]}], {"jira": ["u2"], "kcs": ["u9"]})
    assert _links_problem({}, [{"bz": ["u3"]}, {"jira": ["u2"]}], {"jira": ["u2"], "bz": ["u3"]}) is None
    assert _tags_problem(["a", "a"], [], ["a"]) is None and _tags_problem(["a"], [], ["a", "a"]) and _tags_problem(None, [], ["a"])
    assert _tags_problem(["a"], [["b"]], ["b"]) is None and _tags_problem(["a"], [["b"]], ["a", "b"]) is None
    assert _tags_problem(["a"], [["b"]], ["a"]) and _tags_problem(["a"], [["b"]], ["b", "c"])
    # spellings of a declaration
    case = {"pools": {"tags": [["a", "b"], ["c"]], "tags_form": ["frozenset", "tuple"]}, "rtypes": [{"tags": ["k", "a"]}],
            "rules": [{"tags_ref": 0, "tags": ["own"], "tags_form": "iter", "rtype": 2}, {"tags": ["own"], "tags_form": "set"},
                      {"tags_ref": 3, "rtype": None}, {"tags": None, "rtype": 0}]}
    assert [_tags_form(case, r) for r in case["rules"]] == ["frozenset", "set", "tuple", "list"]
    assert [sorted(set(_declared_tags(case, r))) for r in case["rules"]] == [["a", "b", "k"], ["own"], ["c"], ["a", "k"]]
    assert _spell_tags(["a", "b", "a"], "tuple") == ("a", "b", "a") and _spell_tags(["a", "b"], "frozenset") == frozenset("ab")
    assert sorted(_spell_tags(["a", "b"], "dictkeys")) == ["a", "b"] and list(_spell_tags(["a"], "iter")) == ["a"]
    assert _tags_problem(["a", "b"], [], [["a", "b"]]) and _tags_problem(["a"], [], ["a", ["b"]]) and _tags_problem(["a"], [["a"]], [["a"]])
    assert _effective_show({"evaluator": "json", "missing": False, "show_rules": []}) == (False, set(SHOW_OPTS) - set(["none"]))
    assert _effective_show({"evaluator": "json-adapter", "missing": True, "fail_only": True, "show_rules": []}) == (True, set(SHOW_OPTS) - set(["none"]))
    assert _effective_show({"evaluator": "yaml-adapter", "missing": False, "fail_only": True, "show_rules": []}) == (False, set(["rule"]))
    assert _effective_show({"evaluator": "yaml-adapter", "missing": False, "fail_only": True, "show_rules": ["info"]}) == (False, set(["info"]))


# ------------------------------------------------------------------------------------------------
# building and running the real thing

def _cleanup(comps, modnames, rtypes=()):
    from insights.core import dr
    for t in rtypes:
        dr.COMPONENTS_BY_TYPE.pop(t, None)
        dr.TYPE_OBSERVERS.pop(t, None)
    for regname in ("DELEGATES", "DEPENDENCIES", "DEPENDENTS", "ENABLED", "IGNORE", "MODULE_NAMES",
                    "BASE_MODULE_NAMES"):
        reg = getattr(dr, regname)
        for c in comps:
            reg.pop(c, None)
    for grp in list(dr.COMPONENTS):
        for c in comps:
            dr.COMPONENTS[grp].pop(c, None)
    for s in dr.COMPONENTS_BY_TYPE.values():
        s.difference_update(comps)
    dr.HIDDEN.difference_update(comps)
    for obs in dr.TYPE_OBSERVERS.values():
        obs.difference_update(comps)
    for cache in (dr.COMPONENTS_BY_NAME, dr.COMPONENT_IMPORT_CACHE):
        for k in [k for k in cache if isinstance(k, str) and any(m in k for m in modnames)]:
            cache.pop(k, None)
    for m in modnames:
        sys.modules.pop(m, None)


def _yaml_loader():
    import yaml

    class Loader(yaml.SafeLoader):
        pass

    def _name(loader, suffix, node):
        return "name:" + suffix

    def _tuple(loader, node):
        return loader.construct_sequence(node, deep=True)

    def _objnew(loader, suffix, node):
        m = loader.construct_mapping(node, deep=True)
        return dict(m.get("dictitems", {}))

    def _obj(loader, suffix, node):
        # an arbitrary object inside the pickled state of a response (a skip response keeps the missing
        # components themselves - functions, classes, registry point instances - next to their names)
        return "object:" + suffix

    Loader.add_multi_constructor("tag:yaml.org,2002:python/name:", _name)
    Loader.add_multi_constructor("tag:yaml.org,2002:python/object:", _obj)
    Loader.add_multi_constructor("tag:yaml.org,2002:python/object/apply:", _obj)
    Loader.add_constructor("tag:yaml.org,2002:python/tuple", _tuple)
    Loader.add_multi_constructor("tag:yaml.org,2002:python/object/new:", _objnew)
    return Loader


def _make_rule_body(i, ret, limit, log, reads=False):
    from insights.core.exceptions import SkipComponent, ContentException, CalledProcessError
    from insights.core.spec_factory import ContentProvider
    kind = ret["kind"]
    classes = _classes()

    def body(*args):
        log.append(i)
        if reads:
            # what rule bodies do with their arguments: look at the lines of a spec, at the data of a
            # parser / combiner; a content provider loads (and may fail) only now
            for a in args:
                if isinstance(a, ContentProvider):
                    len(a.content)
                elif a is not None:
                    len(a.data)
        if kind in TYPED:
            payload = dict(ret.get("payload") or {})
            if ret.get("pad") is not None:
                payload, _ = _pad_payload(kind, ret["key"], payload, limit, ret["pad"])
            return classes[kind](ret["key"], **payload)
        if kind == "metadata":
            return classes["metadata"](**dict(("md%d_%s" % (i, k), v) for k, v in (ret.get("payload") or {}).items()))
        if kind == "metadata_key":
            return classes["metadata_key"]("mk%d" % i, ret.get("value"))
        if kind == "none":
            return None
        if kind == "nonresponse":
            return _unjson(ret.get("value"))
        if kind == "skip":
            raise SkipComponent("deliberate")
        if kind == "raise":
            exc = ret.get("exc", "ValueError")
            if exc == "ContentException":
                raise ContentException("rule %d" % i)
            if exc == "CalledProcessError":
                raise CalledProcessError(1, "rule %d" % i)
            if exc == "KeyError":
                raise KeyError("rule %d" % i)
            raise ValueError("rule %d" % i)
        if kind == "invalid":
            inv = ret["invalid"]
            cls = classes[inv["cls"]]
            kwargs = dict(inv.get("kwargs") or {})
            if inv["cls"] == "metadata":
                return cls(**kwargs)
            if inv["cls"] == "metadata_key":
                return cls(_unjson(inv["key"]), "some value")
            return cls(_unjson(inv["key"]), **kwargs)
        raise HarnessError("bad case: return kind")
    return body


def _provider(j, content):
    """the value of a spec: a content provider that loads lazily - the producer succeeded, reading may not"""
    from insights.core.exceptions import ContentException, CalledProcessError
    from insights.core.spec_factory import ContentProvider

    class LazyProvider(ContentProvider):
        def __init__(self):
            super(LazyProvider, self).__init__()
            self.root = "/"
            self.relative_path = "vp_c12/up%d" % j
            self.ctx = self.ds = self.cleaner = None

        def load(self):
            if content == "ce":
                raise ContentException("%s vanished before it was read" % self.path)
            if content == "cpe":
                raise CalledProcessError(1, "/bin/up%d" % j, "")
            return ["line of up%d" % j]
    return LazyProvider()


class _Data(object):
    def __init__(self, data):
        self.data = data


def _build_ups(case, upmod, m, comps):
    """the four upstreams, each one a chain of the kind named in case["upkinds"]:
    component: @component returning a provider             spec: Specs.upN <- @datasource Impl.upN
    parser:    Specs.srcN <- Impl.srcN <- Parser class upN  condition: the same with a @condition function
    combiner:  Specs.srcN <- Impl.srcN <- Parser parN <- @combiner upN
    case["ups"][j] (ok / skip / crash) is what the producer of the top value does (for a spec: its
    datasource); case["upcontent"][j] says whether the content of the provider at the bottom can be read."""
    from insights.core import Parser
    from insights.core.plugins import component, datasource, parser, combiner, condition
    from insights.core.spec_factory import RegistryPoint, SpecSet
    from insights.core.exceptions import SkipComponent

    def outcome(j, here):
        out = case["ups"][j]
        if here and out == "skip":
            raise SkipComponent("up%d" % j)
        if here and out == "crash":
            raise RuntimeError("up%d" % j)

    def named(fn, name):
        fn.__name__ = fn.__qualname__ = name
        fn.__module__ = upmod
        setattr(m, name, fn)
        return fn

    n = len(case["ups"])
    kinds = [_up_kind(case, j) for j in range(n)]
    if any(k not in UPKINDS for k in kinds) or any(_up_content(case, j) not in ("ok", "ce", "cpe") for j in range(n)):
        raise HarnessError("bad case: upstream kind / content")
    specname = dict((j, ("up%d" if kinds[j] == "spec" else "src%d") % j) for j in range(n) if kinds[j] != "component")
    points = {}
    if specname:
        dct = dict((name, RegistryPoint()) for name in specname.values())
        dct["__module__"] = upmod
        specs = type("Specs", (SpecSet,), dct)
        impls = {"__module__": upmod}
        for j, name in sorted(specname.items()):
            def dsbody(broker, j=j):
                outcome(j, kinds[j] == "spec")
                return _provider(j, _up_content(case, j))
            dsbody.__name__ = dsbody.__qualname__ = name
            dsbody.__module__ = upmod
            impls[name] = datasource()(dsbody)
            points[j] = specs.registry[name]
            comps.extend([points[j], impls[name]])
        m.Specs = specs
        m.Impl = type("Impl", (specs,), impls)
    ups = []
    for j in range(n):
        kind = kinds[j]
        if kind == "component":
            def ubody(j=j):
                outcome(j, True)
                return _provider(j, _up_content(case, j))
            ups.append(component()(named(ubody, "up%d" % j)))
        elif kind == "spec":
            ups.append(points[j])
            continue
        elif kind == "condition":
            def cbody(spec, j=j):
                lines = list(spec.content)
                outcome(j, True)
                return _Data(lines)
            ups.append(condition(points[j])(named(cbody, "up%d" % j)))
        else:
            def parse_content(self, content, j=j, here=(kind == "parser")):
                self.data = list(content)
                outcome(j, here)
            pname = "up%d" % j if kind == "parser" else "par%d" % j
            pcls = type(pname, (Parser,), {"parse_content": parse_content, "__module__": upmod})
            setattr(m, pname, pcls)
            parser(points[j])(pcls)
            if kind == "parser":
                ups.append(pcls)
            else:
                comps.append(pcls)

                def combody(p, j=j):
                    outcome(j, True)
                    return _Data(list(p.data))
                ups.append(combiner(pcls)(named(combody, "up%d" % j)))
        comps.append(ups[-1])
    return ups


def _build_rules(case, uid, log, comps, modnames, rtypes):
    """declares everything; what it registers is appended to comps / modnames / rtypes (the caller's lists, so
    that a declaration failing half way is cleaned up as well)"""
    from insights.core import dr
    from insights.core.plugins import rule
    limit = case.get("limit") or DEFAULT_LIMIT
    upmod = "vp_c12_u%d_up.deps" % uid
    m = types.ModuleType(upmod)
    sys.modules[upmod] = m
    modnames.append(upmod)
    ups = _build_ups(case, upmod, m, comps)
    mods = []
    for mi, md in enumerate(case["modules"]):
        full = "vp_c12_u%d_%s.%s" % (uid, md["pkg"], md["base"])
        if full in modnames:
            raise HarnessError("bad case: duplicate module")
        mm = types.ModuleType(full)
        sys.modules[full] = mm
        modnames.append(full)
        mods.append((full, mm))
    rules, names = [], []
    per_mod = {}
    # module level constants shared between rule declarations: one object per pool entry, handed to every
    # decorator that refers to it (never the case's own objects - the case stays what was generated)
    shared = dict((what, [copy.deepcopy(v) for v in _pool(case, what)]) for what in SHAREABLE)
    # ... each in the spelling its author chose (a TAGS tuple / set / frozenset instead of a list); a one-shot
    # iterator cannot be a shared constant
    pforms = (case.get("pools") or {}).get("tags_form") or []
    if any(f not in TAG_FORMS or f == "iter" for f in pforms):
        raise HarnessError("bad case: spelling of a shared tags constant")
    if pforms:
        shared["tags"] = [_spell_tags(v, pforms[k % len(pforms)]) for k, v in enumerate(shared["tags"])]
    # rule subclasses with class level tags ('tags: a list of strings', documented class attribute)
    for k, rt in enumerate(case.get("rtypes") or []):
        cls = type("vp_c12_rule%d" % k, (rule,), {"tags": list(rt.get("tags") or []), "__module__": upmod})
        rtypes.append(cls)
    arglists = {}

    def arglist(kind, idx):
        # GROUP = [A, B] / OPTIONAL = [C] constants used in several decorators
        if not case.get("share_args"):
            return [ups[j] for j in idx]
        key = (kind, tuple(idx))
        if key not in arglists:
            arglists[key] = [ups[j] for j in idx]
        return arglists[key]

    for i, r in enumerate(case["rules"]):
        full, mm = mods[r["mod"]]
        k = per_mod.get(r["mod"], 0)
        per_mod[r["mod"]] = k + 1
        if k > 9:
            raise HarnessError("bad case: more than ten rules in one module (r1 would be a prefix of r10)")
        body = _make_rule_body(i, r["ret"], limit, log, reads=bool(r.get("reads")))
        body.__name__ = body.__qualname__ = "r%d" % k
        body.__module__ = full
        setattr(mm, body.__name__, body)
        args, opt = [], []
        for d in r["decl"]:
            if d[0] == "req":
                args.append(ups[d[1]])
            elif d[0] == "grp":
                args.append(arglist("grp", d[1]))
            else:
                opt.append(d[1])
        kw = {}
        if opt or r.get("empty_optional"):
            kw["optional"] = arglist("opt", opt)
            if len(opt) == 1 and r.get("opt_single"):
                kw["optional"] = ups[opt[0]]            # optional=X for optional=[X]
        for what in SHAREABLE:
            ref = r.get(what + "_ref")
            if ref is not None and shared[what]:
                kw[what] = shared[what][ref % len(shared[what])]
            elif r.get(what) is not None:
                kw[what] = copy.deepcopy(r[what])
                if what == "tags":
                    kw[what] = _spell_tags(kw[what], _tags_form(case, r))
        if r.get("requires_kw") and args:
            kw["requires"] = args                       # the older spelling of the positional dependencies
            args = []
        k = _rtype(case, r)
        deco = rule if k is None else rtypes[k]
        try:
            comp = deco(*args, **kw)(body)
        except (TypeError, ValueError, AttributeError) as e:
            raise Violation("rule %d could not be declared (tags=%r spelled as a %s%s%s): %s: %s"
                            % (i, _declared(case, r, "tags"), _tags_form(case, r),
                               ", dependencies as requires=" if "requires" in kw else "",
                               ", a bare optional dependency" if "optional" in kw and not isinstance(kw["optional"], list) else "",
                               type(e).__name__, e),
                            rule=dict((kk, vv) for kk, vv in r.items() if kk != "ret"))
        rules.append(comp)
        comps.append(comp)
        names.append("%s.%s" % (full, body.__name__))
        if not r["enabled"]:
            dr.set_enabled(comp, False)
    return ups, rules, names, [md["base"] for md in case["modules"]], [full for full, _ in mods]


def _apply_config(case, names, modfulls):
    """the "configs" list of a YAML configuration file goes through insights.apply_configs, as in insights-run
    -c, insights-cat / insights-inspect -c, insights.tools.query, the shell and insights.collect.  Entries
    referring to the same pool entry share one object (YAML anchors / aliases survive safe_load)."""
    entries = case.get("configs") or []
    if not entries:
        return False
    import yaml
    import insights
    shared = dict((what, [copy.deepcopy(v) for v in _pool(case, what)]) for what in SHAREABLE)
    cfgs = []
    for e in entries:
        d = {"name": _cfg_name(e, names, modfulls)}
        for what in SHAREABLE:
            ref = e.get(what + "_ref")
            if ref is not None and shared[what]:
                d[what] = shared[what][ref % len(shared[what])]
            elif what in e:
                d[what] = copy.deepcopy(e[what])
        if "enabled" in e:
            d["enabled"] = bool(e["enabled"])
        cfgs.append(d)
    insights.apply_configs(yaml.safe_load(yaml.safe_dump({"configs": cfgs})))
    return True


def _run_evaluator(case, graph):
    """-> (doc, broker, in_process?)"""
    import argparse
    from insights.core import dr
    from insights.core.evaluators import SingleEvaluator, InsightsEvaluator
    ev = case["evaluator"]
    broker = dr.Broker()
    buf = io.StringIO()
    inc = bool(case.get("incremental"))
    # further evaluators observing the same broker (several formatters on one run is ordinary use:
    # `insights-run -f json -f yaml ...`); each of them must account for every rule by itself
    shadows = []
    for k in range(int(case.get("shadows") or 0)):
        sh = SingleEvaluator(broker, stream=io.StringIO())
        sh.preprocess()
        shadows.append(sh)
    _run_evaluator.shadows = shadows
    if ev in ("single", "insights"):
        if ev == "single":
            e = SingleEvaluator(broker, stream=buf, incremental=inc)
        else:
            if case.get("bad_machine_id"):
                # the machine-id spec is in the broker but reading it fails (an empty /etc/machine-id under a
                # host context raises its content error lazily): the evaluator cannot learn the system id -
                # the rules are accounted for all the same
                from insights.specs import Specs
                from insights.core.exceptions import ContentException

                class _Unreadable(object):
                    relative_path = "etc/machine-id"

                    @property
                    def content(self):
                        raise ContentException("empty content: etc/machine-id")
                broker[Specs.machine_id] = _Unreadable()
                if case["bad_machine_id"] == "both":
                    broker[Specs.redhat_release] = _Unreadable()
                e = InsightsEvaluator(broker, stream=buf, incremental=inc)
            else:
                e = InsightsEvaluator(broker, system_id="SID-1", stream=buf, incremental=inc)
        return e.process(dict(graph)), broker, True
    missing = bool(case.get("missing"))
    show = list(case.get("show_rules") or [])
    if ev in ("json", "yaml"):
        if ev == "json":
            from insights.formats._json import JsonFormat
            f = JsonFormat(broker, missing=missing, render_content=False, show_rules=show or None, stream=buf)
        else:
            from insights.formats._yaml import YamlFormat
            f = YamlFormat(broker, missing=missing, show_rules=show or None, stream=buf)
        f.preprocess()
        if inc:
            dr.run_all(dict(graph), broker=broker)
        else:
            dr.run(dict(graph), broker=broker)
        _post(f.postprocess, case)
    else:
        if ev == "json-adapter":
            from insights.formats._json import JsonFormatterAdapter as Adapter
        elif ev == "yaml-adapter":
            from insights.formats._yaml import YamlFormatterAdapter as Adapter
        else:
            raise HarnessError("bad case: evaluator %r" % ev)
        raw = [("fail" if s == "rule" else s) for s in show]
        ns = argparse.Namespace(missing=missing, render_content=False, show_rules=raw or None,
                                fail_only=bool(case.get("fail_only")), plugins=None)
        ad = Adapter(ns)
        ad.preprocess(broker)
        # the adapter's formatter writes to the process's stdout; redirect it - but only after making
        # sure the adapter really built a formatter that can write (and with the options it was given)
        if not hasattr(ad.formatter.stream, "write"):
            raise Violation("%s built its formatter with an output stream that cannot be written (%r): "
                            "no rule outcome is reported at all" % (Adapter.__name__, ad.formatter.stream),
                            options=_opts(case))
        ad.formatter.stream = buf
        if inc:
            dr.run_all(dict(graph), broker=broker)
        else:
            dr.run(dict(graph), broker=broker)
        _post(lambda: ad.postprocess(broker), case)
    text = buf.getvalue()
    if ev.startswith("json"):
        doc = json.loads(text)
    else:
        import yaml
        doc = yaml.load(text, Loader=_yaml_loader())
    return doc, broker, False


def _post(fn, case):
    """every generated payload is JSON/YAML serialisable, so a formatter that cannot write its report
    has been handed something else by the evaluator"""
    try:
        fn()
    except (TypeError, ValueError, AttributeError) as e:
        raise Violation("the formatter could not write its report: %s: %s" % (type(e).__name__, e),
                        options=_opts(case))


_NAME_RE = re.compile(r"vp_c12_u\d+_[a-z]+\.[a-z]+(?:\.[A-Z][a-z]+)?\.[a-z]+[0-9]+")


def check_rules(case):
    from insights.core import dr
    from insights import settings
    limit = case.get("limit") or DEFAULT_LIMIT
    if limit < 1500 or len(case["ups"]) != 4 or not 1 <= len(case["rules"]) <= 20:
        raise HarnessError("bad case")
    uid = next(_counter)
    log = []
    comps, modnames, rtypes = [], [], []
    old_limit = settings.defaults["max_detail_length"]
    plog = logging.getLogger("insights.core.plugins")
    old_disabled = plog.disabled
    try:
        plog.disabled = True
        settings.defaults["max_detail_length"] = limit
        ups, rules, names, bases, modfulls = _build_rules(case, uid, log, comps, modnames, rtypes)
        upnames = [dr.get_name(u) for u in ups]
        for j, un in enumerate(upnames):
            if _NAME_RE.findall(un) != [un] or not un.endswith(".up%d" % j):
                raise HarnessError("generated upstream %d has the unexpected name %r" % (j, un))
        for i, rc in enumerate(rules):
            if dr.get_name(rc) != names[i]:
                raise HarnessError("generated rule %d has the unexpected name %r" % (i, dr.get_name(rc)))
        matches = _config_matches(case, names, modfulls)
        model = model_rules(case, names, upnames, matches)
        _apply_config(case, names, modfulls)
        graph = {}
        for rc in rules:
            graph.update(dr.get_dependency_graph(rc))
        doc, broker, inproc = _run_evaluator(case, graph)
        show_skips, shown = _effective_show(case)
        by_name = dict((n, i) for i, n in enumerate(names))

        # --- the outcome held by the broker is the response the rule returned, whatever evaluators and
        # formatters did with it meanwhile
        from insights.core.plugins import Response
        for i, m in enumerate(model):
            if m["cls"] in ("typed", "metadata") and m.get("response") is not None:
                if rules[i] not in broker:
                    raise Violation("rule %d produced a response but the broker holds nothing for it" % i)
                got = broker[rules[i]]
                if not isinstance(got, Response) or _unjson(dict(got)) != _unjson(dict(m["response"])):
                    raise Violation("the response held for rule %d after the evaluation is %r, the rule returned %r "
                                    "(an evaluator or formatter altered the rule's outcome)"
                                    % (i, _short(dict(got)) if isinstance(got, dict) else repr(got)[:200],
                                       _short(m["response"])))
        # --- every further evaluator on the same broker accounts for the same rules
        for k, sh in enumerate(getattr(_run_evaluator, "shadows", [])):
            sdoc = sh.get_response()
            want_md = {}
            for m in model:
                if m["cls"] == "metadata":
                    want_md.update(dict((kk, vv) for kk, vv in m["response"].items() if kk != "type"))
            got_md = dict((sdoc.get("system") or {}).get("metadata") or {})
            if _unjson(got_md) != _unjson(want_md):
                raise Violation("evaluator #%d observing the same broker reports system metadata %r, the metadata "
                                "rules supplied %r" % (k + 2, _short(got_md), _short(want_md)))
            for tname, heading in HEADING.items():
                want_c = sorted(names[i] for i, m in enumerate(model) if m["cls"] == "typed" and m["type"] == tname)
                got_c = sorted(e.get("component") for e in (sdoc.get(heading) or []) if isinstance(e, dict))
                if want_c != got_c:
                    raise Violation("evaluator #%d observing the same broker reports %r under %r, expected %r"
                                    % (k + 2, got_c, heading, want_c))

        # --- every heading entry belongs to a rule that the model puts under that heading, once
        seen = {}
        for heading, val in doc.items():
            if heading in ("skips", "system", "analysis_metadata") or not isinstance(val, list):
                continue
            for ent in val:
                if not (isinstance(ent, dict) and "component" in ent):
                    continue
                i = by_name.get(ent["component"])
                if i is None:
                    raise Violation("entry under %r names an unknown component %r" % (heading, ent["component"]))
                m = model[i]
                if m["cls"] != "typed":
                    raise Violation("rule %d (%s) is reported under %r but its outcome is: %s"
                                    % (i, names[i], heading, m["cls"]), entry=_view(ent))
                if HEADING[m["type"]] != heading:
                    raise Violation("rule %d (%s) of type %r is reported under %r, expected %r"
                                    % (i, names[i], m["type"], heading, HEADING[m["type"]]), entry=_view(ent))
                if i in seen:
                    raise Violation("rule %d (%s) is reported more than once" % (i, names[i]),
                                    first=_view(seen[i]), second=_view(ent))
                seen[i] = ent
        for i, m in enumerate(model):
            r = case["rules"][i]
            # invocation count and what the broker holds
            n = log.count(i)
            if n != (1 if m["invoked"] else 0):
                raise Violation("rule %d body ran %d time(s), expected %d" % (i, n, 1 if m["invoked"] else 0))
            excs = broker.exceptions.get(rules[i], [])
            if m["cls"] == "exception":
                if rules[i] in broker:
                    raise Violation("rule %d (%s) has a value in the broker although its return must be "
                                    "rejected" % (i, m["why"]), value=repr(broker[rules[i]])[:300], ret=r["ret"])
                if not excs:
                    raise Violation("rule %d (%s) left no recorded exception" % (i, m["why"]), ret=r["ret"])
                if m["why"] == "invalid" and type(excs[0]).__name__ != "ValidationException":
                    raise Violation("invalid response arguments inside rule %d were rejected with %s, not "
                                    "ValidationException" % (i, type(excs[0]).__name__), ret=r["ret"])
            else:
                if excs:
                    raise Violation("rule %d (outcome %s) has recorded exceptions %r" % (i, m["cls"], excs))
                if m["cls"] == "nothing" and rules[i] in broker:
                    raise Violation("rule %d (%s) has a value in the broker" % (i, m["why"]),
                                    value=repr(broker[rules[i]])[:300])
            # accounting in the response document
            if m["cls"] == "typed":
                if m["type"] not in shown:
                    if i in seen:
                        raise Violation("rule %d of type %r is shown although the options hide that type"
                                        % (i, m["type"]), options=_opts(case))
                    continue
                ent = seen.get(i)
                if ent is None:
                    raise Violation("rule %d (%s, type %r, key %r) is not reported under %r"
                                    % (i, names[i], m["type"], m["key"], HEADING[m["type"]]),
                                    options=_opts(case), headings=sorted(doc))
                want = {"type": m["type"], "key": m["key"], "component": names[i],
                        "%s_id" % m["type"]: "%s|%s" % (bases[r["mod"]], m["key"])}
                for k, v in want.items():
                    if ent.get(k, "<absent>") != v:
                        raise Violation("entry of rule %d carries %s=%r, expected %r" % (i, k, ent.get(k, "<absent>"), v),
                                        entry=_view(ent))
                # its own links and tags: what this rule declares (alone or through a constant it shares with
                # other rules) and what the configuration says about *this* rule
                why = _links_problem(_declared(case, r, "links"), _configured(case, i, matches, "links"),
                                     ent.get("links", "<absent>"))
                if why:
                    raise Violation("entry of rule %d (%s) carries %s" % (i, names[i], why), entry=_view(ent),
                                    configs=_cfg_view(case, names, modfulls))
                why = _tags_problem(_declared_tags(case, r), _configured(case, i, matches, "tags"),
                                    ent.get("tags", "<absent>"))
                if why:
                    raise Violation("entry of rule %d (%s) carries %s" % (i, names[i], why), entry=_view(ent),
                                    configs=_cfg_view(case, names, modfulls))
                det = ent.get("details")
                if not isinstance(det, dict) or dict(det) != m["response"]:
                    raise Violation("details of rule %d differ from the response it returned%s"
                                    % (i, " (size-limit stub expected)" if m["stub"] else ""),
                                    got=_short(det), expected=_short(m["response"]))
            elif i in seen:
                raise Violation("rule %d with outcome %s appears under a heading" % (i, m["cls"]))

        # --- skips
        skips = doc.get("skips")
        want_skips = dict((names[i], m["missing"]) for i, m in enumerate(model) if m["cls"] == "skip")
        if not show_skips:
            if skips:
                raise Violation("skips are shown although 'missing' is off", options=_opts(case))
        else:
            got = {}
            for ent in skips or []:
                fq = ent.get("rule_fqdn") if isinstance(ent, dict) else None
                if fq not in want_skips:
                    raise Violation("skip entry for %r, which is not a rule with missing dependencies" % (fq,), entry=_short(ent))
                if fq in got:
                    raise Violation("two skip entries for rule %s" % fq)
                got[fq] = ent
                if ent.get("type") != "skip":
                    raise Violation("skip entry of %s has type %r" % (fq, ent.get("type")))
                named = sorted(_NAME_RE.findall(str(ent.get("details"))))
                if named != want_skips[fq]:
                    raise Violation("skip entry of %s names %r, the missing dependencies are %r"
                                    % (fq, named, want_skips[fq]), entry=_short(ent))
            for fq in want_skips:
                if fq not in got:
                    raise Violation("rule %s has missing dependencies but no skip entry" % fq, options=_opts(case))

        # --- metadata and metadata keys
        contrib = {}
        for i, m in enumerate(model):
            if m["cls"] == "metadata":
                for k, v in m["response"].items():
                    if k != "type":
                        contrib.setdefault(k, []).append(v)
        sysd = doc.get("system") or {}
        if "metadata" not in shown:
            if "metadata" in sysd:
                raise Violation("system metadata is shown although the options hide it", options=_opts(case))
        else:
            md = sysd.get("metadata")
            if not isinstance(md, dict):
                raise Violation("system.metadata is missing", options=_opts(case), system=_short(sysd))
            gotk = set(md) - set(["release"])
            if gotk != set(contrib):
                raise Violation("system.metadata has keys %r, the metadata rules supplied %r"
                                % (sorted(gotk), sorted(contrib)))
            for k, vs in contrib.items():
                if len(vs) == 1 and md[k] != vs[0]:
                    raise Violation("system.metadata[%r] is %r, the rule returned %r" % (k, _short(md[k]), _short(vs[0])))
        for i, m in enumerate(model):
            if m["cls"] == "metadata_key":
                if m["key"] not in doc:
                    raise Violation("metadata key %r of rule %d is not a top-level entry" % (m["key"], i), headings=sorted(doc))
                if doc[m["key"]] != m["value"]:
                    raise Violation("metadata key %r holds %r, the rule returned %r" % (m["key"], doc[m["key"]], m["value"]))
        for k in doc:
            if re.match(r"^mk\d+$", k) and not any(m["cls"] == "metadata_key" and m["key"] == k for m in model):
                raise Violation("unexpected top-level metadata key %r" % k)

        # --- labels
        classes = []
        for m in model:
            if m["cls"] == "typed":
                classes.append("stub" if m["stub"] else m["type"])
            elif m["cls"] in ("nothing", "exception"):
                classes.append("%s:%s" % (m["cls"], m["why"]))
            else:
                classes.append(m["cls"])
        labels = set("outcome=" + c for c in classes)
        labels.add("evaluator=" + case["evaluator"])
        labels.add("incremental" if case.get("incremental") else "serial")
        if any(m["cls"] == "typed" and m.get("padded") for m in model):
            labels.add("padded-to-limit")
        for i, m in enumerate(model):
            r = case["rules"][i]
            kinds = set(_up_kind(case, j) for j in _flat_deps(r["decl"]))
            labels.update("dep=" + k for k in kinds)
            if m["cls"] == "exception" and (m["why"] == "lazy-content" or (
                    m["why"] == "raise" and r["ret"].get("exc") in ("ContentException", "CalledProcessError"))):
                labels.add("content-error-in-rule:" + ("over-spec" if kinds - set(["component"]) else "no-spec-below"))
        if not inproc:
            labels.add("show=%s" % ("default" if not case.get("show_rules") else "subset"))
        # shared declaration constants and the configuration
        reported = [i for i, m in enumerate(model) if m["cls"] == "typed" and m["type"] in shown]
        for what in SHAREABLE:
            n = len(_pool(case, what))
            refs = [(r.get(what + "_ref") % n if n and r.get(what + "_ref") is not None else None) for r in case["rules"]]
            if any(x is not None and refs.count(x) > 1 for x in refs):
                labels.add("shared-%s-object" % what)
            if what == "metadata":
                continue
            named = [bool(_configured(case, i, matches, what)) for i in range(len(model))]
            if any(named[i] for i in reported):
                labels.add("configured-%s-reported" % what)
            # a rule the configuration says nothing about, declared with the same object as one it names
            if any(not named[i] and refs[i] is not None and _declared(case, case["rules"][i], what) and
                   any(named[k] and refs[k] == refs[i] for k in range(len(model))) for i in reported):
                labels.add("configured-%s-for-a-rule-sharing-its-constant-with-a-reported-rule" % what)
        if case.get("configs"):
            labels.add("config")
            for e, hit in zip(case["configs"], matches):
                labels.add("config-entry=%s:%s" % (e["target"][0], "several" if len(hit) > 1 else len(hit)))
            for i, r in enumerate(case["rules"]):
                en = _configured(case, i, matches, "enabled")
                if en and en[-1] != bool(r["enabled"]):
                    labels.add("config-%s-a-rule" % ("enables" if en[-1] else "disables"))
        if case.get("share_args"):
            labels.add("shared-dependency-lists")
        # how the declarations are spelled
        for i in reported:
            r = case["rules"][i]
            if _declared(case, r, "tags"):
                labels.add("reported-tags-spelled=%s%s" % (_tags_form(case, r), ":shared" if r.get("tags_ref") is not None
                                                            and _pool(case, "tags") else ""))
            k = _rtype(case, r)
            if k is not None:
                labels.add("reported-rule-subclass:%s" % ("class-tags" if case["rtypes"][k].get("tags") else "no-class-tags"))
                if case["rtypes"][k].get("tags") and _declared(case, r, "tags"):
                    labels.add("reported-class-tags+own-tags")
        for r in case["rules"]:
            if r.get("requires_kw") and any(d[0] != "opt" for d in r["decl"]):
                labels.add("deps-spelled=requires-kw")
            if r.get("opt_single") and sum(1 for d in r["decl"] if d[0] == "opt") == 1:
                labels.add("optional-spelled=bare")
        keys = [(m.get("key"), case["rules"][i]["mod"]) for i, m in enumerate(model) if m["cls"] == "typed"]
        share_key = len(set(k for k, _ in keys)) < len(keys)
        share_mod = len(set(r["mod"] for r in case["rules"])) < len(case["rules"])
        if share_key:
            labels.add("shared-key")
        if len(set((bases[mo], k) for k, mo in keys)) < len(keys):
            labels.add("shared-id")
        nt = len(model) >= 3 and (share_key or share_mod) and len(set(m["cls"] + str(m.get("type")) for m in model)) >= 2
        return {"nontrivial": nt, "labels": sorted(labels)}
    finally:
        settings.defaults["max_detail_length"] = old_limit
        plog.disabled = old_disabled
        _cleanup(comps, modnames, rtypes)


def _cfg_view(case, names, modfulls):
    out = []
    for e in case.get("configs") or []:
        d = {"name": _cfg_name(e, names, modfulls)}
        for what in SHAREABLE:
            has, v = _cfg_value(case, e, what)
            if has:
                d[what] = v
        if "enabled" in e:
            d["enabled"] = e["enabled"]
        out.append(d)
    return out


def _opts(case):
    return dict((k, case.get(k)) for k in ("evaluator", "missing", "show_rules", "fail_only", "incremental"))


def _view(ent):
    """a report entry as it goes into a violation record: evaluators hand out live objects (whatever the
    delegate holds as tags / links), a record must survive pickling and JSON"""
    try:
        return json.loads(json.dumps(ent, default=repr))
    except (TypeError, ValueError):
        return repr(ent)[:600]


def _short(v):
    s = repr(v)
    return s if len(s) < 400 else s[:200] + " ... " + s[-150:]


# ------------------------------------------------------------------------------------------------
# response constructor arguments

def check_response(case):
    from insights import settings
    from insights.core.exceptions import ValidationException
    from insights.core.plugins import Response
    kind = case["cls"]
    cls = _classes()[kind]
    limit = case.get("limit") or DEFAULT_LIMIT
    key = _unjson(case.get("key"))
    kwargs = dict(case.get("kwargs") or {})
    if "key" in kwargs or "self" in kwargs:
        raise HarnessError("bad case: excluded keyword name")
    old_limit = settings.defaults["max_detail_length"]
    plog = logging.getLogger("insights.core.plugins")
    old_disabled = plog.disabled
    labels = [kind]
    try:
        plog.disabled = True
        settings.defaults["max_detail_length"] = limit
        if kind == "none":
            resp = cls()
            if dict(resp) != {"type": "none", "none_key": "NONE_KEY"} or resp.get_key() != "NONE_KEY":
                raise Violation("make_none() is %r" % (dict(resp),))
            return {"nontrivial": False, "labels": labels}
        keyed = kind not in ("metadata",)
        reserved = ["type"] + ([KEYNAME[TYPED[kind]]] if kind in TYPED else [])
        if kind == "metadata_key":
            bad_kw = False
        else:
            bad_kw = any(k in kwargs for k in reserved)
        bad_key = keyed and not _key_valid(key)
        invalid = bad_kw or bad_key
        padded = False
        if not invalid and case.get("pad") is not None and kind != "metadata_key":
            kwargs, padded = _pad_payload(kind, key, kwargs, limit, case["pad"])
        try:
            if kind == "metadata":
                resp = cls(**kwargs)
            elif kind == "metadata_key":
                resp = cls(key, case.get("value"))
            else:
                resp = cls(key, **kwargs)
        except ValidationException as e:
            if not invalid:
                raise Violation("%s rejected valid arguments: %s" % (cls.__name__, e), key=repr(key), kwargs=_short(kwargs))
            labels.append("rejected:" + ("reserved-kwarg" if bad_kw else "key=%s" % type(key).__name__))
            return {"nontrivial": True, "labels": labels}
        if invalid:
            raise Violation("%s accepted %s" % (cls.__name__, "a reserved keyword argument" if bad_kw else
                                                 "the key %r" % (key,)), key=repr(key), kwargs=_short(kwargs), got=_short(dict(resp)))
        if not isinstance(resp, Response):
            raise Violation("constructor did not build a Response")
        payload = {"value": case.get("value")} if kind == "metadata_key" else kwargs
        want, stub = _expected_response(kind, key, payload, limit)
        if dict(resp) != want:
            n = len(str(_full_response(kind, key, payload)))
            raise Violation("%s with measured length %d and limit %d is %s, expected %s"
                            % (cls.__name__, n, limit, _short(dict(resp)), _short(want)), length=n, limit=limit)
        if keyed and resp.get_key() != key:
            raise Violation("get_key() is %r, constructed with %r" % (resp.get_key(), key))
        n = len(str(_full_response(kind, key, payload)))
        labels.append("stub" if stub else "kept")
        near = abs(n - limit) <= 2
        if near:
            labels.append("length-limit=%+d" % (n - limit))
        labels.append("limit=%s" % ("default" if limit == DEFAULT_LIMIT else "configured"))
        return {"nontrivial": near, "labels": labels}
    finally:
        settings.defaults["max_detail_length"] = old_limit
        plog.disabled = old_disabled


# ------------------------------------------------------------------------------------------------
# generators

_txt = st.text(alphabet=u"abKZ19 _-'\"\\:#\u00e9\u4e2d\n", max_size=8)
_scalar = st.one_of(st.integers(-5, 10 ** 6), _txt, st.booleans(), st.none())
_value = st.recursive(_scalar, lambda ch: st.one_of(st.lists(ch, max_size=3),
                                                    st.dictionaries(st.sampled_from(["a", "b", "n1"]), ch, max_size=2)),
                      max_leaves=5)
_pkeys = st.sampled_from(["a", "b", "detail", "x1", "kcs", "error_key", "pass_key", "info_key",
                          "fingerprint_key", "none_key", "value", "component", "tags", "links"])
_keys = st.sampled_from(["K1", "K1", "K2", "KEY_THREE", "k 4", u"\u00e9K", "NONE_KEY", "0"])
_limits = st.sampled_from([None, None, 1500, 2048, 4000])


def _payload_for(kind):
    """payload keys never use the class's own reserved names"""
    reserved = set(["type"])
    if kind in TYPED:
        reserved.add(KEYNAME[TYPED[kind]])
    return st.dictionaries(_pkeys.filter(lambda k: k not in reserved), _value, max_size=3)


_bad_keys = st.sampled_from([None, "", 0, 5, -1, True, False, 1.5, [], ["K"], {}, {"k": 1},
                             {"__bytes__": ""}, {"__bytes__": "K1"}])


@st.composite
def _invalid(draw):
    cls = draw(st.sampled_from(["fail", "response", "pass", "info", "fingerprint", "metadata", "metadata_key"]))
    if cls == "metadata":
        return {"cls": cls, "key": None, "kwargs": {"type": draw(_scalar)}}
    if cls == "metadata_key" or draw(st.booleans()):
        return {"cls": cls, "key": draw(_bad_keys), "kwargs": {}}
    name = draw(st.sampled_from(["type", KEYNAME[TYPED[cls]]]))
    kw = draw(_payload_for(cls))
    kw[name] = draw(_scalar)
    return {"cls": cls, "key": draw(_keys), "kwargs": kw}


_nonresponse = st.one_of(
    st.sampled_from([0, 1, "", "text", [], [1], {}, True, False, 1.5,
                     {"type": "rule", "error_key": "K1"}, {"type": "pass", "pass_key": "K1", "a": 1},
                     {"__bytes__": "K1"}]), _value.filter(lambda v: v is not None))


@st.composite
def _ret(draw):
    kind = draw(st.sampled_from(["fail", "fail", "response", "pass", "pass", "info", "fingerprint", "metadata",
                                 "metadata_key", "none", "nonresponse", "raise", "skip", "invalid", "padded"]))
    if kind == "padded":
        k = draw(st.sampled_from(["fail", "pass", "info", "fingerprint"]))
        return {"kind": k, "key": draw(_keys), "payload": draw(_payload_for(k)), "pad": draw(st.integers(-2, 2))}
    if kind in TYPED:
        return {"kind": kind, "key": draw(_keys), "payload": draw(_payload_for(kind))}
    if kind == "metadata":
        return {"kind": kind, "payload": draw(st.dictionaries(st.sampled_from(["a", "b", "c"]), _value, max_size=2))}
    if kind == "metadata_key":
        return {"kind": kind, "value": draw(_value)}
    if kind == "nonresponse":
        return {"kind": kind, "value": draw(_nonresponse)}
    if kind == "raise":
        return {"kind": kind, "exc": draw(st.sampled_from(["ValueError", "KeyError", "ContentException", "CalledProcessError"]))}
    if kind == "invalid":
        return {"kind": kind, "invalid": draw(_invalid())}
    return {"kind": kind}


@st.composite
def _decl(draw):
    shape = draw(st.sampled_from(["none", "met", "met", "free", "free", "missing-req", "unsat-group"]))
    # ups[0] is always ok, ups[1] always absent; 2 and 3 are generated
    if shape == "none":
        return []
    if shape == "met":
        return draw(st.sampled_from([[["req", 0]], [["req", 0], ["grp", [1, 0]]], [["grp", [0, 1]], ["opt", 1]],
                                     [["grp", [0]], ["opt", 0], ["opt", 1]], [["req", 0], ["req", 0]]]))
    if shape == "missing-req":
        return draw(st.sampled_from([[["req", 1]], [["req", 0], ["req", 1]], [["req", 1], ["grp", [0, 1]]],
                                     [["req", 1], ["req", 1], ["opt", 0]]]))
    if shape == "unsat-group":
        return draw(st.sampled_from([[["grp", [1]]], [["req", 0], ["grp", [1, 1]]], [["grp", [0, 1]], ["grp", [1]]],
                                     [["req", 1], ["grp", [1]], ["grp", [1]]]]))
    items = draw(st.lists(st.one_of(
        st.tuples(st.just("req"), st.integers(0, 3)).map(list),
        st.tuples(st.just("opt"), st.integers(0, 3)).map(list),
        st.tuples(st.just("grp"), st.lists(st.integers(0, 3), min_size=1, max_size=3)).map(list)), max_size=4))
    return items


_links = st.dictionaries(st.sampled_from(["kcs", "jira", "bz"]),
                         st.lists(st.sampled_from(["http://u/1", "http://u/2", "http://u/3"]), max_size=2), max_size=2)
_tags = st.lists(st.sampled_from(["t1", "t2", "sec", "perf"]), max_size=3)
# keys no function object has as an attribute (apply_configs copies metadata values onto such attributes)
_meta = st.dictionaries(st.sampled_from(["owner", "sev", "area"]), st.sampled_from(["x", "y", 1, 2]), max_size=2)


@st.composite
def _rule_set(draw, tier):
    nmod = draw(st.sampled_from([1, 2, 2, 3]))
    pkgs = draw(st.permutations(["a", "b", "c"]))[:nmod]
    modules = [{"pkg": p, "base": draw(st.sampled_from(["rules", "rules", "checks"]))} for p in pkgs]
    nrules = draw(st.integers(1, 10))
    rules = []
    # module level constants that several rule declarations (and several configuration entries) refer to
    sharing = draw(st.booleans())
    pools = {"links": draw(st.lists(_links, min_size=1, max_size=2)) if sharing else [],
             "tags": draw(st.lists(_tags, min_size=1, max_size=2)) if sharing and draw(st.booleans()) else [],
             "metadata": draw(st.lists(_meta, min_size=1, max_size=2)) if sharing and draw(st.booleans()) else []}

    def ref(what, weights):
        return draw(st.sampled_from(weights)) if pools[what] else None

    # the spelling of the declarations: tags collections other than lists, rule subclasses with class level tags,
    # requires= for the positional dependencies, a bare optional dependency
    spelled = draw(st.booleans())
    rtypes = draw(st.lists(st.fixed_dictionaries({"tags": _tags}), max_size=2)) if spelled else []
    if pools["tags"] and spelled:
        pools["tags_form"] = [draw(st.sampled_from([f for f in TAG_FORMS if f != "iter"])) for _ in pools["tags"]]
    for _ in range(nrules):
        links = draw(st.one_of(st.none(), st.just({}), _links))
        rules.append({"mod": draw(st.integers(0, nmod - 1)), "decl": draw(_decl()),
                      "reads": draw(st.sampled_from([True, True, True, False])),
                      "enabled": draw(st.sampled_from([True, True, True, True, False])),
                      "empty_optional": draw(st.booleans()),
                      "tags": draw(st.one_of(st.none(), _tags)),
                      "links": links, "ret": draw(_ret())})
        if sharing:
            rules[-1].update({"links_ref": ref("links", [None, 0, 0, 1]), "tags_ref": ref("tags", [None, 0, 0, 1]),
                              "metadata_ref": ref("metadata", [None, 0, 1]),
                              "metadata": draw(st.one_of(st.none(), _meta))})
        if spelled:
            rules[-1].update({"tags_form": draw(st.sampled_from(TAG_FORMS)),
                              "requires_kw": draw(st.sampled_from([False, False, True])),
                              "opt_single": draw(st.booleans())})
            if rtypes:
                rules[-1]["rtype"] = draw(st.sampled_from([None, 0, 1]))
    ev = draw(st.sampled_from(["single", "insights", "json", "json", "yaml", "json-adapter", "yaml-adapter"]))
    case = {"ups": ["ok", "skip", draw(st.sampled_from(["ok", "skip", "crash"])), draw(st.sampled_from(["ok", "skip", "crash"]))],
            "modules": modules, "rules": rules, "evaluator": ev, "incremental": draw(st.booleans()),
            "limit": draw(_limits)}
    # what the rules are built on: plain components, or the real thing - specs (registry point <- datasource),
    # parsers / conditions on specs, combiners on parsers; and whether the content behind it can be read
    case["upkinds"] = [draw(st.sampled_from(UPKINDS)) for _ in range(4)]
    case["upcontent"] = [draw(st.sampled_from(["ok", "ok", "ok", "ce", "cpe"])) for _ in range(4)]
    if ev not in ("single", "insights"):
        case["missing"] = draw(st.booleans())
        case["show_rules"] = draw(st.one_of(st.just([]), st.lists(st.sampled_from(SHOW_OPTS), min_size=1, max_size=5, unique=True)))
        if ev.endswith("-adapter"):
            case["fail_only"] = draw(st.booleans())
    case["shadows"] = draw(st.sampled_from([0, 0, 1, 2]))
    if rtypes:
        case["rtypes"] = rtypes
    if sharing:
        case["pools"] = pools
        case["share_args"] = draw(st.booleans())
    # the "configs" list of a configuration file: entries naming one rule, a module, or nothing
    configs = []
    for _ in range(draw(st.sampled_from([0, 0, 1, 2, 3]))):
        tk = draw(st.sampled_from(["rule", "rule", "rule", "module", "stem", "none"]))
        e = {"target": [tk, draw(st.integers(0, nrules - 1 if tk == "rule" else nmod - 1))] if tk != "none" else [tk]}
        if draw(st.sampled_from([True, True, False])):
            if pools["links"] and draw(st.sampled_from([True, False, False])):
                e["links_ref"] = draw(st.integers(0, 1))
            else:
                e["links"] = draw(_links)
        if draw(st.sampled_from([True, False, False])):
            if pools["tags"] and draw(st.sampled_from([True, False, False])):
                e["tags_ref"] = draw(st.integers(0, 1))
            else:
                e["tags"] = draw(_tags)
        if draw(st.sampled_from([True, False, False, False])):
            e["metadata"] = draw(_meta)
        if draw(st.sampled_from([True, False, False, False])):
            e["enabled"] = draw(st.booleans())
        configs.append(e)
    if configs:
        case["configs"] = configs
    if ev == "insights" and draw(st.booleans()):
        case["bad_machine_id"] = draw(st.sampled_from(["machine_id", "both"]))
    return case


def strat_rules(tier):
    return _rule_set(tier)


@st.composite
def _response_case(draw):
    cls = draw(st.sampled_from(["fail", "response", "pass", "info", "fingerprint", "metadata", "metadata_key", "none"]))
    case = {"cls": cls, "limit": draw(_limits)}
    if cls == "none":
        return case
    mode = draw(st.sampled_from(["valid", "valid", "padded", "padded", "bad-key", "reserved"]))
    case["key"] = draw(_keys)
    if cls == "metadata_key":
        case["value"] = draw(_value)
        if mode == "bad-key":
            case["key"] = draw(_bad_keys)
        elif mode == "padded":
            case["value"] = "y" * draw(st.integers(1400, 5000))
        return case
    names = _pkeys.filter(lambda k: k not in ("key", "self"))
    kw = draw(st.dictionaries(names, _value, max_size=3))
    reserved = ["type"] + ([KEYNAME[TYPED[cls]]] if cls in TYPED else [])
    if mode != "reserved":
        for k in reserved:
            kw.pop(k, None)
    else:
        kw[draw(st.sampled_from(reserved))] = draw(_scalar)
    if mode == "bad-key" and cls != "metadata":
        case["key"] = draw(_bad_keys)
    if mode == "padded":
        case["pad"] = draw(st.integers(-2, 2))
    if cls == "metadata":
        case["key"] = None
    case["kwargs"] = kw
    return case


def strat_responses(tier):
    return _response_case()


# fixed rule set with every outcome class for the exhaustive option sweep
_ALL_KINDS = [
    {"kind": "fail", "key": "K1", "payload": {"a": 1}}, {"kind": "response", "key": "K1", "payload": {}},
    {"kind": "pass", "key": "K1", "payload": {"b": [1, "x"]}}, {"kind": "info", "key": "K2", "payload": {}},
    {"kind": "fingerprint", "key": "K1", "payload": {"a": "f"}}, {"kind": "metadata", "payload": {"a": 1}},
    {"kind": "metadata_key", "value": [1, 2]}, {"kind": "none"}, {"kind": "nonresponse", "value": 0},
    {"kind": "raise", "exc": "ValueError"}, {"kind": "skip"},
    {"kind": "pass", "key": "K2", "payload": {}, "pad": 1},
    {"kind": "raise", "exc": "ContentException"},
]


def enum_filtering(tier):
    rules = []
    for i, ret in enumerate(_ALL_KINDS):
        rules.append({"mod": i % 2, "decl": [["req", 0]], "enabled": True, "tags": ["t1"], "links": None, "ret": ret})
    # the typed rules are declared with constants they share (links: one dict for five rules, tags: one list for
    # two), and the configuration names two of them: one gets other links and tags, one the links it declares
    for i in range(5):
        rules[i]["links_ref"] = 0
    rules[0]["tags_ref"] = rules[2]["tags_ref"] = 0
    pools = {"links": [{"kcs": ["http://u/1"]}], "tags": [["t1", "sec"]], "metadata": [], "tags_form": ["frozenset"]}
    # spellings: the shared tags constant is a frozenset, two rules write their own tags as a tuple / a set, one
    # is declared with a rule subclass that has class level tags, one with requires= and a bare optional
    rules[1]["tags_form"], rules[4]["tags_form"] = "tuple", "set"
    rules[3]["rtype"] = 0
    rules[1]["requires_kw"] = True
    configs = [{"target": ["rule", 0], "links": {"jira": ["http://u/2"]}, "tags": ["perf"], "metadata": {"owner": "x"}},
               {"target": ["rule", 3], "links_ref": 0},
               {"target": ["none"], "links": {"bz": ["http://u/3"]}, "tags": ["perf"], "enabled": False}]
    # a rule whose spec is there but cannot be read, and one that only looks at what can be read
    rules.append({"mod": 1, "decl": [["req", 0], ["opt", 3]], "enabled": True, "reads": True, "tags": None, "links": None,
                  "opt_single": True, "ret": {"kind": "fail", "key": "K2", "payload": {}}})
    rules.append({"mod": 0, "decl": [["grp", [1, 0]], ["opt", 2]], "enabled": True, "reads": True, "tags": None, "links": None,
                  "ret": {"kind": "info", "key": "K1", "payload": {}}})
    rules.append({"mod": 0, "decl": [["req", 1], ["grp", [1, 2]]], "enabled": True, "tags": None, "links": None,
                  "ret": {"kind": "fail", "key": "K1", "payload": {}}})
    rules.append({"mod": 1, "decl": [["req", 0]], "enabled": False, "tags": None, "links": None,
                  "ret": {"kind": "fail", "key": "K1", "payload": {}}})
    for ev in ("json", "yaml", "json-adapter"):
        for missing in (False, True):
            for n in range(len(SHOW_OPTS) + 1):
                for show in itertools.combinations(SHOW_OPTS, n):
                    for fo in ((False, True) if ev == "json-adapter" and n <= 1 else (None,)):
                        case = {"ups": ["ok", "skip", "crash", "ok"],
                                "upkinds": ["parser", "component", "combiner", "spec"],
                                "upcontent": ["ok", "ok", "ok", "cpe"],
                                "modules": [{"pkg": "a", "base": "rules"}, {"pkg": "b", "base": "rules"}],
                                "rules": rules, "evaluator": ev, "incremental": False, "limit": 2000,
                                "missing": missing, "show_rules": list(show), "pools": pools, "configs": configs,
                                "rtypes": [{"tags": ["perf", "t1"]}]}
                        if fo is not None:
                            case["fail_only"] = fo
                        yield case


SUBS = [
    Sub("rule_sets", check_rules, strategy=strat_rules, quick=700, thorough=6000, workers_quick=2,
        workers_thorough=16, budget_quick=50, budget_thorough=540),
    Sub("filtering", check_rules, enumerate=enum_filtering, workers_quick=2, workers_thorough=4,
        budget_quick=50, budget_thorough=300),
    Sub("responses", check_response, strategy=strat_responses, quick=2500, thorough=40000, workers_quick=2,
        workers_thorough=16, budget_quick=50, budget_thorough=540),
]

REGRESSIONS = [
    Reg("falsy-nonresponse-and-shared-id", "rule_sets",
        {"ups": ["ok", "skip", "crash", "ok"], "modules": [{"pkg": "a", "base": "rules"}, {"pkg": "b", "base": "rules"}],
         "rules": [{"mod": 0, "decl": [["req", 0]], "enabled": True, "tags": ["t1", "t1"], "links": {"kcs": ["http://u/1"]},
                    "ret": {"kind": "fail", "key": "K1", "payload": {"a": 1}}},
                   {"mod": 1, "decl": [["grp", [0, 1]]], "enabled": True, "tags": None, "links": None,
                    "ret": {"kind": "response", "key": "K1", "payload": {}}},
                   {"mod": 1, "decl": [], "enabled": True, "tags": [], "links": {},
                    "ret": {"kind": "nonresponse", "value": 0}},
                   {"mod": 0, "decl": [["req", 2], ["grp", [1, 2]]], "enabled": True, "tags": None, "links": None,
                    "ret": {"kind": "pass", "key": "K1", "payload": {}}}],
         "evaluator": "single", "incremental": True, "limit": None}),
    # C12-1: YamlFormatterAdapter passed (missing, render_content, show_rules) to YamlFormat(missing,
    # show_rules, stream): the option list became the output stream, nothing could be reported
    Reg("yaml-adapter-reports", "rule_sets",
        {"ups": ["ok", "skip", "ok", "ok"], "modules": [{"pkg": "a", "base": "rules"}],
         "rules": [{"mod": 0, "decl": [], "enabled": True, "tags": None, "links": None,
                    "ret": {"kind": "fail", "key": "K1", "payload": {}}},
                   {"mod": 0, "decl": [["req", 0]], "enabled": True, "tags": None, "links": None,
                    "ret": {"kind": "metadata", "payload": {"a": 1}}}],
         "evaluator": "yaml-adapter", "incremental": False, "limit": None, "missing": False,
         "show_rules": [], "fail_only": True}),
    # round 4: rules on real plugin types; the spec / component is there, its content fails when the rule reads it
    Reg("unreadable-content-under-rules", "rule_sets",
        {"ups": ["ok", "skip", "ok", "crash"], "upkinds": ["spec", "parser", "combiner", "condition"],
         "upcontent": ["ce", "ok", "ok", "cpe"], "modules": [{"pkg": "a", "base": "rules"}, {"pkg": "b", "base": "checks"}],
         "rules": [{"mod": 0, "decl": [["req", 0]], "enabled": True, "reads": True, "tags": ["t1"], "links": None,
                    "ret": {"kind": "fail", "key": "K1", "payload": {}}},
                   {"mod": 1, "decl": [["req", 2], ["opt", 0]], "enabled": True, "reads": False, "tags": None, "links": None,
                    "ret": {"kind": "raise", "exc": "CalledProcessError"}},
                   {"mod": 1, "decl": [["req", 2], ["grp", [1, 3]], ["opt", 0]], "enabled": True, "reads": True, "tags": None,
                    "links": None, "ret": {"kind": "pass", "key": "K1", "payload": {}}},
                   {"mod": 0, "decl": [["req", 2], ["opt", 3]], "enabled": True, "reads": True, "tags": None, "links": {},
                    "ret": {"kind": "info", "key": "K1", "payload": {"a": 1}}},
                   {"mod": 0, "decl": [["grp", [0, 2]]], "enabled": True, "reads": False, "tags": None, "links": None,
                    "ret": {"kind": "skip"}}],
         "evaluator": "json", "incremental": False, "limit": None, "missing": True, "show_rules": [], "shadows": 1}),
    # round 5: rules declared with shared constants (links / tags / metadata / dependency lists), a configuration
    # naming single rules, a module and nothing
    Reg("shared-constants-and-configuration", "rule_sets",
        {"ups": ["ok", "skip", "ok", "ok"], "upkinds": ["component", "component", "parser", "spec"],
         "upcontent": ["ok", "ok", "ok", "ok"], "modules": [{"pkg": "a", "base": "rules"}, {"pkg": "b", "base": "rules"}],
         "pools": {"links": [{"kcs": ["http://u/1"], "bz": []}, {"jira": ["http://u/2"]}], "tags": [["t1", "sec", "t1"]],
                   "metadata": [{"owner": "x"}]},
         "share_args": True,
         "configs": [{"target": ["module", 1], "tags": ["perf"], "metadata": {"sev": 1}},
                     {"target": ["rule", 0], "links": {"kcs": ["http://u/3"]}, "tags_ref": 0},
                     {"target": ["rule", 3], "links_ref": 1, "enabled": True},
                     {"target": ["rule", 5], "enabled": False, "links": {"bz": ["http://u/1"]}},
                     {"target": ["none"], "links": {"jira": []}, "tags": [], "enabled": False}],
         "rules": [{"mod": 0, "decl": [["grp", [0, 1]], ["opt", 2]], "enabled": True, "reads": True, "tags": None, "links": None,
                    "links_ref": 0, "tags_ref": 0, "metadata_ref": 0, "ret": {"kind": "fail", "key": "K1", "payload": {"a": 1}}},
                   {"mod": 0, "decl": [["grp", [0, 1]], ["opt", 2]], "enabled": True, "reads": True, "tags": None, "links": None,
                    "links_ref": 0, "tags_ref": 0, "metadata_ref": 0, "ret": {"kind": "info", "key": "K1", "payload": {}}},
                   {"mod": 1, "decl": [["req", 3]], "enabled": True, "reads": False, "tags": ["t2"], "links": {"kcs": []},
                    "links_ref": None, "tags_ref": None, "metadata_ref": None, "ret": {"kind": "pass", "key": "K2", "payload": {}}},
                   {"mod": 1, "decl": [["req", 0]], "enabled": False, "reads": True, "tags": None, "links": None,
                    "links_ref": 0, "tags_ref": None, "metadata_ref": 0, "ret": {"kind": "fingerprint", "key": "K1", "payload": {}}},
                   {"mod": 0, "decl": [["req", 1]], "enabled": True, "reads": True, "tags": None, "links": None,
                    "links_ref": 1, "tags_ref": 0, "metadata_ref": None, "ret": {"kind": "fail", "key": "K1", "payload": {}}},
                   {"mod": 0, "decl": [], "enabled": True, "reads": False, "tags": None, "links": None,
                    "links_ref": 0, "tags_ref": None, "metadata_ref": None, "ret": {"kind": "fail", "key": "K2", "payload": {}}},
                   {"mod": 0, "decl": [], "enabled": True, "reads": False, "tags": [], "links": None,
                    "links_ref": 1, "tags_ref": None, "metadata_ref": None, "ret": {"kind": "response", "key": "K2", "payload": {}}}],
         "evaluator": "json", "incremental": False, "limit": None, "missing": True, "show_rules": [], "shadows": 1}),
    # round 7: the same declarations in other spellings (tags as tuple / set / frozenset / dict view / iterator, own or
    # shared; a rule subclass with class level tags; requires=; a bare optional dependency)
    Reg("declaration-spellings", "rule_sets",
        {"ups": ["ok", "skip", "ok", "ok"], "upkinds": ["component", "component", "parser", "spec"],
         "upcontent": ["ok", "ok", "ok", "ok"], "modules": [{"pkg": "a", "base": "rules"}, {"pkg": "b", "base": "rules"}],
         "pools": {"links": [{"kcs": ["http://u/1"]}], "tags": [["t1", "sec", "t1"], ["perf"]], "metadata": [],
                   "tags_form": ["frozenset", "dictkeys"]},
         "rtypes": [{"tags": ["t2", "sec"]}, {"tags": []}],
         "configs": [{"target": ["rule", 5], "tags": ["perf"]}],
         "rules": [{"mod": 0, "decl": [["grp", [0, 1]], ["opt", 2]], "enabled": True, "reads": True, "tags": ["t1", "t2"],
                    "links": None, "tags_form": "tuple", "opt_single": True, "requires_kw": True,
                    "ret": {"kind": "fail", "key": "K1", "payload": {"a": 1}}},
                   {"mod": 0, "decl": [["req", 0]], "enabled": True, "reads": True, "tags": None, "links": None,
                    "links_ref": 0, "tags_ref": 0, "rtype": 0, "ret": {"kind": "info", "key": "K1", "payload": {}}},
                   {"mod": 1, "decl": [["req", 3]], "enabled": True, "reads": False, "tags": ["t2", "perf"], "links": {"kcs": []},
                    "tags_form": "set", "rtype": 1, "requires_kw": True, "ret": {"kind": "pass", "key": "K2", "payload": {}}},
                   {"mod": 1, "decl": [["opt", 0]], "enabled": True, "reads": True, "tags": None, "links": None,
                    "links_ref": 0, "tags_ref": 0, "opt_single": True, "ret": {"kind": "fingerprint", "key": "K1", "payload": {}}},
                   {"mod": 0, "decl": [], "enabled": True, "reads": False, "tags": ["sec"], "links": None, "tags_form": "iter",
                    "rtype": 0, "ret": {"kind": "fail", "key": "K2", "payload": {}}},
                   {"mod": 0, "decl": [["req", 2]], "enabled": True, "reads": False, "tags": [], "links": None, "tags_ref": 1,
                    "ret": {"kind": "response", "key": "K2", "payload": {}}},
                   {"mod": 1, "decl": [["req", 1]], "enabled": True, "reads": False, "tags": ["t1"], "links": None,
                    "tags_form": "dictkeys", "requires_kw": True, "ret": {"kind": "fail", "key": "K1", "payload": {}}},
                   {"mod": 1, "decl": [], "enabled": True, "reads": False, "tags": ["t1", "t1"], "links": None,
                    "tags_form": "frozenset", "ret": {"kind": "pass", "key": "K1", "payload": {}}}],
         "evaluator": "yaml", "incremental": False, "limit": None, "missing": True, "show_rules": [], "shadows": 1}),
    Reg("limit-exact", "responses", {"cls": "fail", "key": "K1", "kwargs": {"a": 1}, "pad": 0, "limit": None}),
    Reg("limit-plus-one", "responses", {"cls": "fail", "key": "K1", "kwargs": {"a": 1}, "pad": 1, "limit": None}),
    Reg("bytes-key", "responses", {"cls": "pass", "key": {"__bytes__": "K1"}, "kwargs": {}, "limit": None}),
    Reg("foreign-key-name-is-payload", "responses", {"cls": "pass", "key": "K1", "kwargs": {"error_key": "x"}, "limit": 1500}),
]
