"""C11 - what collection persists is what analysis loads.

One case = one small "collection": 1-5 generated datasources are registered under unique names in a
synthetic module, evaluated through dr.run with the Hydration persister attached as a broker
observer (exactly what insights.collect does), the written archive is then damaged by a generated
fault sequence and loaded again (Hydration.hydrate directly, or through
insights.core.hydration.initialize_broker which has to recognise the archive first).

Oracle (the statement, not more):
  * every persisted, un-damaged entry is present after loading, is a list iff it was a list, has
    the same number of elements in the same order, and per element: lines equal up to one trailing
    empty line (raw files: identical bytes), same cmd/args for the command kinds, same
    image/engine/container id for the container kinds, relative location = the location the
    serializer recorded = where the renaming rule says the file goes, and the file is there;
  * a component that failed has a metadata document with its errors and no results;
  * loading never raises, whatever was done to any subset of the metadata entries, and entries whose
    metadata is gone / unparseable / names an unknown component do not appear out of nowhere.
"""
import json
import logging
import os
import shlex
import shutil
import sys
import tempfile
import types

from hypothesis import strategies as st

from vp.core import Sub, Reg, Violation

PROPERTY = "C11"
RULE = ("1-5 generated datasources per archive, each returning one provider or an ordered list of 1-4 "
        "providers drawn from {TextFileProvider, RawFileProvider, DatasourceProvider(list), "
        "DatasourceProvider(str), CommandOutputProvider, ContainerCommandProvider, "
        "ContainerFileProvider} (commands answered by a recording HostContext), save_as absent / file "
        "form / directory form, args None / str / tuple, keep_rc on/off, datasources that raise, "
        "elements whose content is empty (refused at persist time); content lines = any Unicode text "
        "without LF / CR and without surrogates, whitespace-only and "
        "whitespace-edged lines, 0-3 empty lines at either edge, lines of up to 131073 characters, "
        "with/without final newline; ~1 line in 9 holds, alone / at an edge / inside / twice, a character that "
        "a text *file* keeps inside the line although some text API cuts or strips there (FF, VT, FS, GS, RS, "
        "NEL, LS, PS - what str.splitlines cuts at besides the newlines -, US, NUL, SUB / Ctrl-Z); "
        "the host-side source of the kinds whose provider cuts it into lines "
        "itself (text file, command / container output, a datasource's string) ends its lines with LF "
        "(~55 % of the elements), CRLF, a lone CR, a mixture of the three, or any other character "
        "str.splitlines cuts at (a file reader keeps those inside the line, the others cut there - the "
        "persisted lines are whatever the collecting provider presented); the loaded provider is read "
        "through .content, through .stream() before .content, or through .stream() after it; file and directory names, the "
        "arguments on a command line, the recorded args and the message of a raising datasource are often "
        "(file names 45 %, directories 27 %, command tails 33 %) *host names*: bytes that are not valid "
        "UTF-8 as the os layer delivers them (surrogate-escaped, e.g. b'caf\\xe9.conf'; 40 % of the host "
        "names), astral / combining / bidi / BOM / separator "
        "characters, ASCII with a meaning in JSON or a shell (quote, backslash, control characters, newline, "
        "%s, literal \\uXXXX), or any characters at all; evaluated by dr.run with "
        "Hydration.make_persister as observer; "
        "then per metadata entry one of {none, delete, truncate at offset, non-JSON bytes, unknown "
        "component name, valid JSON of wrong shape, referenced data file deleted, entry replaced by a "
        "directory / dangling symlink}; loaded by Hydration.hydrate or hydration.initialize_broker. "
        "Non-trivial: some persisted element has non-ASCII content, an empty line at an edge, a persisted line "
        "holding one of the in-line separator characters or a "
        "source with a line terminator other than LF, or a location / command / argument that is not "
        "plain printable text (non-UTF-8, astral, control character, quote or backslash), or "
        "(fault part) at least one damaged and one intact entry that carries results.")
ASSUMPTIONS = [
    "the executables /bin/echo, /bin/ls, /bin/cat, /usr/bin/env and cp exist (providers validate "
    "that a command exists before it is 'run'; cp is what RawFileProvider.write forks)",
    "commands are answered by a recording HostContext subclass (check_output overridden, the real "
    "shell_out splits the text); nothing is executed except cp",
    "collection and loading happen in one process: the generated datasources stay registered in dr "
    "between dehydrate and hydrate (in production the same module is imported by both sides)",
    "json, os, shlex, glob of the standard library; a POSIX file system below tempfile.gettempdir()",
]
EXCLUDED = [
    "LF or CR *inside* a line that a datasource hands over in a list (a text file cannot hold such a line: "
    "both are newline conventions of the file reader, on the collecting side as well); lone surrogates *in the "
    "content* - outside 'Unicode text'. The other characters str.splitlines cuts at (FF VT FS GS RS NEL LS PS) "
    "are generated inside the lines of collected files and datasource lists since round 7 (a file reader keeps "
    "them in the line), between the lines of a source that the provider cuts up itself since round 4; in file "
    "names, command lines, arguments and error messages surrogate-escaped bytes are generated (round 5)",
    "a quote or backslash in the path of a ContainerFileProvider (the path is put unquoted into a command "
    "line that shlex cuts up; the provider refuses it before anything is persisted); save_as values other "
    "than the fixed ones (they are constants of a spec definition, not host names)",
    "the return code rc (serializers store the return value of write(), always None; not among the "
    "attributes the statement lists) and cmd/args of ContainerFileProvider (models a file)",
    "a cleaner attached to the providers (C08/C10), filters on the generated datasources (C07), "
    "relative paths that climb out of the root (C06)",
    "two elements persisted to the same location, a corrupted entry renamed to another *known* "
    "component, metadata with intact results but damaged timing fields (not 'unknown/unreadable')",
]

SYNTH = "vp_c11_synth"
TMP_PREFIX = "c11-"
LINEBREAKS = u"\n\r\x0b\x0c\x1c\x1d\x1e\x85\u2028\u2029"

KINDS = ["text", "raw", "ds_list", "ds_str", "cmd", "ccmd", "cfile"]
CMD_KINDS = ("cmd", "ccmd")
CONTAINER_KINDS = ("ccmd", "cfile")
# kinds whose provider cuts a host-side text into lines itself (a file read in text mode, a command's
# output split by shell_out, a datasource returning one string); FILE_SPLIT: read through open()
SPLITTING_KINDS = ("text", "ds_str", "cmd", "ccmd", "cfile")
FILE_SPLIT_KINDS = ("text",)
NEWLINES = [u"\n", u"\r\n", u"\r"]                       # the three newline conventions (universal newlines)
OTHER_SEPS = [u"\x0b", u"\x0c", u"\x1c", u"\x1d", u"\x1e", u"\x85", u"\u2028", u"\u2029"]
# characters a text *file* keeps inside the line (a line of a file ends at a newline convention, nowhere else)
# although some text API cuts or strips there: what str.splitlines cuts at besides the newlines, US (white
# space for str.strip / str.split like FS GS RS), NUL, SUB (end-of-file mark of DOS text files)
INLINE_SPECIAL = OTHER_SEPS + [u"\x1f", u"\x00", u"\x1a"]
READS = ["content", "stream-first", "stream-after"]     # how the lines of a loaded provider are read
DIRS = ["etc", "var/log", "etc/sysconfig/network-scripts", "a b", u"ünï/日本", "x.d",
        "insights_datasources", "insights_commands", "proc/1", "data", "meta_data"]
NAMES = ["hosts", "messages", "conf.d.txt", "with space", u"日本語", "ifcfg-eth0", "a,b;c", "UPPER",
         ".hidden", "x" * 60]
SA_DIRS = ["renamed", "var/log/pcp/pmlogger", "a b/c", u"ü", "insights_commands", "s"]
SA_NAMES = ["saved", "pmlogsummary", "ls_la", u"日", "n.txt"]
EXES = ["/bin/echo", "/usr/bin/env", "/bin/ls", "/bin/cat", "echo", "ls"]
CMD_TAILS = ["", "-l /etc/x", "a  b/c", "'quoted arg' --opt=val", u"ünï -x", "/usr/bin/foo | grep bar",
             "{curly} $VAR", "-" * 40 + "y" * 250]
CIDS = ["c1d2e3f4a5b6", "abc123", "web-1", "0"]
IMAGES = [None, "registry.example.com/ns/img:latest", "rhel9", u"ünï/img"]
FAIL_TYPES = ["RuntimeError", "ValueError", "KeyError", "OSError", "TypeError"]
FAULTS = ["none", "delete", "truncate", "nonjson", "unknown", "shape", "datafile", "dir", "symlink"]
GONE = ("delete", "truncate", "nonjson", "unknown", "dir", "symlink")   # entry cannot possibly load
NONJSON = [[], [103, 97, 114, 98, 97, 103, 101], [123], [123, 39, 110, 97, 109, 101, 39, 58, 32, 49, 125],
           [255, 254, 0], [91, 49, 44, 32, 50], [0, 1, 2], [123, 34, 110, 97, 109, 101, 34, 58],
           [239, 187, 191, 123, 125], [10, 10], [125, 123]]
# Byte sequences that are not valid UTF-8. Linux file names are bytes; the os layer (listdir, glob, argv)
# hands such a name to Python surrogate-escaped (b"caf\xe9" -> "caf\udce9"), and from there it travels
# into relative locations, command lines, arguments and error messages.
BAD_UTF8 = [[0xe9], [0xff], [0x80], [0xb5], [0xc3], [0xe2, 0x82], [0xed, 0xa0, 0x80], [0xc0, 0xaf],
            [0xf5, 0x80, 0x80, 0x80], [0x93, 0xfa, 0x96, 0x7b], [0xfc, 0x62, 0x65, 0x72], [0xe9, 0xe8]]
NAME_STEMS = [u"caf", u"conf", u"x", u"ifcfg-", u"r\u00e9sum", u"\u65e5\u672c", u"a b", u"", u"90-", u"UP"]
NAME_EXTS = [u"", u".conf", u".log", u".d", u".rules", u"~"]
# valid Unicode that a metadata writer has to escape / encode with care: outside the BMP (a surrogate
# *pair* in an escaped document), combining, bidi and zero-width characters, BOM, line / paragraph
# separators (legal in a file name), full-width forms, case-folding oddities
UNI_NAMES = [u"\U0001f600.log", u"\U00010348\U0001f4a9", u"e\u0301a\u0308", u"\u202egnp.exe", u"\ufeffbom",
             u"ls\u2028ps\u2029", u"nel\x85", u"\uff46\uff55\uff4c\uff4c", u"nb\xa0sp", u"\u0130i\u0131I",
             u"zw\u200b\u200d", u"\ufffd\ufffe", u"\xff\xfe", u"\u0660\u0663", u"\u05e9\u05dc\u05d5\u05dd",
             u"\U0001f1e9\U0001f1ea de", u"x\U000e0041\U0010ffff", u"\U00020000\u4e2d"]
# ASCII a document format or a shell gives a meaning to (all legal in a file name)
ASCII_NAMES = [u'dq"name', u"it's", u"back\\slash", u"tab\there", u"nl\nname", u"cr\rname", u"\x01ctl", u"del\x7f",
               u"\x1b[31mred", u'{"k": 1}', u"%s", u"%(x)s %d", u"\\u00e9", u"\\udce9", u"$HOME", u"`id`", u"*",
               u"?", u"[ab]", u"~", u"-rf", u" lead", u"trail ", u"#c", u"a;b&c|d>e", u"null", u"a,b]", u"<x>&amp;"]
SHELL_SPECIAL = u"'\"\\"               # what shlex gives a meaning to besides blanks

UNKNOWN = ["no.such.module.comp", SYNTH + ".absent", "absent", "", SYNTH + "..", "insights.core.dr.nope",
           "%(name)sx", "X%(name)s", "%(upper)s"]


# ---- small reference helpers (self-tested) -------------------------------------------------------

def expand_line(l):
    if isinstance(l, list):
        return l[0] * l[1]
    return l


def render(lines, eol, seps=None):
    """the text the host holds: the lines, each followed by the next line terminator of the cycle
    `seps` (default LF); the terminator after the last line only when `eol`"""
    seps = seps or [u"\n"]
    out = []
    for i, l in enumerate(lines):
        out.append(expand_line(l))
        if i < len(lines) - 1 or eol:
            out.append(seps[i % len(seps)])
    if not lines and eol:
        out.append(seps[0])
    return u"".join(out)


def terminator_classes(text):
    """which line-terminator conventions other than plain LF occur in a host-side text"""
    labs = set()
    if u"\r\n" in text:
        labs.add("crlf")
    if u"\r" in text.replace(u"\r\n", u""):
        labs.add("lone-cr")
    if any(ch in text for ch in LINEBREAKS if ch not in u"\r\n"):
        labs.add("other-sep")
    return labs


def eq_upto_trailing_empty(a, b):
    a, b = list(a), list(b)
    return a == b or a + [u""] == b or a == b + [u""]


def json_norm(x):
    return json.loads(json.dumps(x))


def renamed_location(prefix, rel, save_as):
    """where the statement's 'save-as renaming' puts an element below data/"""
    if save_as:
        loc = save_as
        if save_as.endswith("/"):
            loc = save_as + os.path.basename(rel)
    else:
        loc = rel
    return prefix + "/" + loc if prefix else loc


def fsname(bs):
    """the str the os layer hands over for a file name made of the bytes `bs` (UTF-8 file system
    encoding: bytes that are not valid UTF-8 become the lone surrogates U+DC80..U+DCFF)"""
    return bytes(bytearray(bs)).decode("utf-8", "surrogateescape")


def shell_word(s):
    """`s` as one argument of a command line that shlex cuts up: as it is when shlex keeps it in one
    piece, quoted otherwise (an argument with a blank or a quote has to be quoted by whoever builds
    the command line)"""
    if s and not any(ch in s for ch in SHELL_SPECIAL + u" \t\r\n"):
        return s
    return shlex.quote(s)


def string_classes(s):
    """classes of a string that ends up in the metadata (location, command, argument, error text)"""
    labs = set()
    for ch in s:
        o = ord(ch)
        if 0xDC80 <= o <= 0xDCFF:
            labs.add("non-utf8")
        elif o > 0xFFFF:
            labs.add("astral")
        elif o < 0x20 or o == 0x7f:
            labs.add("control")
        elif ch in u'"\\':
            labs.add("quote-backslash")
        elif o > 0x7f:
            labs.add("non-ascii")
    return labs


def _sweep_stale_tmp():
    """A worker that is terminated in the middle of a case (core stops the pool at the first failure)
    cannot run its finally-clause; remove the directories of processes that no longer exist."""
    top = tempfile.gettempdir()
    for fn in os.listdir(top):
        if not fn.startswith(TMP_PREFIX):
            continue
        pid = fn[len(TMP_PREFIX):].split("-")[0]
        if not pid.isdigit():
            continue
        try:
            os.kill(int(pid), 0)
        except ProcessLookupError:
            shutil.rmtree(os.path.join(top, fn), ignore_errors=True)
        except OSError:
            pass


def selftest():
    _sweep_stale_tmp()
    assert eq_upto_trailing_empty(["a", ""], ["a"]) and eq_upto_trailing_empty(["a"], ["a", ""])
    assert eq_upto_trailing_empty([], [""]) and eq_upto_trailing_empty(["a", "", ""], ["a", ""])
    assert not eq_upto_trailing_empty(["a", "", ""], ["a"]) and not eq_upto_trailing_empty(["", "a"], ["a"])
    assert not eq_upto_trailing_empty(["a "], ["a"]) and not eq_upto_trailing_empty(["a", "b"], ["b", "a"])
    assert renamed_location("", "etc/hosts", None) == "etc/hosts"
    assert renamed_location("", "etc/hosts", "x/y") == "x/y"
    assert renamed_location("", "etc/hosts", "x/y/") == "x/y/hosts"
    assert renamed_location("insights_commands", "ls_-l", "d/") == "insights_commands/d/ls_-l"
    assert renamed_location("insights_commands", "ls_-l", None) == "insights_commands/ls_-l"
    assert render(["a", ["xy", 3], ""], True) == "a\nxyxyxy\n\n"
    assert render([], True) == "\n" and render([], False) == "" and render(["a"], False, ["\r"]) == "a"
    assert render(["a", "b", "c"], True, ["\r\n"]) == "a\r\nb\r\nc\r\n"
    assert render(["a", "b", "c", "d"], False, ["\r", "\x0c"]) == "a\rb\x0cc\rd"
    assert terminator_classes("a\nb\n") == set() and terminator_classes("a\r\nb") == {"crlf"}
    assert terminator_classes("a\rb\r\n\x85") == {"crlf", "lone-cr", "other-sep"}
    assert set(NEWLINES + OTHER_SEPS) == set(LINEBREAKS) | {u"\r\n"}
    # the excluded characters are exactly the ones str.splitlines splits on
    splitting = set(c for c in map(chr, range(0x3100)) if len((u"a" + c + u"b").splitlines()) > 1)
    assert splitting == set(LINEBREAKS), sorted(map(ord, splitting ^ set(LINEBREAKS)))
    for exe in EXES:
        from insights.util import which
        from insights.core.spec_factory import SAFE_ENV
        assert which(exe, env=SAFE_ENV), "executable %s needed by the generator is missing" % exe
    for t in CMD_TAILS:
        shlex.split(t)
    # names as the os layer hands them over: not valid UTF-8 -> surrogate-escaped, and back
    for bs in BAD_UTF8:
        n = fsname([99, 97, 102] + bs + [46, 99])
        assert any(0xDC80 <= ord(ch) <= 0xDCFF for ch in n), (bs, n)
        assert os.fsencode(n) == bytes(bytearray([99, 97, 102] + bs + [46, 99])), bs
        assert string_classes(n) == {"non-utf8"}, (bs, string_classes(n))
        try:
            n.encode("utf-8")
        except UnicodeEncodeError:
            pass
        else:
            raise AssertionError("%r is valid UTF-8" % (bs,))
    assert fsname([99, 97, 102, 0xc3, 0xa9]) == u"caf\xe9" and fsname([0xe9]) == u"\udce9"
    assert json.loads(json.dumps(fsname([0xe9, 0x2e]))) == u"\udce9."
    for n in UNI_NAMES + ASCII_NAMES + NAME_STEMS + NAME_EXTS:
        assert u"/" not in n and u"\x00" not in n and len(os.fsencode(n)) < 100, n
        assert shlex.split(u"x " + shell_word(n) + u" y") == [u"x", n, u"y"], n
    assert shell_word(u"caf\udce9.conf") == u"caf\udce9.conf" and shell_word(u"a b") == u"'a b'"
    assert shell_word(u"") == u"''" and shlex.split(shell_word(u"it's")) == [u"it's"]
    assert string_classes(u"abc d") == set() and string_classes(u"\U0001f600\x01\"\xe9") == {
        "astral", "control", "quote-backslash", "non-ascii"}
    if sys.flags.utf8_mode != 1 and "utf" not in (sys.getfilesystemencoding() or "").lower():
        raise AssertionError("file system encoding is not UTF-8; non-ASCII file names cannot be created")


# ---- recording context -----------------------------------------------------------------------------

_CTX_CLS = []


def _ctx_class():
    """HostContext subclass answering commands from a table instead of executing them (created
    lazily so that importing this module does not import insights)."""
    if _CTX_CLS:
        return _CTX_CLS[0]
    from insights.core.context import HostContext, ExecutionContextMeta

    class RecordingHostContext(HostContext):
        def __init__(self, root, outputs):
            HostContext.__init__(self, root=root, timeout=30)
            self.outputs = outputs
            self.calls = []

        def check_output(self, cmd, timeout=None, keep_rc=False, env=None, signum=None):
            key = json.dumps(cmd)
            self.calls.append(key)
            rc, text = self.outputs[key]
            if isinstance(text, Exception):
                raise text
            return (rc, text) if keep_rc else text

        def connect(self, *args, **kwargs):
            raise AssertionError("harness: connect() is not expected on the persist path")

        def stream(self, *args, **kwargs):
            raise AssertionError("harness: stream() is not expected on the persist path")

    # the metaclass put the class into the archive-detection registry; it has no marker and is
    # not an archive context, take it out again so that detection sees the stock registry
    reg = getattr(ExecutionContextMeta, "registry", None)
    if reg is not None and RecordingHostContext in reg:
        reg.remove(RecordingHostContext)
    _CTX_CLS.append(RecordingHostContext)
    return RecordingHostContext


# ---- dr registry hygiene ---------------------------------------------------------------------------

def _unregister(comps, names, cache_keys):
    from insights.core import dr, filters
    for c in comps:
        for regname in ("DELEGATES", "DEPENDENCIES", "DEPENDENTS", "MODULE_NAMES", "BASE_MODULE_NAMES",
                        "ENABLED", "IGNORE"):
            reg = getattr(dr, regname, None)
            if reg is None:
                raise RuntimeError("harness: insights.core.dr.%s is gone" % regname)
            reg.pop(c, None)
        dr.HIDDEN.discard(c)
        for group in list(dr.COMPONENTS):
            dr.COMPONENTS[group].pop(c, None)
        for t in list(dr.COMPONENTS_BY_TYPE):
            dr.COMPONENTS_BY_TYPE[t].discard(c)
        filters._CACHE.pop(c, None)
        filters.FILTERS.pop(c, None)
    for cache, before in zip((dr.COMPONENTS_BY_NAME, dr.COMPONENT_IMPORT_CACHE), cache_keys):
        for k in list(cache):
            if k not in before or k in names or cache[k] in comps:
                del cache[k]


def _cache_keys():
    from insights.core import dr
    return [set(dr.COMPONENTS_BY_NAME), set(dr.COMPONENT_IMPORT_CACHE)]


# ---- building one collection -----------------------------------------------------------------------

def _item_plan(ci, ii, it, root):
    """Everything the harness decides about one element: source path / command string, the text the
    host 'holds', the constructor arguments."""
    kind = it["kind"]
    uniq = "%d%d" % (ci, ii)
    plan = {"kind": kind, "uniq": uniq}
    sa = it.get("save_as")
    if sa and kind not in CONTAINER_KINDS:
        if sa["form"] == "dir":
            plan["save_as"] = sa["dir"] + "/"
        else:
            plan["save_as"] = sa["dir"] + "/" + sa["name"] + "." + uniq
    else:
        plan["save_as"] = None
    if kind == "raw":
        plan["bytes"] = bytes(bytearray(it.get("raw", []))) * it.get("rep", 1)
    else:
        # the line terminators of the host-side source matter only where the *provider* cuts the source
        # into lines; a datasource handing over a list of lines has no terminators
        seps = it.get("seps") if kind in SPLITTING_KINDS else None
        plan["text"] = render(it.get("lines", []), it.get("eol", False), seps)
        plan["terms"] = sorted(terminator_classes(plan["text"])) if kind in SPLITTING_KINDS else []
    if kind in ("text", "raw", "ds_list", "ds_str"):
        rel = it["dir"] + "/" + it["name"] + "." + uniq
        plan["rel"] = rel
        plan["given_path"] = ("/" + rel) if it.get("lead_slash") else rel
    elif kind == "cmd":
        plan["cmd"] = ("%s tok%s %s" % (it["exe"], uniq, it["tail"])).rstrip()
    elif kind == "ccmd":
        plan["cmd"] = ("%s exec %s %s tok%s %s" % (it["exe"], it["cid"], it["inner"], uniq, it["tail"])).rstrip()
    elif kind == "cfile":
        plan["cmd"] = "%s exec %s cat /%s/%s.%s" % (it["exe"], it["cid"], it["dir"], it["name"], uniq)
    args = it.get("args")
    if isinstance(args, list) and it.get("args_tuple", True):
        args = tuple(args)
    plan["args"] = args if kind in CMD_KINDS else None
    plan["keep_rc"] = bool(it.get("keep_rc"))
    plan["rc"] = it.get("rc", 0)
    plan["image"] = it.get("image")
    return plan


def _prepare_host(plans, root, outputs):
    for p in plans:
        if p["kind"] in ("text", "raw"):
            full = os.path.join(root, p["rel"])
            d = os.path.dirname(full)
            if not os.path.isdir(d):
                os.makedirs(d)
            with open(full, "wb") as f:
                f.write(p["bytes"] if p["kind"] == "raw" else p["text"].encode("utf-8"))
        elif "cmd" in p:
            outputs[json.dumps([shlex.split(p["cmd"])])] = (p["rc"], p["text"])


def _make_provider(p, ctx, comp):
    from insights.core import spec_factory as sf
    kind = p["kind"]
    if kind == "text":
        return sf.TextFileProvider(p["given_path"], root=ctx.root, save_as=p["save_as"], ds=comp, ctx=ctx)
    if kind == "raw":
        return sf.RawFileProvider(p["given_path"], root=ctx.root, save_as=p["save_as"], ds=comp, ctx=ctx)
    if kind == "ds_list":
        # a datasource that hands over a list of lines: what a text file with this text holds
        lines = p["text"].split(u"\n")
        if lines and lines[-1] == u"" and p["text"].endswith(u"\n"):
            lines.pop()
        if p["text"] == u"":
            lines = []
        return sf.DatasourceProvider(lines, p["given_path"], save_as=p["save_as"], ds=comp, ctx=ctx)
    if kind == "ds_str":
        return sf.DatasourceProvider(p["text"], p["given_path"], save_as=p["save_as"], ds=comp, ctx=ctx)
    if kind == "cmd":
        return sf.CommandOutputProvider(p["cmd"], ctx, save_as=p["save_as"], args=p["args"],
                                        keep_rc=p["keep_rc"], ds=comp)
    if kind == "ccmd":
        return sf.ContainerCommandProvider(p["cmd"], ctx, image=p["image"], args=p["args"],
                                           keep_rc=p["keep_rc"], ds=comp)
    if kind == "cfile":
        return sf.ContainerFileProvider(p["cmd"], ctx, image=p["image"], args=None,
                                        keep_rc=p["keep_rc"], ds=comp)
    raise AssertionError("harness: unknown kind %r" % kind)


_EXC = {"RuntimeError": RuntimeError, "ValueError": ValueError, "KeyError": KeyError, "OSError": OSError,
        "TypeError": TypeError}


def _define(mod, holder, name, nested, multi, raw, fail, fail_msg, plans, ctx_cls):
    from insights.core.plugins import datasource
    made = {}

    def body(broker):
        ctx = broker[ctx_cls]
        if fail:
            raise _EXC[fail](fail_msg)
        made["providers"] = [_make_provider(p, ctx, body) for p in plans]
        made["calls"] = made.get("calls", 0) + 1
        return list(made["providers"]) if multi else made["providers"][0]

    body.__name__ = name
    body.__module__ = SYNTH
    if nested:
        body.__qualname__ = "SynthSpecs." + name
        setattr(holder, name, staticmethod(body))
    else:
        body.__qualname__ = name
        setattr(mod, name, body)
    kw = {}
    if multi:
        kw["multi_output"] = True
    if raw:
        kw["raw"] = True
    datasource(**kw)(body)
    return body, made


def _is_empty_at_persist(p):
    """the collector refuses to store a spec result without any line (raw files are copied as is)"""
    return p["kind"] != "raw" and p["text"] == u""


# ---- faults ----------------------------------------------------------------------------------------

def _shape_docs(name, doc):
    tfp = "insights.core.spec_factory.TextFileProvider"
    first = None
    res = doc.get("results")
    if isinstance(res, list) and res:
        first = res[0]
    elif isinstance(res, dict):
        first = res
    base = {"name": name, "exec_time": 0.1, "ser_time": 0.1, "errors": []}
    return [
        [], "str", 42, None, {}, True, [doc], {"name": name},
        dict(base, results=5), dict(base, results="abc"), dict(base, results=True),
        dict(base, results={"type": "no.such.Type", "object": {}}),
        dict(base, results={"type": tfp, "object": {}}),
        dict(base, results={"type": tfp, "object": {"relative_path": 7, "rc": None, "save_as": False}}),
        dict(base, results=[first, {"type": "bogus"}]),
        dict(base, results=[first, None]),
        dict(base, results={"object": (first or {}).get("object")}),
        dict(base, results={"type": (first or {}).get("type")}),
        {"name": 5, "exec_time": 0.1, "ser_time": 0.1, "results": res},
        {"name": [name], "exec_time": 0.1, "ser_time": 0.1, "results": res},
        {"exec_time": 0.1, "ser_time": 0.1, "results": res, "errors": []},
        {"name": name, "results": {"type": tfp}},
    ]


def _apply_fault(fault, path, name, doc, data_root, locs):
    """Damage one metadata entry; returns the label of what was really done."""
    kind, n = fault.get("kind", "none"), fault.get("n", 0)
    if kind == "none":
        return "none"
    if kind == "delete":
        os.remove(path)
    elif kind == "truncate":
        with open(path, "rb") as f:
            raw = f.read()
        with open(path, "wb") as f:
            f.write(raw[:n % len(raw)])
    elif kind == "nonjson":
        with open(path, "wb") as f:
            f.write(bytes(bytearray(NONJSON[n % len(NONJSON)])))
    elif kind == "unknown":
        new = dict(doc)
        new["name"] = UNKNOWN[n % len(UNKNOWN)] % {"name": name, "upper": name.upper()}
        with open(path, "w") as f:
            json.dump(new, f)
    elif kind == "shape":
        shapes = _shape_docs(name, doc)
        with open(path, "w") as f:
            json.dump(shapes[n % len(shapes)], f)
    elif kind == "datafile":
        if not locs:
            return "none"
        target = os.path.join(data_root, locs[n % len(locs)])
        if not os.path.isfile(target):
            return "none"
        os.remove(target)
    elif kind == "dir":
        os.remove(path)
        os.mkdir(path)
    elif kind == "symlink":
        os.remove(path)
        os.symlink(os.path.join(os.path.dirname(path), "no-such-target"), path)
    else:
        raise AssertionError("harness: unknown fault %r" % kind)
    return kind


# ---- the check -------------------------------------------------------------------------------------

def _content_labels(lines):
    labs = set()
    if not lines:
        return labs
    if lines[0] == u"":
        labs.add("content:leading-empty")
    if lines[-1] == u"":
        labs.add("content:trailing-empty")
    if any(l == u"" for l in lines[1:-1]):
        labs.add("content:inner-empty")
    if any(any(ord(ch) > 127 for ch in l[:200]) or any(ord(ch) > 127 for ch in l[-50:]) for l in lines):
        labs.add("content:non-ascii")
    if any(len(l) >= 65536 for l in lines):
        labs.add("content:long-line")
    if any(l != l.strip() for l in lines if l):
        labs.add("content:ws-edge")
    if any(ch in l[:200] or ch in l[-50:] for l in lines for ch in OTHER_SEPS):
        labs.add("content:inline-sep")
    return labs


def check(case):
    from insights.core import dr
    from insights.core.context import SerializedArchiveContext
    from insights.core.serde import Hydration
    from insights.core import hydration

    ctx_cls = _ctx_class()
    comps_desc = case["comps"]
    faults = list(case.get("faults") or [])
    faults += [{"kind": "none"}] * (len(comps_desc) - len(faults))
    tag = case.get("tag", "")
    via = case.get("via", "hydrate")
    read = case.get("read", "content")
    if read not in READS:
        raise AssertionError("harness: unknown read mode %r" % (read,))

    tmp = tempfile.mkdtemp(prefix="%s%d-" % (TMP_PREFIX, os.getpid()))
    root = os.path.join(tmp, "host")
    out = os.path.join(tmp, "out", "insights-archive")
    os.makedirs(root)
    os.makedirs(out)
    mod = types.ModuleType(SYNTH)
    holder = type("SynthSpecs", (object,), {"__module__": SYNTH})
    mod.SynthSpecs = holder
    prev_mod = sys.modules.get(SYNTH)
    sys.modules[SYNTH] = mod
    prev_disable = logging.root.manager.disable
    logging.disable(logging.CRITICAL)
    comps, names = [], set()
    labels = set()
    cache_keys = _cache_keys()
    try:
        # a by-name look-up that happened before this collection's components were defined (an archive
        # loaded earlier in the same process): whatever it cached must not hide components defined later
        dr.get_component_by_name("vp_c11.never.registered")
        # -- the host and the datasources -----------------------------------------------------------
        outputs = {}
        ctx = ctx_cls(root, outputs)
        plans_by_comp, made_by_comp = [], []
        for ci, cd in enumerate(comps_desc):
            plans = [_item_plan(ci, ii, it, root) for ii, it in enumerate(cd["items"])]
            if not cd.get("multi"):
                plans = plans[:1]
            _prepare_host(plans, root, outputs)
            name = "ds%d_%s" % (ci, tag)
            comp, made = _define(mod, holder, name, bool(cd.get("nested")), bool(cd.get("multi")),
                                 all(p["kind"] == "raw" for p in plans), cd.get("fail"),
                                 cd.get("fail_msg", "boom"), plans, ctx_cls)
            comps.append(comp)
            names.add(dr.get_name(comp))
            plans_by_comp.append(plans)
            made_by_comp.append(made)
        if len(names) != len(comps):
            raise AssertionError("harness: component names are not unique")

        # -- collection: evaluate with the persister observing, as insights.collect does ------------
        with open(os.path.join(out, "insights_archive.txt"), "w"):
            pass
        broker = dr.Broker()
        broker[ctx.__class__] = ctx
        pool = None
        if case.get("pool"):
            # collection with `run_strategy: parallel` persists the elements of a multi-output spec on a pool
            from concurrent.futures import ThreadPoolExecutor
            pool = ThreadPoolExecutor(int(case["pool"]))
            labels.add("persist-on-pool")
        try:
            h = Hydration(out, ctx, pool=pool)
            broker.add_observer(h.make_persister(set(comps)))
            dr.run(list(comps), broker=broker)
        finally:
            if pool is not None:
                pool.shutdown(wait=True)

        meta_root = os.path.join(out, "meta_data")
        data_root = os.path.join(out, "data")
        docs = {}
        if os.path.isdir(meta_root):
            for fn in sorted(os.listdir(meta_root)):
                p = os.path.join(meta_root, fn)
                # read leniently: how the entry is encoded is the business of the code under test as long as
                # its own reader gets back what was persisted (escaped ASCII on the unchanged tree)
                with open(p, encoding="utf-8", errors="surrogateescape") as f:
                    try:
                        d = json.load(f)
                    except ValueError:
                        raise Violation("metadata entry written by dehydrate is not JSON", file=fn)
                if not isinstance(d, dict) or "name" not in d:
                    raise Violation("metadata entry written by dehydrate has no component name", file=fn, doc=d)
                if d["name"] in docs:
                    raise Violation("two metadata entries for one component", name=d["name"])
                docs[d["name"]] = (p, d)

        # -- what must have been persisted ----------------------------------------------------------
        expected = []   # per comp: None (failed / nothing to persist) or list of element expectations
        for ci, cd in enumerate(comps_desc):
            comp, name = comps[ci], dr.get_name(comps[ci])
            plans, made = plans_by_comp[ci], made_by_comp[ci]
            multi = bool(cd.get("multi"))
            labels.add("comp:multi" if multi else "comp:single")
            if cd.get("nested"):
                labels.add("comp:nested-name")
            if name not in docs:
                raise Violation("component %s was evaluated during collection but no metadata entry was "
                                "persisted for it" % name, failed=bool(cd.get("fail")),
                                exceptions=[repr(e) for e in broker.exceptions.get(comp, [])])
            doc = docs[name][1]
            if cd.get("fail"):
                labels.add("comp:failed")
                for c in string_classes(cd.get("fail_msg", "boom")):
                    labels.add("meta:%s@error" % c)
                errs = doc.get("errors")
                if doc.get("results") is not None:
                    raise Violation("failed component %s persisted with results" % name, doc=doc)
                if not isinstance(errs, list) or len(errs) != 1 or not isinstance(errs[0], str) \
                        or cd["fail"] not in errs[0] or "Traceback" not in errs[0]:
                    raise Violation("failed component %s is not persisted with its error (traceback of the "
                                    "%s it raised)" % (name, cd["fail"]), errors=errs)
                if cd.get("fail_msg", "boom") not in errs[0] and cd["fail"] != "KeyError":
                    raise Violation("persisted traceback of %s lost the exception message" % name, errors=errs)
                expected.append(None)
                continue
            if "providers" not in made:
                raise AssertionError("harness: datasource body did not run: %r" % (
                    [repr(e) for e in broker.exceptions.get(comp, [])],))
            elems = []
            n_refused = 0
            for p, prov in zip(plans, made["providers"]):
                labels.add("kind:" + p["kind"])
                if _is_empty_at_persist(p):
                    n_refused += 1
                    labels.add("elem:empty-refused")
                    continue
                if p["save_as"]:
                    labels.add("save_as:dir-form" if p["save_as"].endswith("/") else "save_as:file-form")
                prefix = {"cmd": "insights_commands", "ccmd": "insights_containers",
                          "cfile": "insights_containers"}.get(p["kind"], "")
                if prefix and prov.root != prefix:
                    raise AssertionError("harness: unexpected provider root %r" % (prov.root,))
                e = {"plan": p, "orig": prov,
                     "loc": renamed_location(prefix, prov.relative_path, p["save_as"])}
                if p["kind"] == "raw":
                    e["bytes"] = p["bytes"]   # what the collected file holds (cp copies the file)
                    if not p["bytes"]:
                        labels.add("elem:empty-raw")
                else:
                    e["lines"] = list(prov.content)
                    labels.update(_content_labels(e["lines"]))
                    if "content:inline-sep" in _content_labels(e["lines"]):
                        labels.add("content:inline-sep@" + p["kind"])
                    group = {"text": "file", "ds_str": "ds_str"}.get(p["kind"], "command")
                    if p["kind"] in SPLITTING_KINDS and not p.get("terms"):
                        labels.add("src:lf-only@" + group)
                    for t in p.get("terms", []):
                        labels.add("src:" + t)
                        labels.add("src:%s@%s" % (t, group))
                elems.append(e)
            errs = doc.get("errors")
            if not isinstance(errs, list) or len(errs) != n_refused:
                raise Violation("component %s: %d element(s) could not be persisted but the entry records "
                                "%r error(s)" % (name, n_refused, len(errs) if isinstance(errs, list) else errs),
                                errors=errs)
            res = doc.get("results")
            if not elems:
                if res is not None:
                    raise Violation("component %s has nothing to persist but its entry has results" % name, doc=doc)
                expected.append(None)
                continue
            if multi:
                if not isinstance(res, list) or len(res) != len(elems):
                    raise Violation("multi-output component %s persisted %s result(s), %d expected" % (
                        name, len(res) if isinstance(res, list) else type(res).__name__, len(elems)), doc=doc)
                recorded = res
            else:
                if not isinstance(res, dict):
                    raise Violation("single-output component %s not persisted as one result" % name, doc=doc)
                recorded = [res]
            for k, (e, r) in enumerate(zip(elems, recorded)):
                obj = r.get("object") if isinstance(r, dict) else None
                rloc = obj.get("relative_path") if isinstance(obj, dict) else None
                if rloc is None:
                    continue    # location not recorded in this form; it is checked on the loaded provider
                if rloc != e["loc"]:
                    raise Violation("component %s element %d (%s): persisted at %r, the renaming rule gives %r"
                                    % (name, k, e["plan"]["kind"], rloc, e["loc"]),
                                    save_as=repr(e["plan"]["save_as"]), relative_path=repr(e["orig"].relative_path))
                if not os.path.isfile(os.path.join(data_root, rloc)):
                    raise Violation("component %s element %d: no data file at the recorded location %r"
                                    % (name, k, rloc))
            expected.append(elems)

        # -- fault sequence -------------------------------------------------------------------------
        done = []
        for ci in range(len(comps)):
            name = dr.get_name(comps[ci])
            path, doc = docs[name]
            locs = [e["loc"] for e in (expected[ci] or [])]
            done.append(_apply_fault(faults[ci], path, name, doc, data_root, locs))
            labels.add("fault:" + done[-1])

        # -- analysis side --------------------------------------------------------------------------
        labels.add("via:" + via)
        if via == "initialize_broker":
            actx, loaded = hydration.initialize_broker(out)
            if not isinstance(actx, SerializedArchiveContext) or os.path.realpath(actx.root) != os.path.realpath(out):
                raise Violation("archive written by collection not recognised as a serialized archive",
                                context=repr(actx))
        else:
            loaded = Hydration(out, SerializedArchiveContext(out)).hydrate()
        if not isinstance(loaded, dr.Broker):
            raise Violation("hydrate did not return a broker", got=repr(loaded))

        n_intact = n_damaged = 0
        nt_content = nt_meta = False
        for ci in range(len(comps)):
            comp, name = comps[ci], dr.get_name(comps[ci])
            elems = expected[ci]
            if done[ci] != "none":
                n_damaged += 1
                if done[ci] in GONE and comp in loaded:
                    raise Violation("entry of %s was damaged (%s) yet the component is present after loading"
                                    % (name, done[ci]))
                continue
            if elems is None:
                if comp in loaded:
                    raise Violation("component %s had no persisted result yet is present after loading" % name)
                continue
            n_intact += 1
            if comp not in loaded:
                raise Violation("intact entry of %s was not loaded (faults applied to the other entries: %r)"
                                % (name, done), faults=done)
            val = loaded[comp]
            multi = bool(comps_desc[ci].get("multi"))
            if multi != isinstance(val, list):
                raise Violation("component %s: list-ness of the loaded value differs from the persisted one" % name)
            got = val if multi else [val]
            if len(got) != len(elems):
                raise Violation("component %s: %d element(s) persisted, %d loaded" % (name, len(elems), len(got)))
            for k, (e, g) in enumerate(zip(elems, got)):
                p, orig = e["plan"], e["orig"]
                where = "component %s element %d (%s)" % (name, k, p["kind"])
                if g.relative_path != e["loc"]:
                    raise Violation("%s: relative location %r after loading, %r when persisted"
                                    % (where, g.relative_path, e["loc"]))
                streamed = None
                if p["kind"] != "raw" and read == "stream-first":
                    streamed = list(g.stream())     # the provider's other reader, on a provider not yet loaded
                content = g.content
                if p["kind"] != "raw" and read == "stream-after":
                    streamed = list(g.stream())
                if p["kind"] == "raw":
                    if content != e["bytes"]:
                        raise Violation("%s: raw bytes differ after loading" % where,
                                        persisted=repr(e["bytes"][:200]), loaded=repr(content[:200]))
                else:
                    if not isinstance(content, list) or not eq_upto_trailing_empty(content, e["lines"]):
                        raise Violation("%s: loaded lines differ from the persisted lines" % where,
                                        persisted=_clip_lines(e["lines"]), loaded=_clip_lines(content))
                    if streamed is not None:
                        labels.add("read:" + read)
                        if not eq_upto_trailing_empty(streamed, e["lines"]):
                            raise Violation("%s: the lines the loaded provider streams (%s) differ from the "
                                            "persisted lines" % (where, read),
                                            persisted=_clip_lines(e["lines"]), streamed=_clip_lines(streamed))
                    labs = _content_labels(e["lines"])
                    if labs & set(["content:non-ascii", "content:leading-empty", "content:trailing-empty",
                                   "content:inline-sep"]) or p.get("terms"):
                        nt_content = True
                # the strings of this element that went through the metadata document
                meta = [("path", e["loc"])]
                if p["kind"] in CMD_KINDS:
                    meta.append(("cmd", orig.cmd))
                    a = orig.args
                    meta.extend(("args", x) for x in (a if isinstance(a, (list, tuple)) else [a]) if isinstance(x, str))
                for place, text in meta:
                    cls = string_classes(text)
                    for c in cls:
                        labels.add("meta:%s@%s" % (c, place))
                        labels.add("meta:" + c)
                    if cls - set(["non-ascii"]):
                        nt_meta = True
                    if not cls:
                        labels.add("meta:plain@" + place)
                if p["kind"] in CMD_KINDS:
                    if g.cmd != orig.cmd:
                        raise Violation("%s: cmd %r after loading, %r when persisted" % (where, g.cmd, orig.cmd))
                    if json_norm(g.args) != json_norm(orig.args):
                        raise Violation("%s: args %r after loading, %r when persisted" % (where, g.args, orig.args))
                    labels.add("args:" + ("none" if orig.args is None else type(orig.args).__name__))
                if p["kind"] in CONTAINER_KINDS:
                    for attr in ("image", "engine", "container_id"):
                        if getattr(g, attr, "<absent>") != getattr(orig, attr):
                            raise Violation("%s: %s %r after loading, %r when persisted" % (
                                where, attr, getattr(g, attr, "<absent>"), getattr(orig, attr)))
        nt_fault = n_damaged >= 1 and n_intact >= 1
        if nt_fault:
            labels.add("nt:damaged+intact")
        if nt_content:
            labels.add("nt:content")
        if nt_meta:
            labels.add("nt:meta-string")
        if n_intact == 0:
            labels.add("no-intact-entry")
        return {"nontrivial": bool(nt_fault or nt_content or nt_meta), "labels": sorted(labels)}
    finally:
        logging.disable(prev_disable)
        try:
            _unregister(comps, names, cache_keys)
        finally:
            if prev_mod is None:
                sys.modules.pop(SYNTH, None)
            else:
                sys.modules[SYNTH] = prev_mod
            shutil.rmtree(tmp, ignore_errors=True)


def _clip_lines(lines):
    if not isinstance(lines, list):
        return repr(lines)[:300]
    return [l if len(l) <= 80 else l[:40] + u"...(%d chars)..." % len(l) + l[-20:] for l in lines[:12]] + \
        ([u"...(%d lines)" % len(lines)] if len(lines) > 12 else [])


# ---- strategies ------------------------------------------------------------------------------------

_chars = st.characters(exclude_categories=("Cs",), exclude_characters=u"\n\r")
_ws = st.sampled_from([u" ", u"\t", u"  ", u"\xa0", u"\u3000", u" \t ", u"\u2003", u"\x1f", u"\ufeff", u"\x00"])
_plain = st.text(st.sampled_from(list(u"abcXYZ019 _-=:/.#\"'\\%{}[]$")), min_size=1, max_size=24)
_uni = st.text(_chars, min_size=1, max_size=20)
_nonascii = st.text(st.sampled_from(list(u"éüßαЖ中日\U0001f600\u0301\u200b\ufffd\x7f\x80\x9f")),
                    min_size=1, max_size=8)
_edged = st.builds(lambda a, b, c: a + b + c, st.one_of(_ws, st.just(u"")), st.one_of(_plain, _uni), _ws)
_wsonly = st.builds(u"".join, st.lists(_ws, min_size=1, max_size=3))
# a line with 1-2 runs of in-line special characters: alone, at either edge, between two texts
_piece = st.one_of(_plain, _nonascii, st.just(u""))
_inl = st.builds(u"".join, st.lists(st.sampled_from(INLINE_SPECIAL), min_size=1, max_size=2))
_sepline = st.builds(lambda a, s, b, t, c: a + s + b + t + c, _piece, _inl, _piece,
                     st.one_of(st.just(u""), _inl), st.one_of(st.just(u""), _plain))


def _long(tier):
    return st.builds(lambda u, n: [u, n], st.sampled_from([u"x", u"ab ", u"é", u"中文", u" ", u"\U0001f600-"]),
                     st.sampled_from([1000, 65536, 100000, 131073]))


def _lines(tier, rich):
    line = st.one_of(_plain, _uni, _nonascii, _edged, _wsonly, st.just(u""),
                     st.builds(lambda a, b: a + b, _plain, _nonascii), _sepline)
    if rich:
        line = st.one_of(line, line, line, line, line, line, _long(tier))
    return st.builds(lambda lead, body, trail: [u""] * lead + body + [u""] * trail,
                     st.sampled_from([0, 0, 0, 1, 2, 3]), st.lists(line, min_size=0, max_size=6),
                     st.sampled_from([0, 0, 0, 1, 2, 3]))


_SEP_STYLES = ["lf"] * 6 + ["crlf", "crlf", "cr", "mix", "any"]


@st.composite
def _seps(draw, kind):
    """Line terminators of the host-side source (a cycle): mostly plain LF (None), else DOS line ends,
    old-Mac / progress-bar carriage returns, a mixture of the three newline conventions, or any of the
    other characters str.splitlines cuts at. The kinds that are cut by str.splitlines (command output, a
    datasource's string) end a line there; a file reader keeps them inside the line (page breaks in a
    licence text, NEL from a mainframe export) - what the collecting provider presented is what was
    persisted either way."""
    style = draw(st.sampled_from(_SEP_STYLES))
    if style == "lf":
        return None
    if style == "crlf":
        return [u"\r\n"]
    if style == "cr":
        return [u"\r"]
    if style == "mix":
        return draw(st.lists(st.sampled_from(NEWLINES), min_size=1, max_size=3))
    return draw(st.lists(st.sampled_from(NEWLINES + OTHER_SEPS + [u"\n\r"]), min_size=1, max_size=3))


# ---- names: what a file / directory / command argument can be called on the host ---------------------
# (they travel into the relative location, the command line, the arguments and the error texts, i.e. into
# the metadata document, never into the content)

_badbytes = st.one_of(st.sampled_from(BAD_UTF8), st.lists(st.integers(0x80, 0xff), min_size=1, max_size=4))
_name_nonutf8 = st.builds(lambda a, bad, b, ext: a + fsname(bad) + b + ext, st.sampled_from(NAME_STEMS), _badbytes,
                          st.sampled_from([u"", u"", u"-1", u"\xe9", u" b", u"\udcff", u"\U0001f600"]), st.sampled_from(NAME_EXTS))
_NAME_STYLES = ["plain"] * 6 + ["non-utf8", "non-utf8", "unicode", "ascii", "any"]


def _shell_plain(names):
    return [n for n in names if not any(ch in n for ch in SHELL_SPECIAL)]


@st.composite
def _oddname(draw, shell_plain=False, styles=("non-utf8", "non-utf8", "unicode", "ascii", "any")):
    """A name outside [A-Za-z0-9 ._-] + a few CJK letters: bytes that are not valid UTF-8 (surrogate-escaped,
    as listdir / glob / argv deliver them), demanding valid Unicode, ASCII with a meaning in JSON or a shell,
    or any characters at all. `shell_plain`: the name is put unquoted into a command line that shlex cuts
    up (a container file path), so quotes and backslashes stay out."""
    style = draw(st.sampled_from(list(styles)))
    if style == "non-utf8":
        return draw(_name_nonutf8)
    if style == "unicode":
        return draw(st.sampled_from(UNI_NAMES))
    if style == "ascii":
        return draw(st.sampled_from(_shell_plain(ASCII_NAMES) if shell_plain else ASCII_NAMES))
    # no "/" and NUL (not possible in a name), no "." (a generated directory can then never coincide with
    # a generated file, whose name always ends in ".<digits>")
    return draw(st.text(st.characters(exclude_categories=("Cs",),
                                      exclude_characters=u"/\x00." + (SHELL_SPECIAL if shell_plain else u"")),
                        min_size=1, max_size=8))


@st.composite
def _fname(draw, shell_plain=False):
    style = draw(st.sampled_from(_NAME_STYLES))
    if style == "plain":
        return draw(st.sampled_from(NAMES))
    return draw(_oddname(shell_plain, styles=(style,)))


@st.composite
def _dname(draw, shell_plain=False):
    style = draw(st.sampled_from(["plain"] * 8 + ["sub", "sub", "odd"]))
    if style == "plain":
        return draw(st.sampled_from(DIRS))
    odd = draw(_oddname(shell_plain))
    return odd if style == "odd" else draw(st.sampled_from(DIRS)) + u"/" + odd


_argval = st.one_of(_plain, _nonascii, st.sampled_from([u"", u"eth0", u"/dev/sda1", u"a b"]), _oddname())
_args = st.one_of(st.none(), _argval, st.lists(_argval, min_size=1, max_size=3))
# the rest of a command line: fixed texts, or 1-2 host names used as arguments (foreach_execute over a
# directory listing), each one shlex word
_tail = st.one_of(st.sampled_from(CMD_TAILS), st.sampled_from(CMD_TAILS),
                  st.builds(lambda pre, ws: u" ".join(pre + [shell_word(w) for w in ws]),
                            st.sampled_from([[], [u"-l"], [u"checked"], [u"--file"]]),
                            st.lists(_oddname(), min_size=1, max_size=2)))
_failmsg = st.one_of(st.sampled_from([u"boom", u"no such thing: /x", u"\xfcn\xef failure", u"a 'quoted' msg"]),
                     st.builds(lambda n: u"[Errno 2] No such file or directory: '/etc/conf.d/%s'" % n, _oddname()))


@st.composite
def _item(draw, tier, rich):
    kind = draw(st.sampled_from(KINDS))
    it = {"kind": kind}
    if kind == "raw":
        it["raw"] = draw(st.one_of(
            st.lists(st.integers(0, 255), max_size=24),
            st.builds(lambda s: list(bytearray(s.encode("utf-8"))), st.text(max_size=12)),
            st.sampled_from([[10], [13, 10], [0], [255], [10, 10], [97, 10], [97, 13], [239, 187, 191]])))
        it["rep"] = draw(st.sampled_from([1, 1, 1, 2, 5000])) if rich else 1
    else:
        it["lines"] = draw(_lines(tier, rich))
        it["eol"] = draw(st.booleans())
        if kind in SPLITTING_KINDS:
            seps = draw(_seps(kind))
            if seps:
                it["seps"] = seps
    if kind in ("text", "raw", "ds_list", "ds_str", "cfile"):
        it["dir"] = draw(_dname(shell_plain=(kind == "cfile")))
        it["name"] = draw(_fname(shell_plain=(kind == "cfile")))
    if kind in ("text", "raw", "ds_list", "ds_str"):
        it["lead_slash"] = draw(st.booleans())
    if kind in ("text", "raw", "ds_list", "ds_str", "cmd"):
        if draw(st.sampled_from([False, True, True])):
            it["save_as"] = {"form": draw(st.sampled_from(["file", "dir"])),
                             "dir": draw(st.sampled_from(SA_DIRS)), "name": draw(st.sampled_from(SA_NAMES))}
    if kind in ("cmd", "ccmd", "cfile"):
        it["exe"] = draw(st.sampled_from(EXES[:4] if kind != "cmd" else EXES))
        it["keep_rc"] = draw(st.booleans())
        it["rc"] = draw(st.sampled_from([0, 0, 1, 2, 127]))
    if kind in ("cmd", "ccmd"):
        it["tail"] = draw(_tail)
        it["args"] = draw(_args)
        it["args_tuple"] = draw(st.booleans())
    if kind == "ccmd":
        it["inner"] = draw(st.sampled_from(["ls", "/usr/bin/rpm -qa", "cat", "/bin/ps aux"]))
    if kind in CONTAINER_KINDS:
        it["cid"] = draw(st.sampled_from(CIDS))
        it["image"] = draw(st.sampled_from(IMAGES))
    return it


@st.composite
def _comp(draw, tier, rich, fail_rate):
    multi = draw(st.booleans())
    cd = {"multi": multi, "nested": draw(st.sampled_from([False, False, True]))}
    if draw(st.integers(0, 99)) < fail_rate:
        cd["fail"] = draw(st.sampled_from(FAIL_TYPES))
        cd["fail_msg"] = draw(_failmsg)
    cd["items"] = draw(st.lists(_item(tier, rich), min_size=1, max_size=4 if multi else 1))
    return cd


_tag = st.text(st.sampled_from(list("abcxyz019_")), min_size=0, max_size=5)
_via = st.sampled_from(["hydrate", "hydrate", "initialize_broker"])
_read = st.sampled_from(["content", "content"] + READS[1:])


def _with_pool(case, pool):
    if pool:
        case["pool"] = pool
        for cd in case["comps"]:
            if cd.get("multi") and len(cd["items"]) >= 2:
                it = cd["items"][0]          # a slow first element: on a pool it finishes after the others
                if it["kind"] == "raw":
                    it["raw"] = it.get("raw") or [120, 10]
                    it["rep"] = 200000
                else:
                    it["lines"] = [[u"slow ", 131073]] * 6
    return case


def strat_roundtrip(tier):
    return st.builds(lambda tag, via, comps, pool, read: _with_pool(
        {"tag": tag, "via": via, "read": read, "comps": comps, "faults": []}, pool),
        _tag, _via, st.lists(_comp(tier, True, 12), min_size=1, max_size=4),
        st.sampled_from([0, 0, 0, 2, 4]), _read)


@st.composite
def _fault_case(draw, tier):
    comps = draw(st.lists(_comp(tier, False, 10), min_size=2, max_size=5))
    faults = []
    for _ in comps:
        k = draw(st.sampled_from(FAULTS + ["none"] * 7))
        faults.append({"kind": k, "n": draw(st.integers(0, 400))} if k != "none" else {"kind": "none"})
    if all(f["kind"] == "none" for f in faults):
        i = draw(st.integers(0, len(faults) - 1))
        faults[i] = {"kind": draw(st.sampled_from(FAULTS[1:])), "n": draw(st.integers(0, 400))}
    return {"tag": draw(_tag), "via": draw(_via), "read": draw(_read), "comps": comps, "faults": faults}


def strat_faults(tier):
    return _fault_case(tier)


def check_errors(case):
    """A spec whose first implementation failed during evaluation (the error is recorded against the
    spec) while the fallback's command only fails when it is read at persist time: the persisted entry
    has to carry *all* its errors."""
    from insights.core import dr
    from insights.core.exceptions import ContentException, CalledProcessError
    from insights.core.plugins import datasource
    from insights.core.serde import Hydration
    from insights.core.spec_factory import SpecSet, RegistryPoint, first_of, CommandOutputProvider

    ctx_cls = _ctx_class()
    uid = "e%s" % case.get("tag", "")
    tmp = tempfile.mkdtemp(prefix="%s%d-" % (TMP_PREFIX, os.getpid()))
    root = os.path.join(tmp, "host")
    out = os.path.join(tmp, "out")
    os.makedirs(root)
    os.makedirs(out)
    mod = types.ModuleType(SYNTH)
    prev_mod = sys.modules.get(SYNTH)
    sys.modules[SYNTH] = mod
    prev_disable = logging.root.manager.disable
    logging.disable(logging.CRITICAL)
    cache_keys = _cache_keys()
    comps, names = [], set()
    try:
        outputs = {}
        ctx = ctx_cls(root, outputs)
        eval_faults = list(case["eval_faults"])
        made = []

        def failing(kind, k):
            def body(broker):
                if kind == "content":
                    raise ContentException("evalfail%d missing file" % k)
                raise CalledProcessError(3, "evalfail%d cmd" % k)
            body.__name__ = body.__qualname__ = "fail%d_%s" % (k, uid)
            body.__module__ = SYNTH
            setattr(mod, body.__name__, body)
            return datasource(ctx_cls)(body)
        fails = [failing(kind, k) for k, kind in enumerate(eval_faults)]
        cmd = "/bin/echo persistfail %s" % uid
        ser = case["ser_fault"]
        outputs[json.dumps([shlex.split(cmd)])] = (
            0, CalledProcessError(2, cmd, "serfail output") if ser == "cpe" else
            (OSError("serfail gone") if ser == "oserror" else u"fine line\n"))

        def fallback(broker):
            p = CommandOutputProvider(cmd, broker[ctx_cls], ds=fallback)
            made.append(p)
            return [p] if case.get("multi") else p
        fallback.__name__ = fallback.__qualname__ = "fallback_%s" % uid
        fallback.__module__ = SYNTH
        setattr(mod, fallback.__name__, fallback)
        fb = datasource(ctx_cls, multi_output=bool(case.get("multi")))(fallback)
        reg = type("ErrSpecs_%s" % uid, (SpecSet,), {"__module__": SYNTH,
                                                    "sp": RegistryPoint(multi_output=bool(case.get("multi")))})
        impl_ds = first_of(fails + [fb])
        impl = type("ErrImpl_%s" % uid, (reg,), {"__module__": SYNTH, "sp": impl_ds})
        setattr(mod, reg.__name__, reg)
        setattr(mod, impl.__name__, impl)
        sp = reg.sp
        comps = fails + [fb, impl_ds, sp]
        names = set(dr.get_name(c) for c in comps)
        broker = dr.Broker()
        broker[ctx_cls] = ctx
        h = Hydration(out, ctx)
        broker.add_observer(h.make_persister(set([sp])))
        dr.run(dr.get_dependency_graph(sp), broker=broker)
        recorded = [type(e).__name__ for e in broker.exceptions.get(sp, [])]
        meta = os.path.join(out, "meta_data")
        docs = []
        for fn in (os.listdir(meta) if os.path.isdir(meta) else []):
            with open(os.path.join(meta, fn)) as f:
                docs.append(json.load(f))
        docs = [d for d in docs if d.get("name") == dr.get_name(sp)]
        if len(docs) != 1:
            raise Violation("the spec was evaluated during collection but %d metadata entries were persisted for it"
                            % len(docs))
        errs = docs[0].get("errors") or []
        want = ["evalfail%d" % k for k in range(len(eval_faults))] + (["serfail"] if ser != "none" else [])
        for w in want:
            if not any(isinstance(e, str) and w in e and "Traceback" in e for e in errs):
                raise Violation("the persisted entry of a spec that failed lost one of its errors: no traceback "
                                "mentioning %r among the %d persisted error(s)" % (w, len(errs)),
                                persisted=[e[-160:] for e in errs if isinstance(e, str)], recorded_before_persist=recorded)
        if ser != "none" and docs[0].get("results"):
            raise Violation("a spec whose only element could not be serialised is persisted with results",
                            results=docs[0].get("results"))
        return {"nontrivial": bool(eval_faults) and ser != "none",
                "labels": ["eval-errors=%d" % len(eval_faults), "ser=" + ser, "multi" if case.get("multi") else "single"]}
    finally:
        logging.disable(prev_disable)
        try:
            _unregister(comps, names, cache_keys)
        finally:
            if prev_mod is None:
                sys.modules.pop(SYNTH, None)
            else:
                sys.modules[SYNTH] = prev_mod
            shutil.rmtree(tmp, ignore_errors=True)


def strat_errors(tier):
    return st.fixed_dictionaries({"tag": _tag, "multi": st.booleans(),
                                  "eval_faults": st.lists(st.sampled_from(["content", "cpe"]), min_size=0, max_size=3),
                                  "ser_fault": st.sampled_from(["cpe", "cpe", "oserror", "none"])})


SUBS = [
    Sub("errors", check_errors, strategy=strat_errors, quick=150, thorough=1500, workers_quick=2,
        workers_thorough=8, budget_quick=20, budget_thorough=200,
        doc="a spec with evaluation-time errors whose fallback fails at persist time keeps all its errors"),
    Sub("roundtrip", check, strategy=strat_roundtrip, quick=400, thorough=2500, workers_quick=4,
        workers_thorough=16, budget_quick=27, budget_thorough=280,
        doc="every provider kind x content x save_as, no damage: what was persisted is what is loaded"),
    Sub("faults", check, strategy=strat_faults, quick=450, thorough=2500, workers_quick=4,
        workers_thorough=16, budget_quick=27, budget_thorough=280,
        doc="a generated fault per metadata entry: loading never raises, intact entries load intact"),
]


def _txt(kind, lines, eol=True, **kw):
    d = {"kind": kind, "lines": lines, "eol": eol, "dir": "etc", "name": "hosts", "lead_slash": False}
    d.update(kw)
    return d


REGRESSIONS = [
    # the prototype's observation: exactly one trailing empty line is lost, nothing else
    Reg("edge-empty-lines-every-text-kind", "roundtrip", {"tag": "r1", "via": "hydrate", "faults": [], "comps": [
        {"multi": True, "nested": False, "items": [
            _txt("text", [u"", u"", u"α line", u"", u"last", u"", u"", u""]),
            _txt("ds_list", [u"x", u"", u"y", u""], eol=False),
            _txt("ds_str", [u"", u" padded ", u"\t"], eol=True),
            {"kind": "cmd", "lines": [u"out", u"", u"é", u""], "eol": True, "exe": "/bin/echo", "tail": "a  b/c",
             "args": [u"a", u"b"], "args_tuple": True, "keep_rc": True, "rc": 1}]},
        {"multi": False, "nested": True, "items": [_txt("text", [u""], eol=False)]},
    ]}),
    Reg("containers-and-raw", "roundtrip", {"tag": "r2", "via": "initialize_broker", "faults": [], "comps": [
        {"multi": True, "nested": True, "items": [
            {"kind": "ccmd", "lines": [u"a", u"b"], "eol": True, "exe": "/usr/bin/env", "cid": "c1d2e3f4a5b6",
             "inner": "ls", "tail": "-l /etc/x", "image": "rhel9", "args": [u"rhel9", u"podman", u"c1d2e3f4a5b6"],
             "args_tuple": True, "keep_rc": False, "rc": 0},
            {"kind": "cfile", "lines": [u"中文", u""], "eol": False, "exe": "/bin/cat", "cid": "abc123",
             "dir": "etc", "name": "with space", "image": None, "keep_rc": True, "rc": 0}]},
        {"multi": False, "nested": False, "items": [
            {"kind": "raw", "raw": [0, 255, 10, 98, 105, 110, 13, 10], "rep": 1, "dir": "var/log", "name": "messages",
             "lead_slash": True, "save_as": {"form": "dir", "dir": "var/log/pcp/pmlogger", "name": "x"}}]},
    ]}),
    Reg("one-corrupt-one-intact", "faults", {"tag": "r3", "via": "hydrate", "comps": [
        {"multi": False, "nested": False, "items": [_txt("text", [u"a"])]},
        {"multi": False, "nested": False, "items": [_txt("ds_list", [u"b"], name="messages")]},
        {"multi": False, "nested": False, "fail": "RuntimeError", "fail_msg": u"boom", "items": [_txt("text", [u"c"])]},
        {"multi": True, "nested": False, "items": [_txt("text", [], eol=False), _txt("ds_str", [u"d"])]},
    ], "faults": [{"kind": "truncate", "n": 17}, {"kind": "none"}, {"kind": "nonjson", "n": 2}, {"kind": "none"}]}),
]
