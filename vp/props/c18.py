"""C18 - a playbook's signed digest covers everything but the declared dynamic parts.

digest(p) = hash_play(serialize_play(exclude_dynamic_elements(p)))   (what verify_play hands to GPG)

Oracle (metamorphic, no GPG): a type-aware canonical form of the *cleaned* play (computed by a
reference model of the exclusion rules from the harness' own view of the play).  Two plays with
different canonical forms must have different digests; equal canonical forms (the edit touched
excluded elements only) must have equal digests.  Plays are described as JSON trees (so that
non-string mapping keys survive a replay file), built either as plain Python objects or emitted as
YAML text and loaded through load_playbook_yaml (ruamel round-trip types).

Sub-checks
  exhaustive  every pair of a bounded universe of small plays (strings made of the serialiser's own
              delimiters, scalars of every type, lists / maps / nestings of them): injectivity
  digest      generated play x single edit (incl. splice edits re-creating serialised text)
  exclusion   generated play x exclusion requests (valid, other label, deeper, missing key, ...)
              against the reference model of the exclusion rules
  presence    verify_play on plays without vars / signature / exclusion list (GPG stubbed)
  verify      verify() end to end with a toy signature scheme in place of GPG and a generated
              revocation list in place of insights/revoked_playbooks.yaml
  shared      plays whose object graph is not a tree (YAML anchors / aliases, one Python object referenced
              from several places: vars / hosts / their children / tasks re-used in a task, in vars, at top
              level) x single edit; reference model of the exclusion rules over the node graph
  playbook    whole playbooks of 1-4 plays (valid, edited after signing, revoked, wrongly signed, unsigned,
              bad exclusion list - at any position) through the command-line entry point
              `python -m insights.client.apps.ansible.playbook_verifier` (run in-process: stdin / exit status)
              and through a sequence of verify() calls in one process
  scale       plays holding a value with one large dimension - nested up to 100 container levels (blocks within
              blocks), sequences / mappings of up to ~1200 items, strings of up to 70 000 characters - and a single
              edit in its innermost / last part; placed in a task, in vars, at top level or inside an excluded element
  (digest, verify, shared, playbook, scale also draw the edit "near": a number / string replaced by the closest
  value of the same type - next double, fewer significant digits, one bit / digit of an integer, case / Unicode
  composition / trailing blank of a string; exhaustive also walks "size ladders": one play per nesting depth, item
  count, string length, and per precision / magnitude of a number)
  Round 6: strings of several lines / words with every kind of line end (LF, CR, CR LF, VT, FF, FS, GS, RS, NEL,
  U+2028, U+2029) and blank; "near" also swaps one line end / blank for another of its class, doubles it, adds /
  removes one at either end; exhaustive holds every string of <= 3 characters over {a, the line-end characters,
  blank, tab, NBSP}.  verify / playbook: reads of the revocation list that go wrong (OSError of ten errnos, EOFError,
  ZipImportError, None, blank / non-YAML / wrongly shaped / cut-short content) before, between and after intact
  reads: a play that has to be refused - in particular a revoked one - is still not accepted.
"""
import base64
import copy
import hashlib
import itertools
import math
import re
import unicodedata

from hypothesis import strategies as st

from vp.core import Sub, Reg, Violation, HarnessError

PROPERTY = "C18"
RULE = ("plays = JSON trees of mappings (string / int / float / bool / null keys), sequences, strings "
        "(built from fragments: both quotes, backslash, newline, tab, zero-width and control characters, "
        "the serialiser's delimiters \"', '\", \"'), ('\", \"')])\", 'ordereddict(['), ints, floats, bools, "
        "nulls, empty containers; always with vars.insights_signature_exclude; built as plain Python "
        "objects or emitted as block YAML (plain / single / double quoted / literal scalars, hex / octal "
        "ints, true/True/TRUE, null/~/empty) and loaded through load_playbook_yaml. One edit per case: "
        "scalar change, type change (1/'1'/1.0/True, None/'None', container <-> its serialised text, "
        "empty containers), escape <-> literal spelling, key rename / key type change, insert, delete, "
        "reorder, wrap / unwrap, re-nest in / out, split / merge, key-suffix move, splice-key and "
        "splice-item (replace two neighbours by one element whose text is the serialised text of both), "
        "placed anywhere or forced into the excluded elements. Non-trivial: both plays produce a digest, "
        "their cleaned canonical forms differ (edit outside the excluded elements) and the play contains a "
        "string with a quote, backslash or delimiter sequence; distinct by the pair of cleaned canonical "
        "forms. Exhaustive part: one global collision table over a bounded universe of small plays (about "
        "1.5*10^5 in the quick tier) incl. plays crafted from the actual serialised text of two neighbours. "
        "shared: the same plays and edits with 1-2 nodes (vars, hosts, a child of them, tasks, a task, another "
        "top-level value) turned into shared nodes referenced from a new task / a new child of vars / a new "
        "top-level key (YAML anchor + alias in either document order, or one Python object); non-trivial: at least "
        "one shared node and the pair differs (outside or only inside the excluded elements). playbook: 1-4 "
        "generated signed plays, each valid / changed inside its excluded elements after signing / revoked / edited "
        "/ wrongly signed / unsigned / without or with a bad exclusion list (one faulty play at a late-biased "
        "position, all valid, or free mix), 0-2 unrelated revocation entries, run through the module entry point "
        "or a verify() sequence; non-trivial: the first play to refuse is not the first play, or several plays all "
        "accepted. Numbers: floats with 1-17 significant digits at magnitudes 1e-12..1e14, a/b and a/10+b/10 results, "
        "extreme doubles, integers around 2**31 .. 2**128 and 10**9 .. 10**40; edit 'near' = the closest value of the "
        "same type (1 .. 200 ulps, rounding to 1-16 significant digits, relative change 1e-9 .. 1e-16, -0.0 / 0.0, one "
        "bit / last digit of an integer, the nearest double of an integer, case / Unicode composition / trailing blank "
        "of a string). scale: a generated play plus one large value described compactly (frames [kind, items before, "
        "items after] outside-in, a pool of item values, the innermost part before / after the edit, long strings as "
        "unit * n + mark + unit * m): depth 1-100 container levels (patterns block / sequence / mapping / mixed), "
        "sequences up to 1200 and mappings up to 600 items (300 / 200 through YAML), strings up to 70 000 characters "
        "(3 000 through YAML), sizes drawn next to powers of two / ten or log-uniform and biased to the large end, edit "
        "position mostly at the far end; placed in a new task / vars child / top-level key (digest must change) or in "
        "place of an excluded element (digest must not change); non-trivial: more than 8 levels, 64 items or 256 "
        "characters and the pair differs. exhaustive also holds size ladders: depth 1-100 x 3 patterns, item counts and "
        "string lengths 0-39 and next to every power of two / ten up to 1100 items / 70 000 characters, floats of 1-17 "
        "significant digits x 18 magnitudes with their neighbours at +-1, +-2 ulps, integers +-(2**k - 1, 2**k, 2**k + 1) "
        "for k <= 130 and 10**k +- 1 for k <= 40 as int, float and mapping key. Line ends and blanks: generated strings "
        "include texts of 1-3 words each followed by LF / CR / CR LF / VT / FF / FS / GS / RS / NEL / U+2028 / U+2029 / "
        "blank / tab / NBSP (last one present or not); 'near' on a string also replaces one line end or blank by another "
        "one, doubles it, or adds / removes one at either end; the exhaustive universe holds every string of <= 3 "
        "(thorough 4) characters over {a, the ten line-end characters, blank, tab, NBSP} as value (<= 2: also as key and "
        "list item). Faulty reads of the revocation list (verify: ~half of the cases, a schedule of intact and faulty "
        "reads per play; playbook: ~10 % of the cases, the k-th read): pkgutil.get_data raises OSError (EACCES, EIO, "
        "ENOENT, EMFILE, ENFILE, EISDIR, ESTALE, EPERM, ENOMEM, EINTR, or without errno), EOFError, ZipImportError, "
        "returns None, b'', blank / comment-only / non-YAML / wrongly shaped text, or the intact list cut at 0-99.9 %; "
        "oracle for those reads: a play that has to be refused (revoked, edited, wrongly signed, no digest) is not "
        "accepted - the kind of failure and the fate of acceptable plays are not asserted. shared, reference edits "
        "(about a third of the variants): the two plays have the same scalars and keys and differ only in which node ONE "
        "reference denotes - retargeted to another shared node (same kind preferred), two references swapped, replaced by "
        "a copy of its node (same value, another object) or by a copy of another node; references numbered in "
        "serialisation order, late occurrences preferred; such cases share 1-3 different nodes, containers preferred.")
ASSUMPTIONS = [
    "the digest is observed as hash_play(serialize_play(exclude_dynamic_elements(play))) - the exact "
    "composition verify_play hands to GPG (sub-checks presence/verify confirm that this value reaches "
    "gpg.verify_data); GPG itself is replaced by a stub / toy signature scheme",
    "Python >= 3.12 code path of serialize_play (PlaybookSerializer); the str(play) paths of older "
    "interpreters are not reachable in this sandbox",
    "canonical form: mapping = ordered list of (key, value) pairs, sequence, str, int, float (by repr), "
    "bool, null, bytes; ruamel scalar subclasses (ScalarInt/HexInt/OctalInt, ScalarFloat, *ScalarString) "
    "count as their base type: 0o17 and 15 are the same value",
    "exclusion requests are enforced only where the statement decides them: '/label' or '/label/child' "
    "with non-empty parts; other spellings (no leading slash, doubled or trailing slash, blanks, empty "
    "request, the same element requested twice or together with its parent) are accepted either way",
    "shared nodes: a YAML alias / a Python object referenced twice is ONE node with several parents (YAML "
    "representation graph); an excluded element is an entry of its node and is removed from that node wherever "
    "the node is referenced. When the *value* of an excluded element is itself still referenced from a "
    "non-excluded place, a change of that value is neither required to change the digest nor to keep it",
    "shared, reference edits: a reference and a copy of the node it denotes are the same value (equal expanded cleaned "
    "forms => equal digests, as for two spellings of a scalar); 'differs outside the excluded elements' is demanded only "
    "when the changed reference is written outside the requested elements AND the plays differ outside them both when "
    "read as trees (every reference expanded in place) and when read as graphs",
    "playbook: 'rejected' / 'verification error' at the entry point = non-zero exit status; accepted = exit "
    "status 0 (what is printed is not asserted); SKIP_VERIFY is removed from the environment for the run",
    "two floats are different values iff their repr differs (every double has its own shortest repr; -0.0 and 0.0 "
    "are different YAML scalars and are told apart by the unchanged code); two integers iff they differ, whatever "
    "their size; two strings iff their code points differ (no case folding, no Unicode normalisation, no trimming)",
    "a read of the revocation list that goes wrong: 'not accepted' = verify() raises anything / the entry point ends "
    "with a non-zero status or an escaping exception; after such a read the harness performs one throw-away load on the "
    "module's YAML() instance (a ReaderError leaves it in a state in which the next load fails once - observed on the "
    "unchanged tree, errs on the refusing side, not part of the statement)",
    "size: plays of up to ~105 container levels, ~5 000 items per container and ~300 000 characters per string are "
    "inside the domain (the unchanged loader, deepcopy and serialiser handle more than twice that depth; YAML texts "
    "the loader refuses are skipped); nothing is claimed beyond",
]
EXCLUDED = [
    "YAML anchors on booleans (ruamel loads '&a true' as ScalarBoolean, an int subclass that the "
    "serialiser prints as 1: 'x: &a true' and 'x: 1' share a digest) - finding reported in "
    "design.d/C18.md, not generated",
    "YAML timestamps, !!set, !!omap, merge keys, complex (sequence / mapping) keys, tuples and other "
    "objects that reach the serialiser's str() fallback - not in the property's domain",
    "a vars.insights_signature_exclude value that is not a string (null, int, list): the code raises "
    "AttributeError instead of PlaybookVerificationError; the statement only speaks of a missing list",
    "strings with lone surrogates (cannot be encoded to UTF-8 by serialize_play)",
    "shared: recursive plays (a node that contains itself; the serialiser cannot terminate), anchors on "
    "ints / floats / nulls (immutable, sharing has no effect) and on booleans (finding above)",
    "plays nested deeper than ~105 container levels (the unchanged code ends in RecursionError / a refused load "
    "somewhere beyond 240 levels, depending on the stack in use), integers of more than 4300 digits (int -> str limit)",
]

EXCL = "insights_signature_exclude"
SIG = "insights_signature"
LABELS = ("hosts", "vars")


def _pv():
    from insights.client.apps.ansible import playbook_verifier as pv
    return pv


# ---------------------------------------------------------------------------------------------
# trees: {"m": [[key, value], ...]} {"l": [...]} {"s": text, "q": style} {"i": int, "r": radix}
#        {"f": repr} {"b": bool, "r": n} {"n": n} {"y": hex}  (bytes, signature only)
# ---------------------------------------------------------------------------------------------

def S(text, q="d"):
    return {"s": text, "q": q}


def I(n):
    return {"i": n}


def M(*pairs):
    return {"m": [[k, v] for k, v in pairs]}


def L(*items):
    return {"l": list(items)}


def _scalar_py(n):
    if "s" in n:
        return n["s"]
    if "i" in n:
        return int(n["i"])
    if "f" in n:
        return float(n["f"])
    if "b" in n:
        return bool(n["b"])
    if "n" in n:
        return None
    if "y" in n:
        return bytes.fromhex(n["y"])
    raise HarnessError("not a scalar node: %r" % (n,))


def norm(n):
    """drop later mapping items whose key is Python-equal to an earlier key (1 == True == 1.0):
    neither a dict nor a YAML mapping can hold both"""
    if "m" in n:
        seen = set()
        items = []
        for k, v in n["m"]:
            pk = _scalar_py(k)
            if pk != pk:        # NaN keys never compare equal; keep the harness away from them
                continue
            if pk in seen:
                continue
            seen.add(pk)
            items.append([k, norm(v)])
        return {"m": items}
    if "l" in n:
        return {"l": [norm(x) for x in n["l"]]}
    return n


def build_py(n):
    if "m" in n:
        d = {}
        for k, v in n["m"]:
            d[_scalar_py(k)] = build_py(v)
        return d
    if "l" in n:
        return [build_py(x) for x in n["l"]]
    return _scalar_py(n)


# ---- YAML emitter ------------------------------------------------------------------------------

_PLAIN_OK = re.compile(r"^[A-Za-z_][A-Za-z0-9_./-]*( [A-Za-z0-9_./-]+)*$")


def _dq(text):
    out = ['"']
    for ch in text:
        o = ord(ch)
        if ch == '"':
            out.append('\\"')
        elif ch == "\\":
            out.append("\\\\")
        elif ch == "\n":
            out.append("\\n")
        elif ch == "\t":
            out.append("\\t")
        elif 0x20 <= o < 0x7f:
            out.append(ch)
        elif o <= 0xff:
            out.append("\\x%02x" % o)
        elif o <= 0xffff:
            out.append("\\u%04x" % o)
        else:
            out.append("\\U%08x" % o)
    out.append('"')
    return "".join(out)


def _literal_ok(text):
    if not text or text[0] in " \n\t" or text.endswith("\n\n"):
        return False
    body = text[:-1] if text.endswith("\n") else text
    for line in body.split("\n"):
        if line != line.strip(" \t") or (line[:1] in " \t"):
            return False
        for ch in line:
            if ord(ch) < 0x20 or 0x7f <= ord(ch) <= 0xa0 or ord(ch) in (0x2028, 0x2029, 0xfeff) or ord(ch) > 0xffff:
                return False
    return True


def _y_str(text, q, inline_only):
    """(inline text | None, block lines | None)"""
    if q == "l" and not inline_only and _literal_ok(text):
        head = "|" if text.endswith("\n") else "|-"
        body = text[:-1] if text.endswith("\n") else text
        return head, body.split("\n")
    if q == "p" and _PLAIN_OK.match(text):
        return text, None
    if q in ("s", "p") and text and all(0x20 <= ord(c) < 0x7f for c in text):
        return "'" + text.replace("'", "''") + "'", None
    return _dq(text), None


def _y_scalar(n, inline_only=False):
    if "s" in n:
        return _y_str(n["s"], n.get("q", "d"), inline_only)
    if "i" in n:
        v = int(n["i"])
        r = n.get("r", "d")
        if r == "x" and v >= 0:
            return "0x%X" % v, None
        if r == "o" and v >= 0:
            return "0o%o" % v, None
        if r == "u" and v >= 1000:
            return "{:_}".format(v), None
        return str(v), None
    if "f" in n:
        t = n["f"]
        return {"nan": ".nan", "inf": ".inf", "-inf": "-.inf"}.get(t, t), None
    if "b" in n:
        names = (["true", "True", "TRUE"] if n["b"] else ["false", "False", "FALSE"])
        return names[n.get("r", 0) % 3], None
    if "n" in n:
        return ["null", "~", "Null", ""][n["n"] % (3 if inline_only else 4)], None
    if "y" in n:
        return "!!binary " + base64.b64encode(bytes.fromhex(n["y"])).decode("ascii"), None
    raise HarnessError("not a scalar node: %r" % (n,))


def _emit(n, ind, lines, ctx=None):
    if "m" in n:
        for k, v in n["m"]:
            ks = _y_scalar(k, inline_only=True)[0]
            if ks == "":
                ks = "null"
            _emit_value(ind + ks + ":", v, ind, lines, ctx)
    else:
        for x in n["l"]:
            _emit_value(ind + "-", x, ind, lines, ctx)


def _emit_value(prefix, v, ind, lines, ctx=None):
    if "ref" in v:
        # shared node: the first occurrence in document order carries the anchor, later ones are aliases
        rid = v["ref"]
        if rid in ctx["done"]:
            lines.append(prefix + " *" + rid)
            return
        ctx["done"].add(rid)
        prefix = prefix + " &" + rid
        v = ctx["defs"][rid]
        if "ref" in v:
            raise HarnessError("a shared node that is only a reference")
    if "m" in v or "l" in v:
        if not (v.get("m") or v.get("l")):
            lines.append(prefix + (" {}" if "m" in v else " []"))
        else:
            lines.append(prefix)
            _emit(v, ind + "  ", lines, ctx)
        return
    inline, block = _y_scalar(v)
    if block is None:
        lines.append(prefix + (" " + inline if inline != "" else ""))
    else:
        lines.append(prefix + " " + inline)
        for b in block:
            lines.append((ind + "  " + b) if b else "")


def emit_yaml(play_tree, defs=None):
    """defs: {anchor name: node} for the {"ref": name} nodes of a play with shared nodes"""
    if not play_tree.get("m"):
        return "- {}\n"
    lines = []
    _emit(play_tree, "  ", lines, {"defs": defs or {}, "done": set()})
    lines[0] = "- " + lines[0][2:]
    return "\n".join(lines) + "\n"


# ---- canonical form and reference model of the exclusion rules -----------------------------------

def canon(o):
    from insights.client.apps.ansible.playbook_verifier.contrib.ruamel_yaml.ruamel.yaml.scalarbool import ScalarBoolean
    if isinstance(o, bool):
        return ["b", o]
    if isinstance(o, ScalarBoolean):
        return ["b", bool(o)]           # what the YAML says: an (anchored) boolean
    if isinstance(o, int):
        return ["i", str(int(o))]
    if isinstance(o, float):
        return ["f", repr(float(o))]
    if isinstance(o, str):
        return ["s", str(o)]
    if o is None:
        return ["n"]
    if isinstance(o, bytes):
        return ["y", o.hex()]
    if isinstance(o, dict):
        return ["m", [[canon(k), canon(v)] for k, v in o.items()]]
    if isinstance(o, list):
        return ["l", [canon(x) for x in o]]
    if type(o).__name__ == "TaggedScalar":       # never generated; lets the pinned reproducers below be replayed
        return ["tagged", str(getattr(getattr(o, "tag", None), "value", None)), str(o.value)]
    raise HarnessError("canon: object of type %s is outside the generated domain" % type(o).__name__)


def _find(items, key):
    for i, kv in enumerate(items):
        if kv[0] == key:
            return i
    return None


def _parse_requests(ex):
    """the exclusion list as the statement reads it -> ("ok", [[label] | [label, child], ...]) | ("err" | "ambiguous", why)"""
    parsed = []
    for r in ex.split(","):
        parts = r.split("/")[1:]
        if r == "" or r != r.strip() or not r.startswith("/") or "" in parts or any(p != p.strip() for p in parts):
            return ("ambiguous", "request %r" % r)
        parsed.append(parts)
    for parts in parsed:
        if parts[0] not in LABELS:
            return ("err", "other-label: %r cannot be excluded" % parts[0])
        if len(parts) > 2:
            return ("err", "deeper: request below a direct child")
    tops = set(p[0] for p in parsed if len(p) == 1)
    seen = set()
    for parts in parsed:
        if tuple(parts) in seen or (len(parts) == 2 and parts[0] in tops):
            return ("ambiguous", "element requested twice / together with its parent")
        seen.add(tuple(parts))
    return ("ok", parsed)


def model_clean(c):
    """c = canon(play) with vars a mapping holding a string exclusion list.
    -> ("ok", canon of the cleaned play) | ("err", why) | ("ambiguous", why)"""
    # (only the two levels the rules can touch are copied: the values below them are shared with `c`, never
    # modified, and may be nested far deeper than copy.deepcopy could follow on the harness' stack)
    items = [[k, v] for k, v in c[1]]
    c = ["m", items]
    vars_ = items[_find(items, ["s", "vars"])][1]
    ex = vars_[1][_find(vars_[1], ["s", EXCL])][1][1]
    verdict, parsed = _parse_requests(ex)
    if verdict != "ok":
        return (verdict, parsed)
    for parts in parsed:
        i = _find(items, ["s", parts[0]])
        if i is None:
            return ("err", "missing-key: %s" % parts[0])
        if len(parts) == 1:
            del items[i]
            continue
        sub = items[i][1]
        if sub[0] != "m":
            return ("err", "child-of-non-mapping: %s" % parts[0])
        j = _find(sub[1], ["s", parts[1]])
        if j is None:
            return ("err", "missing-key: %s" % "/".join(parts))
        items[i][1] = ["m", [kv for n, kv in enumerate(sub[1]) if n != j]]
    return ("ok", c)


# ---- the same model for plays whose object graph is not a tree ------------------------------------
# A YAML alias (or a Python object referenced twice) denotes ONE node with several parents.  The play is
# read as a graph: every container is a node, numbered by identity in first-visit order; an excluded
# element is an *entry* of a node (play -> hosts / vars, hosts / vars node -> child).  Removing the entry
# removes it from that node, wherever the node is referenced; the removed value stays part of the play
# where another, non-excluded entry still references it.

def graph_of(o):
    """-> (root, nodes): nodes[n] = ["m", [[canon key, child], ...]] | ["l", [child, ...]],
    child = canon scalar | ["r", n]"""
    ids = {}
    nodes = []
    onpath = set()

    def walk(x):
        if isinstance(x, (dict, list)):
            i = id(x)
            if i in ids:
                if i in onpath:
                    raise HarnessError("recursive play (a node that contains itself) is outside the generated domain")
                return ["r", ids[i]]
            n = ids[i] = len(nodes)
            nodes.append(None)
            onpath.add(i)
            if isinstance(x, dict):
                nodes[n] = ["m", [[canon(k), walk(v)] for k, v in x.items()]]
            else:
                nodes[n] = ["l", [walk(v) for v in x]]
            onpath.discard(i)
            return ["r", n]
        return canon(x)

    return walk(o), nodes


def g_expand(c, nodes):
    if c[0] == "r":
        n = nodes[c[1]]
        if n[0] == "m":
            return ["m", [[k, g_expand(v, nodes)] for k, v in n[1]]]
        return ["l", [g_expand(v, nodes) for v in n[1]]]
    return c


def model_clean_graph(p):
    """p = play object (vars a mapping holding a string exclusion list), shared nodes allowed.
    -> ("ok", canon of the cleaned play, shared nodes expanded) | ("err", why) | ("ambiguous", why)"""
    root, nodes = graph_of(p)
    items = nodes[root[1]][1]
    vref = items[_find(items, ["s", "vars"])][1]
    vitems = nodes[vref[1]][1]
    ex = vitems[_find(vitems, ["s", EXCL])][1][1]
    verdict, parsed = _parse_requests(ex)
    if verdict != "ok":
        return (verdict, parsed)
    for parts in parsed:
        i = _find(items, ["s", parts[0]])
        if i is None:
            return ("err", "missing-key: %s" % parts[0])
        if len(parts) == 1:
            del items[i]
            continue
        sub = items[i][1]
        if sub[0] != "r" or nodes[sub[1]][0] != "m":
            return ("err", "child-of-non-mapping: %s" % parts[0])
        j = _find(nodes[sub[1]][1], ["s", parts[1]])
        if j is None:
            return ("err", "missing-key: %s" % "/".join(parts))
        del nodes[sub[1]][1][j]
    return ("ok", g_expand(root, nodes))


# ---- harness-side imitation of the serialiser: only used to *craft* splice edits ---------------------

def _mstr(v):
    esc = {"\\": "\\\\", "\n": "\\n", "\t": "\\t", u"\u200b": "\\u200b", u"\u200c": "\\u200c", u"\u200d": "\\u200d"}
    v = "".join(esc.get(ch, ch) for ch in v)
    q = "'"
    if "'" in v:
        if '"' not in v:
            q = '"'
        else:
            v = v.replace("'", "\\'")
    return q + v + q


def mimic(n):
    if "m" in n:
        if not n["m"]:
            return "ordereddict()"
        return "ordereddict([" + ", ".join("(%s, %s)" % (mimic(k), mimic(v)) for k, v in n["m"]) + "])"
    if "l" in n:
        return "[" + ", ".join(mimic(x) for x in n["l"]) + "]"
    if "s" in n:
        return _mstr(n["s"])
    if "y" in n:
        return repr(bytes.fromhex(n["y"]))
    return str(_scalar_py(n))


def _keytext(k):
    return k["s"] if "s" in k else str(_scalar_py(k))


# ---------------------------------------------------------------------------------------------
# observation
# ---------------------------------------------------------------------------------------------

def _materialise(case, which):
    """-> (object | None when the YAML text does not load, yaml text | None)"""
    pv = _pv()
    text = None
    if "yaml_" + which in case:
        text = case["yaml_" + which]
    elif case.get("mode") == "yaml":
        text = emit_yaml(norm(case[which]))
    if text is None:
        return build_py(norm(case[which])), None
    try:
        doc = pv.load_playbook_yaml(text)
    except pv.PlaybookVerificationError:
        return None, text
    if not isinstance(doc, list) or len(doc) != 1 or not isinstance(doc[0], dict):
        raise HarnessError("emitted YAML is not a one-play playbook: %r" % text)
    return doc[0], text


def observe(p, raw=False):
    """-> ("ok", digest bytes, canon of cleaned play, note) | ("err", why) | ("skip", why)
    raises Violation when the code disagrees with the exclusion-rule model"""
    pv = _pv()
    cp = canon(p)
    if raw:
        return ("ok", pv.hash_play(pv.serialize_play(p)), cp, "raw")
    has_vars = "vars" in p
    vars_ = p.get("vars")
    if has_vars and not isinstance(vars_, dict):
        # verify_play is the only caller of exclude_dynamic_elements and refuses such plays first
        try:
            pv.verify_play(p)
        except pv.PlaybookVerificationError:
            return ("err", "vars-not-a-mapping")
        raise Violation("verify_play accepted a play whose 'vars' is not a mapping (no exclusion list, no signature)",
                        play=cp)
    if not has_vars or EXCL not in vars_:
        try:
            pv.exclude_dynamic_elements(p)
        except pv.PlaybookVerificationError:
            return ("err", "missing-exclusion-list")
        raise Violation("a play without vars/insights_signature_exclude was not refused", play=cp)
    if not isinstance(vars_[EXCL], str):
        return ("skip", "exclusion-list-not-a-string")
    model = model_clean(cp)
    try:
        cleaned = pv.exclude_dynamic_elements(p)
    except pv.PlaybookVerificationError as e:
        if model[0] == "ok":
            raise Violation("exclusion list %r only names hosts/vars or existing direct children, but was refused: %s"
                            % (str(vars_[EXCL]), e), play=cp)
        return ("err", model[1] if model[0] == "err" else "ambiguous-request refused")
    if model[0] == "err":
        raise Violation("exclusion list %r must be refused (%s) but was accepted" % (str(vars_[EXCL]), model[1]),
                        play=cp, cleaned=canon(cleaned))
    cc = canon(cleaned)
    if model[0] == "ok" and cc != model[1]:
        raise Violation("exclude_dynamic_elements(%r) did not remove exactly the requested elements"
                        % str(vars_[EXCL]), play=cp, cleaned=cc, expected=model[1])
    try:
        digest = pv.hash_play(pv.serialize_play(cleaned))
    except UnicodeEncodeError:
        # a string that cannot be encoded (lone surrogate): no digest exists, the play cannot be verified
        return ("err", "unencodable")
    return ("ok", digest, cc, model[0])


_SPECIAL = re.compile(r"['\"\\]|\), \(|\]\)|ordereddict\(")


def _has_special(c):
    if c[0] == "s":
        return bool(_SPECIAL.search(c[1]))
    if c[0] == "m":
        return any(_has_special(k) or _has_special(v) for k, v in c[1])
    if c[0] == "l":
        return any(_has_special(x) for x in c[1])
    return False


def check_pair(case):
    """case["bs"] = several independent edits of the same play case["a"]"""
    if "bs" not in case:
        return _check_pair1(case)
    labels, keys, nt = [], [], False
    for variant in case["bs"]:
        one = dict((k, v) for k, v in case.items() if k != "bs")
        one.update(variant)
        r = _check_pair1(one)
        labels += r["labels"]
        nt = nt or r["nontrivial"]
        keys.append(r.get("key"))
    return {"nontrivial": nt, "labels": labels, "key": keys}


def _check_pair1(case):
    """digest injectivity / invariance for one pair of plays (case["b"] may be absent: exclusion model only)"""
    pv = _pv()
    raw = bool(case.get("raw"))
    labels = ["mode=" + ("yaml" if (case.get("mode") == "yaml" or "yaml_a" in case) else "py")]
    if case.get("edit"):
        labels.append("edit=" + case["edit"])
    if case.get("region"):
        labels.append("region=" + case["region"])
    pa, ta = _materialise(case, "a")
    if pa is None:
        return {"nontrivial": False, "labels": labels + ["yaml-a-unloadable"]}
    oa = observe(pa, raw)
    labels.append("a:" + oa[0] + "/" + oa[-1].split(" ")[0].rstrip(":"))
    if "b" not in case and "yaml_b" not in case:
        nt = oa[0] == "err" or (oa[0] == "ok" and oa[2] != canon(pa))
        if oa[0] == "ok":
            labels.append("excluded=%d" % (len(str(pa["vars"][EXCL]).split(","))))
        return {"nontrivial": nt, "labels": labels, "key": [canon(pa)]}
    pb, tb = _materialise(case, "b")
    if pb is None:
        return {"nontrivial": False, "labels": labels + ["yaml-b-unloadable"]}
    ob = observe(pb, raw)
    labels.append("b:" + ob[0] + "/" + ob[-1].split(" ")[0].rstrip(":"))
    if oa[0] != "ok" or ob[0] != "ok":
        return {"nontrivial": False, "labels": labels}
    da, ca = oa[1], oa[2]
    db, cb = ob[1], ob[2]
    if not (isinstance(da, bytes) and len(da) == 32 and isinstance(db, bytes) and len(db) == 32):
        raise Violation("hash_play did not return a 32-byte SHA-256 digest", a=repr(da), b=repr(db))
    det = {"yaml_a": ta, "yaml_b": tb} if ta is not None else {}
    if ca != cb and da == db:
        raise Violation("two plays that differ outside the excluded elements have the same digest "
                        "(serialised: %r)" % pv.serialize_play(pv.exclude_dynamic_elements(pa) if not raw else pa)[:600],
                        cleaned_a=ca, cleaned_b=cb, digest=da.hex(), **det)
    if ca == cb and da != db:
        raise Violation("the digest changed although nothing outside the excluded elements changed",
                        cleaned=ca, digest_a=da.hex(), digest_b=db.hex(), **det)
    if ca == cb:
        labels.append("same-cleaned" + ("/identical-plays" if canon(pa) == canon(pb) else "/excluded-part-differs"))
        return {"nontrivial": False, "labels": labels}
    special = _has_special(ca) or _has_special(cb)
    labels.append("differ-outside" + ("/special-string" if special else "/plain"))
    if case.get("edit") == "near":
        labels.append("near/" + _near_class(ca, cb))
    return {"nontrivial": special, "labels": labels, "key": [ca, cb]}


def _first_diff(a, b):
    """the first pair of sub-forms in which two canonical forms differ (parallel walk)"""
    if a == b:
        return None
    if a[0] != b[0] or a[0] not in ("m", "l") or len(a[1]) != len(b[1]):
        return (a, b)
    for x, y in zip(a[1], b[1]):
        for u, v in (zip(x, y) if a[0] == "m" else [(x, y)]):
            d = _first_diff(u, v)
            if d is not None:
                return d
    return (a, b)


def _near_class(ca, cb):
    """how close the two values are that a 'near' edit produced (label only)"""
    x, y = _first_diff(ca, cb)
    if x[0] == "f" and y[0] == "f":
        fx, fy = float(x[1]), float(y[1])
        if fx == fy:
            return "float/zero-sign"
        if math.isinf(fx) or math.isinf(fy):
            return "float/inf-vs-max"
        d = 0
        for d in range(17, -1, -1):
            if d and "%.*e" % (d - 1, fx) == "%.*e" % (d - 1, fy):
                break
        return "float/agree-in-%s-digits" % ("16+" if d >= 16 else "12-15" if d >= 12 else "6-11" if d >= 6 else "0-5")
    if x[0] == "i" and y[0] == "i":
        big = min(abs(int(x[1])), abs(int(y[1]))) >= 2 ** 53
        return "int/" + ("beyond-2**53" if big else "small")
    if x[0] == "s" and y[0] == "s":
        def lines(t):       # every line end -> LF
            return "\n".join(re.split(u"\r\n|[\n\r\x0b\x0c\x1c\x1d\x1e\x85\u2028\u2029]", t))
        return "str/" + ("case" if x[1].lower() == y[1].lower() else "composition" if
                         unicodedata.normalize("NFC", x[1]) == unicodedata.normalize("NFC", y[1]) else
                         "line-end-kind" if lines(x[1]) == lines(y[1]) else
                         "line-end-or-blank-at-the-end" if x[1].strip() == y[1].strip() else
                         "blank-kind-or-run" if x[1].split() == y[1].split() else "trailing")
    return "other"


# ---------------------------------------------------------------------------------------------
# generators
# ---------------------------------------------------------------------------------------------

# every character (sequence) at which str.splitlines() ends a line, and the blanks
_LINE_BOUNDS = ["\n", "\r", "\r\n", "\x0b", "\x0c", "\x1c", "\x1d", "\x1e", u"\x85", u"\u2028", u"\u2029"]
_BLANKS = [" ", "\t", u"\u00a0", u"\u3000", u"\u200b"]
_WS_SET = frozenset("".join(_LINE_BOUNDS + _BLANKS))

FRAGS = ["a", "b", "k", "x", "y", "1", "0", "True", "None", " ", "'", "'", '"', '"', "\\", "\\", "\n", "\t",
         u"\u200b", u"\u200c", u"\u200d", "\r", "\x00", "\x1b", "\x7f", u"\x85", u"\u2028", "\\n", "\\t", "\\'", '\\"',
         "\\\\", "\\u200b", "', '", "', '", "'), ('", "')])", "', ", "('", "ordereddict([", "ordereddict()", "[", "]",
         ", ", ",", "/", u"\xe9", u"\u4e2d", u"\U0001F600", ": ", "#", "- ", "{{ x }}",
         u"\ud83d", u"\udc80",      # lone surrogates: YAML escapes such as "\ud83d" load as such strings
         "\r\n", "\x0c", u"\u2029", "\n"]   # more of the characters str.splitlines() / a text-mode read treat as line ends

_plain_text = st.text("abkxyz01_", min_size=1, max_size=4)
_special_text = st.builds("".join, st.lists(st.sampled_from(FRAGS), min_size=0, max_size=5))
_quoty_text = st.sampled_from(["a'", "it's", "'", "x'y", "''", "k'", "'b", 'a"', '"', 'say "x"', "b'\"", "a\\", "\\'"])
# text of several lines / words (plays embed scripts and configuration files): 1-3 short words, each followed by a line
# end or a blank of any kind (LF twice as likely as each other one), the last one present or not
_lines_text = st.builds(lambda parts, tail: "".join(w + sep for w, sep in parts)[:None if tail else -1] if parts else "",
                        st.lists(st.tuples(st.sampled_from(["a", "b", "Via: b", "x y", "", "k"]),
                                           st.sampled_from(_LINE_BOUNDS + ["\n"] + _BLANKS[:3])), min_size=1, max_size=3),
                        st.booleans())
_any_text = st.one_of(_plain_text, _special_text, _quoty_text, _special_text, st.text(max_size=3), _lines_text,
                      st.sampled_from(["1", "1.0", "True", "true", "None", "null", "", "[]", "ordereddict()", "0o17"]))
_style = st.sampled_from(["d", "d", "s", "p", "p", "l"])

_str_node = st.builds(lambda t, q: {"s": t, "q": q}, _any_text, _style)
# numbers at every precision / magnitude: the digest has to tell apart values that differ in their last digit only
_big_int = st.one_of(
    st.builds(lambda k, d, sg: sg * (2 ** k + d), st.sampled_from([31, 32, 53, 63, 64, 100, 128]), st.integers(-2, 2),
              st.sampled_from([1, 1, -1])),
    st.builds(lambda k, d: 10 ** k + d, st.integers(9, 40), st.integers(-1, 1)),
    st.integers(1, 40).flatmap(lambda n: st.integers(10 ** (n - 1), 10 ** n - 1)))
_int_node = st.builds(lambda v, r: {"i": v, "r": r},
                      st.one_of(st.sampled_from([0, 1, -1, 2, 10, 15, 16, 255, 1000, 10 ** 22]), st.integers(-1000, 100000),
                                st.integers(-1000, 100000), _big_int),
                      st.sampled_from(["d", "d", "x", "o", "u"]))


def _digits_float(digits, mantissa, exp10, neg):
    """the double nearest to a decimal number with exactly `digits` significant digits"""
    m = 10 ** (digits - 1) + mantissa % (9 * 10 ** (digits - 1))
    return repr(float("%s%de%d" % ("-" if neg else "", m, exp10 - digits + 1)))


_precise_float = st.one_of(
    st.builds(_digits_float, st.integers(1, 17), st.integers(0, 10 ** 17), st.integers(-12, 14), st.booleans()),
    st.builds(_digits_float, st.integers(13, 17), st.integers(0, 10 ** 17), st.integers(-3, 3), st.just(False)),
    st.builds(lambda a, b: repr(a / b), st.integers(1, 1000), st.sampled_from([3, 7, 9, 10, 11, 13, 100, 1000])),
    st.builds(lambda a, b: repr(a / 10.0 + b / 10.0), st.integers(0, 20), st.integers(0, 20)),     # 0.1 + 0.2
    st.sampled_from([5e-324, 2.2250738585072014e-308, 1.7976931348623157e+308, 2.0 ** 53, 2.0 ** 53 + 2, 1e22, 1e23,
                     2.0 ** 63, 2.0 ** 64, 123456789012.0, 1234567890123.0, 1e15, 1e16 - 2, 4.35, 2.675]).map(repr))
_float_node = st.one_of(
    st.sampled_from(["1.0", "0.0", "-0.0", "1.5", "1e+16", "1.5e-07", "nan", "inf", "-inf", "1000.0", "0.1", "15.0"]),
    st.floats(allow_nan=False, allow_infinity=False, width=64).map(repr),
    _precise_float).map(lambda t: {"f": t})
_bool_node = st.builds(lambda b, r: {"b": b, "r": r}, st.booleans(), st.integers(0, 2))
_null_node = st.builds(lambda r: {"n": r}, st.integers(0, 3))
_scalar = st.one_of(_str_node, _str_node, _str_node, _int_node, _float_node, _bool_node, _null_node)
_key_float = st.sampled_from(["1.0", "1.5", "0.5", "-2.0", "15.0"]).map(lambda t: {"f": t})
_key = st.one_of(st.builds(lambda t, q: {"s": t, "q": q}, st.one_of(_plain_text, _plain_text, _any_text),
                           st.sampled_from(["d", "s", "p", "p"])),
                 st.builds(lambda t, q: {"s": t, "q": q}, _plain_text, st.sampled_from(["d", "s", "p", "p"])),
                 _int_node, _key_float, _bool_node, _null_node)
_plain_key = st.builds(lambda t: {"s": t, "q": "p"}, _plain_text)


def _children(ch):
    return st.one_of(st.lists(ch, max_size=3).map(lambda xs: {"l": xs}),
                     st.lists(st.tuples(_key, ch), max_size=3).map(lambda kv: {"m": [[k, v] for k, v in kv]}))


_value = st.recursive(_scalar, _children, max_leaves=6)

_ADDRESSABLE = re.compile(r"^[^/,\s]+( [^/,\s]+)*$")


@st.composite
def _play(draw, invalid_requests=False, signed=False):
    """-> (tree, list of excluded paths: [i] top-level item, [i, j] child item of top-level item i)"""
    items = []
    if draw(st.integers(0, 9)) > 0:
        items.append([S("name", "p"), draw(_str_node)])
    hosts = None
    if draw(st.integers(0, 9)) > 0:
        hosts = draw(st.one_of(_str_node, _str_node, st.lists(_str_node, max_size=3).map(lambda xs: {"l": xs}),
                               st.lists(st.tuples(_key, _value), min_size=1, max_size=3).map(
                                   lambda kv: {"m": [[k, v] for k, v in kv]})))
        items.append([S("hosts", "p"), hosts])
    children = [[draw(_key), draw(_value)] for _ in range(draw(st.integers(0, 3)))]
    if signed or draw(st.booleans()):
        sig = base64.b64encode(draw(st.binary(min_size=1, max_size=12)))
        children.append([S(SIG, "p"), draw(st.sampled_from([{"s": sig.decode("ascii"), "q": "d"}, {"y": sig.hex()}]))])
    tasks = draw(st.lists(st.lists(st.tuples(_key, _value), min_size=1, max_size=3).map(
        lambda kv: {"m": [[k, v] for k, v in kv]}), max_size=3))
    items.append([S("tasks", "p"), {"l": tasks}])
    for _ in range(draw(st.integers(0, 2))):
        items.append([draw(_key), draw(_value)])
    if invalid_requests and draw(st.booleans()):
        # another top-level mapping with addressable children (environment, module_defaults, ...): a
        # two-segment request naming one of its existing children must be refused like any other label
        items.append([S(draw(st.sampled_from(["environment", "module_defaults", "env"])), "p"),
                      {"m": [[S(k, "p"), draw(_value)] for k in draw(st.lists(st.sampled_from(
                          ["LD_PRELOAD", "PATH", "a", "uri"]), min_size=1, max_size=2, unique=True))]}])
    # exclusion list
    children.append([S(EXCL, "p"), S("")])
    children = norm({"m": children})["m"]
    children = draw(st.permutations(children))
    items.append([S("vars", "p"), {"m": [list(c) for c in children]}])
    items = norm({"m": items})["m"]
    items = [list(x) for x in draw(st.permutations(items))]
    tree = {"m": items}
    top = dict((k["s"], i) for i, (k, v) in enumerate(items) if "s" in k)
    vi = top["vars"]
    vch = items[vi][1]["m"]
    cand = []      # (request text, path)
    if "hosts" in top:
        cand.append(("/hosts", [top["hosts"]]))
        hv = items[top["hosts"]][1]
        if "m" in hv:
            for j, (k, v) in enumerate(hv["m"]):
                if "s" in k and _ADDRESSABLE.match(k["s"]):
                    cand.append(("/hosts/" + k["s"], [top["hosts"], j]))
    for j, (k, v) in enumerate(vch):
        if "s" in k and _ADDRESSABLE.match(k["s"]):
            cand.append(("/vars/" + k["s"], [vi, j]))
    style = draw(st.integers(0, 9))
    chosen = []
    if signed:
        chosen = [c for c in cand if c[0] == "/vars/" + SIG]
        chosen += [c for c in cand if c[0] == "/hosts" and style > 2]
    elif style <= 3:
        chosen = [c for c in cand if c[0] in ("/hosts", "/vars/" + SIG)]
    elif style == 4:
        chosen = [("/vars", [vi])] + [c for c in cand if c[0] == "/hosts"]
    else:
        chosen = [c for c in cand if draw(st.booleans())]
    tops = set(c[0] for c in chosen)
    chosen = [c for c in chosen if not (c[0].count("/") == 2 and "/" + c[0].split("/")[1] in tops)]
    if not chosen:
        chosen = [c for c in cand if c[0] != "/vars/" + EXCL][:1] or cand[:1]
    chosen = list(draw(st.permutations(chosen)))
    reqs = [c[0] for c in chosen]
    if invalid_requests:
        child_keys = [k["s"] for k, v in vch if "s" in k and _ADDRESSABLE.match(k["s"])]
        other_top = [k["s"] for k, v in items if "s" in k and k["s"] not in LABELS and _ADDRESSABLE.match(k["s"])]
        bad = draw(st.sampled_from(["missing-child", "child-of-scalar", "deeper", "other-label", "none", "missing-top",
                                    "near-label", "int-child", "missing-child", "deeper", "other-label",
                                    "other-label-child", "other-label-child"]))
        r = None
        other_children = [(k["s"], ck["s"]) for k, v in items if "s" in k and k["s"] not in LABELS
                          and _ADDRESSABLE.match(k["s"]) and "m" in v
                          for ck, cv in v["m"] if "s" in ck and _ADDRESSABLE.match(ck["s"])]
        if bad == "other-label-child" and other_children:
            r = "/%s/%s" % draw(st.sampled_from(other_children))
        elif bad == "other-label" and other_top:
            r = "/" + draw(st.sampled_from(other_top)) + draw(st.sampled_from(["", "", "/x"]))
        elif bad == "deeper" and child_keys:
            r = "/vars/" + draw(st.sampled_from(child_keys)) + "/" + draw(st.sampled_from(["x", "0", EXCL]))
        elif bad == "missing-child":
            r = "/" + draw(st.sampled_from(LABELS)) + "/" + draw(st.sampled_from(["nope", "missing", "Insights_signature", "0"]))
            if r.split("/")[2] in child_keys or ("/" + r.split("/")[1]) in reqs:
                r = None
        elif bad == "missing-top":
            missing = [l for l in LABELS if l not in top]
            if missing:
                r = "/" + missing[0]
        elif bad == "near-label":
            r = draw(st.sampled_from(["/Hosts", "/VARS", "/var", "/varsx", "/host", "/hosts_", "/vars.x", "/tasks/0", "/name"]))
            if r[1:] in top and r[1:] in LABELS:
                r = None
        elif bad == "child-of-scalar" and "hosts" in top and "m" not in items[top["hosts"]][1]:
            reqs = [q for q in reqs if q != "/hosts"]
            r = "/hosts/" + draw(st.sampled_from(["0", "x", "all"]))
        elif bad == "int-child":
            ints = [k["i"] for k, v in vch if "i" in k]
            if ints and "/vars" not in reqs:
                r = "/vars/%d" % ints[0]
                if str(ints[0]) in child_keys:
                    r = None
        if r is not None:
            reqs.insert(draw(st.integers(0, len(reqs))), r)
    ei = [j for j, (k, v) in enumerate(vch) if k.get("s") == EXCL][0]
    vch[ei][1] = S(",".join(reqs), draw(st.sampled_from(["d", "s", "p"])))
    return tree, [c[1] for c in chosen]


def _slots(n, out, depth=0):
    if "m" in n:
        for pair in n["m"]:
            out.append((pair, 0, "k"))
            out.append((pair, 1, "v"))
            _slots(pair[1], out, depth + 1)
    elif "l" in n:
        for i, x in enumerate(n["l"]):
            out.append((n["l"], i, "e"))
            _slots(x, out, depth + 1)
    return out


def _containers(n, out):
    if "m" in n:
        out.append(n)
        for pair in n["m"]:
            _containers(pair[1], out)
    elif "l" in n:
        out.append(n)
        for x in n["l"]:
            _containers(x, out)
    return out


_ESCAPES = [("\n", "\\n"), ("\t", "\\t"), (u"\u200b", "\\u200b"), (u"\u200c", "\\u200c"), (u"\u200d", "\\u200d"),
            ("\\", "\\\\"), ("'", "\\'"), ('"', '\\"'), ("\r", "\\r"), ("\x00", "\\x00")]

# (Hypothesis favours the front of a sampled_from list: the crafted edits come first)
EDITS = ["splice-key", "splice-item", "escape", "type", "near", "key-type", "renest-in", "renest-out", "wrap", "unwrap",
         "splice-key", "splice-item", "escape", "type", "near", "reorder", "scalar", "key-rename", "insert", "delete",
         "split", "merge", "suffix-move", "scalar", "none"]


def _ulps(f, k):
    for _ in range(abs(k)):
        f = math.nextafter(f, math.inf if k > 0 else -math.inf)
    return f


def _near(draw, n):
    """a node of the same type whose value is as close to n's as the type allows (None: no such value):
    the next representable doubles, the value rounded to fewer significant digits, a relative change of
    1e-9 .. 1e-16, the other zero; an integer changed in one (low or high) bit / its last digit / replaced by the
    nearest double; a string changed in the case / the Unicode composition of one character or by a trailing blank"""
    if "f" in n:
        f = float(n["f"])
        if f != f:
            return None
        if math.isinf(f):
            return {"f": repr(math.copysign(1.7976931348623157e+308, f))}
        how = draw(st.sampled_from(["ulp", "ulp", "ulps", "round", "round", "rel", "zero"]))
        g = f
        if how == "ulp":
            g = _ulps(f, draw(st.sampled_from([1, -1])))
        elif how == "ulps":
            g = _ulps(f, draw(st.sampled_from([2, -2, 3, -5, 16, -64, 200])))
        elif how == "round":
            g = float("%.*g" % (draw(st.integers(1, 16)), f))
        elif how == "rel":
            g = f * (1.0 + draw(st.sampled_from([1, -1])) * 10.0 ** -draw(st.integers(9, 16)))
        elif f == 0.0:
            g = -f
        if repr(g) == repr(f) or g != g:
            g = _ulps(f, 1)
        return {"f": repr(g)}
    if "i" in n:
        v = int(n["i"])
        how = draw(st.sampled_from(["one", "bit", "digit", "double", "bit"]))
        w = v
        if how == "bit":
            w = v ^ (1 << draw(st.integers(0, max(v.bit_length(), 1))))
        elif how == "digit":
            w = v - v % 10 + (v % 10 + draw(st.integers(1, 9))) % 10
        elif how == "double" and abs(v) < 10 ** 300:
            w = int(float(v))
        if w == v:
            w = v + draw(st.sampled_from([1, -1]))
        return {"i": w, "r": n.get("r", "d")}
    if "s" in n:
        t = n["s"]
        opts = []
        cased = [i for i, ch in enumerate(t) if ch.swapcase() != ch and len(ch.swapcase()) == 1]
        if cased:
            i = _pick(draw, cased)
            opts.append(t[:i] + t[i].swapcase() + t[i + 1:])
        for form in ("NFD", "NFC"):
            u = unicodedata.normalize(form, t)
            if u != t:
                opts.append(u)
        # blanks and line ends: the same text with ANOTHER character of the class at one place (LF vs CR, CR LF, VT, FF,
        # FS / GS / RS, NEL, U+2028, U+2029; blank vs tab / NBSP / ...), with a run of two instead of one, with one
        # more / one less of them at either end - what splitlines(), universal-newline reads, strip() or
        # " ".join(s.split()) identify
        ws = [i for i, ch in enumerate(t) if ch in _WS_SET]
        if ws:
            i = _pick(draw, ws)
            j = i + 1
            if t[i] == "\r" and t[i + 1:i + 2] == "\n":
                j = i + 2
            elif t[i] == "\n" and i and t[i - 1] == "\r":
                i, j = i - 1, i + 1
            old = t[i:j]
            pool = [x for x in ((_LINE_BOUNDS + _BLANKS) if old in _LINE_BOUNDS else (_BLANKS + _LINE_BOUNDS)) if x != old]
            swapped = t[:i] + draw(st.sampled_from(pool)) + t[j:]
            opts.extend([swapped, swapped, t[:i] + old + old + t[j:]])
        end = draw(st.sampled_from(_LINE_BOUNDS + _BLANKS + ["\x00"]))
        opts.append(t + end)
        opts.append(end + t)
        if t[-1:] in _WS_SET:
            opts.append(t[:-2] if t[-2:] == "\r\n" and draw(st.booleans()) else t[:-1])
        if t[:1] in _WS_SET:
            opts.append(t[1:])
        opts = [x for x in opts if x != t] or [t + " "]
        return {"s": _pick(draw, opts), "q": "d"}
    return None


def _pick(draw, xs):
    return xs[draw(st.integers(0, len(xs) - 1))]


def _type_change(draw, n, role):
    """a node of another type whose serialised text is as close as possible"""
    if "s" in n:
        t = n["s"]
        opts = []
        if re.match(r"^-?[0-9]{1,18}$", t):
            opts.append({"i": int(t)})
        if re.match(r"^-?[0-9]+\.[0-9]+$", t) and repr(float(t)) == t:
            opts.append({"f": t})
        if t in ("True", "False"):
            opts.append({"b": t == "True"})
        if t == "None":
            opts.append({"n": 0})
        if role != "k":
            if t == "":
                opts += [{"n": 0}, {"l": []}, {"m": []}]
            if t == "[]":
                opts.append({"l": []})
            if t == "ordereddict()":
                opts.append({"m": []})
            opts.append({"l": [n]})
        if not opts:
            opts = [{"i": 1}, {"b": True}, {"n": 0}]
        return _pick(draw, opts)
    if "i" in n:
        v = int(n["i"])
        opts = [{"s": str(v), "q": "d"}, {"f": repr(float(v))} if abs(v) < 2 ** 53 else {"s": str(v), "q": "s"}]
        if v in (0, 1):
            opts.append({"b": bool(v)})
        return _pick(draw, opts)
    if "f" in n:
        f = float(n["f"])
        opts = [{"s": n["f"], "q": "d"}]
        if f == f and abs(f) < 2 ** 53 and f == int(f):
            opts.append({"i": int(f)})
        return _pick(draw, opts)
    if "b" in n:
        return _pick(draw, [{"s": str(bool(n["b"])), "q": "d"}, {"i": int(bool(n["b"]))}, {"s": str(bool(n["b"])).lower(), "q": "d"},
                            {"f": repr(float(n["b"]))}])
    if "n" in n:
        return _pick(draw, [{"s": "None", "q": "d"}, {"s": "", "q": "d"}, {"s": "null", "q": "d"}] +
                     ([{"l": []}, {"m": []}] if role != "k" else []))
    if "y" in n:
        return {"s": repr(bytes.fromhex(n["y"])), "q": "d"}
    # containers
    if not (n.get("m") or n.get("l")):
        return _pick(draw, [{"s": mimic(n), "q": "d"}, {"l": []} if "m" in n else {"m": []}, {"n": 0}, {"s": "", "q": "d"}])
    opts = [{"s": mimic(n), "q": "d"}]
    if "l" in n and len(n["l"]) % 2 == 0 and all("m" not in x and "l" not in x for x in n["l"]):
        xs = n["l"]
        opts.append(norm({"m": [[xs[i], xs[i + 1]] for i in range(0, len(xs), 2)]}))
    if "m" in n:
        opts.append({"l": [x for kv in n["m"] for x in kv]})
        opts.append({"l": [{"l": [k, v]} for k, v in n["m"]]})
    return _pick(draw, opts)


def _apply_edit(draw, tree, kind, region_paths):
    """returns the edited deep copy (possibly equal to tree when the edit is not applicable)"""
    t = copy.deepcopy(tree)
    root = t
    if region_paths:
        # restrict to the value sub-trees of the excluded items
        path = _pick(draw, region_paths)
        pair = t["m"][path[0]]
        if len(path) == 2:
            pair = pair[1]["m"][path[1]]
        slots = [(pair, 1, "v")] + _slots(pair[1], [])
        conts = _containers(pair[1], [])
    else:
        slots = _slots(t, [])
        conts = _containers(t, [])
    sslots = [s for s in slots if "s" in s[0][s[1]]]
    if kind == "insert" and not conts:
        kind = "scalar"

    def setslot(s, node):
        s[0][s[1]] = node

    if kind == "scalar":
        s = _pick(draw, slots)
        n = s[0][s[1]]
        if "s" in n:
            how = draw(st.integers(0, 4))
            txt = n["s"]
            if how == 0:
                txt = txt + draw(st.sampled_from(FRAGS))
            elif how == 1:
                txt = draw(st.sampled_from(FRAGS)) + txt
            elif how == 2 and txt:
                i = draw(st.integers(0, len(txt) - 1))
                txt = txt[:i] + txt[i + 1:]
            elif how == 3 and txt:
                i = draw(st.integers(0, len(txt) - 1))
                txt = txt[:i] + draw(st.sampled_from(FRAGS)) + txt[i + 1:]
            else:
                txt = draw(_any_text)
            setslot(s, {"s": txt, "q": n.get("q", "d")})
        elif "i" in n:
            setslot(s, {"i": n["i"] + draw(st.sampled_from([1, -1, 10]))})
        elif "f" in n:
            setslot(s, draw(_float_node))
        elif "b" in n:
            setslot(s, {"b": not n["b"]})
        else:
            setslot(s, draw(_value if s[2] != "k" else _key))
    elif kind == "near":
        # numbers first: that is where "close" has a meaning the other edits do not reach
        cand = ([s for s in slots if "f" in s[0][s[1]] and s[0][s[1]]["f"] != "nan"] * 3 +
                [s for s in slots if "i" in s[0][s[1]]] * 2) or sslots
        if cand and not (cand is sslots) and sslots and draw(st.integers(0, 2)) == 0:
            cand = sslots
        if cand:
            s = _pick(draw, cand)
            node = _near(draw, s[0][s[1]])
            if node is not None:
                setslot(s, node)
    elif kind == "type" or kind == "key-type":
        cand = [s for s in slots if (s[2] == "k") == (kind == "key-type")] or slots
        s = _pick(draw, cand)
        setslot(s, _type_change(draw, s[0][s[1]], s[2]))
    elif kind == "escape":
        cand = [s for s in sslots if any(a in s[0][s[1]]["s"] for a, b in _ESCAPES)]
        if cand:
            s = _pick(draw, cand)
            txt = s[0][s[1]]["s"]
            pairs = [(a, b) for a, b in _ESCAPES if a in txt] + [(b, a) for a, b in _ESCAPES if b in txt]
            a, b = _pick(draw, pairs)
            occ = [m.start() for m in re.finditer(re.escape(a), txt)]
            i = _pick(draw, occ)
            if draw(st.booleans()):
                txt = txt[:i] + b + txt[i + len(a):]
            else:
                txt = txt.replace(a, b)
            setslot(s, {"s": txt, "q": "d"})
    elif kind == "key-rename":
        cand = [s for s in slots if s[2] == "k"]
        if cand:
            s = _pick(draw, cand)
            n = s[0][s[1]]
            if "s" in n and draw(st.booleans()):
                setslot(s, {"s": n["s"] + draw(st.sampled_from(["x", "'", " ", "_", "\\", '"', "\n"])), "q": "d"})
            else:
                setslot(s, draw(_key))
    elif kind == "insert":
        c = _pick(draw, conts)
        if "m" in c:
            c["m"].insert(draw(st.integers(0, len(c["m"]))), [draw(_key), draw(_value)])
        else:
            c["l"].insert(draw(st.integers(0, len(c["l"]))), draw(_value))
    elif kind in ("delete", "reorder", "renest-in", "renest-out", "merge", "splice-key", "splice-item", "suffix-move",
                  "split", "unwrap"):
        _structural(draw, kind, conts, slots, setslot)
    elif kind == "wrap":
        cand = [s for s in slots if s[2] != "k"]
        if cand:
            s = _pick(draw, cand)
            n = s[0][s[1]]
            setslot(s, {"l": [n]} if draw(st.booleans()) else {"m": [[draw(_plain_key), n]]})
    return norm(root)


def _structural(draw, kind, conts, slots, setslot):
    if kind == "delete":
        cand = [c for c in conts if (c.get("m") or c.get("l"))]
        if cand:
            c = _pick(draw, cand)
            xs = c.get("m") or c.get("l")
            del xs[draw(st.integers(0, len(xs) - 1))]
    elif kind == "reorder":
        cand = [c for c in conts if len(c.get("m") or c.get("l") or []) >= 2]
        if cand:
            c = _pick(draw, cand)
            xs = c.get("m") or c.get("l")
            i = draw(st.integers(0, len(xs) - 2))
            xs[i], xs[i + 1] = xs[i + 1], xs[i]
    elif kind == "unwrap":
        cand = [s for s in slots if s[2] != "k" and (len(s[0][s[1]].get("l") or []) == 1 or len(s[0][s[1]].get("m") or []) == 1)]
        if cand:
            s = _pick(draw, cand)
            n = s[0][s[1]]
            setslot(s, n["l"][0] if "l" in n else n["m"][0][1])
    elif kind == "renest-in":
        # move the neighbour that follows a nested container of the same kind into that container
        cand = []
        for c in conts:
            if "m" in c:
                cand += [(c, i) for i in range(len(c["m"]) - 1) if "m" in c["m"][i][1]]
            else:
                cand += [(c, i) for i in range(len(c["l"]) - 1) if "l" in c["l"][i]]
        head = []       # ... or the neighbour that precedes it, to the front (moves the opening delimiter)
        for c in conts:
            if "m" in c:
                head += [(c, i) for i in range(1, len(c["m"])) if "m" in c["m"][i][1]]
            else:
                head += [(c, i) for i in range(1, len(c["l"])) if "l" in c["l"][i]]
        if head and (not cand or draw(st.booleans())):
            c, i = _pick(draw, head)
            if "m" in c:
                c["m"][i][1]["m"].insert(0, c["m"].pop(i - 1))
            else:
                c["l"][i]["l"].insert(0, c["l"].pop(i - 1))
        elif cand:
            c, i = _pick(draw, cand)
            if "m" in c:
                c["m"][i][1]["m"].append(c["m"].pop(i + 1))
            else:
                c["l"][i]["l"].append(c["l"].pop(i + 1))
    elif kind == "renest-out":
        cand = []
        for c in conts:
            if "m" in c:
                cand += [(c, i) for i in range(len(c["m"])) if c["m"][i][1].get("m")]
            else:
                cand += [(c, i) for i in range(len(c["l"])) if c["l"][i].get("l")]
        if cand:
            c, i = _pick(draw, cand)
            if draw(st.booleans()):
                if "m" in c:
                    c["m"].insert(i + 1, c["m"][i][1]["m"].pop())
                else:
                    c["l"].insert(i + 1, c["l"][i]["l"].pop())
            else:           # first element out, in front of the nested container
                if "m" in c:
                    c["m"].insert(i, c["m"][i][1]["m"].pop(0))
                else:
                    c["l"].insert(i, c["l"][i]["l"].pop(0))
    elif kind == "split":
        def splittable(x):
            return ("s" in x and len(x["s"]) >= 2) or ("i" in x and x["i"] >= 10)
        cand = [c for c in conts if any(splittable(x) for x in (c.get("l") or []))]
        if cand:
            c = _pick(draw, cand)
            idx = [i for i, x in enumerate(c["l"]) if splittable(x)]
            i = _pick(draw, idx)
            if "i" in c["l"][i]:
                txt = str(c["l"][i]["i"])
                j = draw(st.integers(1, len(txt) - 1))
                c["l"][i:i + 1] = [{"i": int(txt[:j])}, {"i": int(txt[j:])}]
            else:
                txt = c["l"][i]["s"]
                j = draw(st.integers(1, len(txt) - 1))
                c["l"][i:i + 1] = [{"s": txt[:j], "q": "d"}, {"s": txt[j:], "q": "d"}]
    elif kind == "merge":
        cand = [(c, i) for c in conts for i in range(len(c.get("l") or []) - 1)
                if ("s" in c["l"][i] and "s" in c["l"][i + 1]) or
                ("i" in c["l"][i] and "i" in c["l"][i + 1] and c["l"][i + 1]["i"] >= 0)]
        if cand:
            c, i = _pick(draw, cand)
            if "i" in c["l"][i]:
                c["l"][i:i + 2] = [{"i": int(str(c["l"][i]["i"]) + str(c["l"][i + 1]["i"]))}]
            else:
                c["l"][i:i + 2] = [{"s": c["l"][i]["s"] + draw(st.sampled_from(["", ", ", " "])) + c["l"][i + 1]["s"], "q": "d"}]
    elif kind == "suffix-move":
        cand = [kv for c in conts for kv in (c.get("m") or []) if "s" in kv[0] and "s" in kv[1] and (kv[0]["s"] or kv[1]["s"])]
        if cand:
            kv = _pick(draw, cand)
            k, v = kv[0]["s"], kv[1]["s"]
            if k and (not v or draw(st.booleans())):
                kv[0], kv[1] = {"s": k[:-1], "q": "d"}, {"s": k[-1] + v, "q": "d"}
            else:
                kv[0], kv[1] = {"s": k + v[0], "q": "d"}, {"s": v[1:], "q": "d"}
    elif kind == "splice-key":
        # two neighbouring items -> one item whose key spells the serialised first item and the second key
        keep = ("vars", "hosts", EXCL)     # swallowing these only makes the play unverifiable
        cand = [(c, i) for c in conts for i in range(len(c.get("m") or []) - 1)
                if c["m"][i][0].get("s") not in keep and c["m"][i + 1][0].get("s") not in keep]
        if cand:
            c, i = _pick(draw, cand)
            (k1, v1), (k2, v2) = c["m"][i], c["m"][i + 1]
            how = draw(st.integers(0, 3))
            if how == 0:      # the legacy format: keys printed raw between single quotes
                text = _keytext(k1) + "', " + mimic(v1) + "), ('" + _keytext(k2)
            elif how == 1:    # keys printed like values, outer quotes of the new key supplied by the serialiser
                text = (mimic(k1) + ", " + mimic(v1) + "), (" + mimic(k2))[1:-1]
            elif how == 2:    # swallow the rest of the mapping into the key of a one-item mapping
                text = (mimic(k1) + ", " + mimic(v1) + "), (" + mimic(k2))
            else:             # key that spells a whole nested mapping
                text = _keytext(k1) + "', ordereddict([('" + _keytext(k2)
            c["m"][i:i + 2] = [[{"s": text, "q": "d"}, v2]]
    elif kind == "splice-item":
        cand = [(c, i) for c in conts for i in range(len(c.get("l") or []) - 1)]
        if cand:
            c, i = _pick(draw, cand)
            x1, x2 = c["l"][i], c["l"][i + 1]
            text = mimic(x1) + ", " + mimic(x2)
            how = draw(st.integers(0, 2))
            if how == 0 and "s" in x1 and "s" in x2:
                text = text[1:-1]
            elif how == 1 and "s" in x1 and "s" in x2:
                text = x1["s"] + "', '" + x2["s"]
            c["l"][i:i + 2] = [{"s": text, "q": "d"}]


@st.composite
def _digest_case(draw):
    tree, excluded = draw(_play())
    mode = draw(st.sampled_from(["py", "py", "yaml"]))
    bs = []
    for _ in range(3):      # three independent single edits of the same play (amortises generating the play)
        kind = draw(st.sampled_from(EDITS))
        region = draw(st.sampled_from(["any", "any", "any", "excluded"]))
        if kind == "none":
            b = copy.deepcopy(tree)
        else:
            b = _apply_edit(draw, tree, kind, excluded if region == "excluded" else None)
            if b == tree:       # the play offers no site for this edit: change a scalar instead
                kind = "scalar-fallback"
                b = _apply_edit(draw, tree, "scalar", excluded if region == "excluded" else None)
        bs.append({"b": b, "edit": kind, "region": region})
    return {"mode": mode, "a": tree, "bs": bs}


def strat_digest(tier):
    return _digest_case()


@st.composite
def _exclusion_case(draw):
    tree, excluded = draw(_play(invalid_requests=True))
    return {"mode": draw(st.sampled_from(["py", "yaml"])), "a": tree}


def strat_exclusion(tier):
    return _exclusion_case()


# ---------------------------------------------------------------------------------------------
# exhaustive bounded universe
# ---------------------------------------------------------------------------------------------

_XFR = ["a", "'", '"', "\\", "', '", "\n", "n", ", ", "]", "["]


def _universe(tier):
    """yield trees of small plays; every one is a mapping (a cleaned play always is)"""
    k3 = 3 if tier == "quick" else 4
    strings = []
    seen = set()
    for n in range(0, k3 + 1):
        for combo in itertools.product(_XFR, repeat=n):
            s = "".join(combo)
            if s not in seen:
                seen.add(s)
                strings.append(s)
    short = [s for s in strings if len(s) <= 2][:40]
    atoms = [{"i": 1}, {"i": 0}, {"i": 11}, {"i": 10}, {"i": -1}, {"b": True}, {"b": False}, {"n": 0}, {"f": "1.0"},
             {"f": "0.0"}, {"f": "11.0"}, {"l": []}, {"m": []}, S("it's"), S("'b"), S('a"b'), S("a'\""),
             S("1"), S("0"), S("True"), S("None"), S("1.0"), S("[]"), S("ordereddict()"), S(""), S("a"), S("'"), S('"'),
             S("\\"), S("a', 'a"), S("a'), ('a"), S("'a'"), S("\\'"), S("\\n"), S("\n"), S("\t"), S("\\t"),
             S(u"\u200b"), S("\\u200b"), S("a'"), S("a\""), S("'a"), S("', '"), S("a, a"), S("1, 1"), S("[1]"),
             S(u"a\ud83d"), S(u"\udc80"), S(u"\ud83da"), S(u"a\udc80")]     # lone surrogates (no digest exists)
    values = [S(s) for s in strings] + atoms
    for v in values:                                   # every value under one key
        yield {"m": [[S("k"), v]]}
        yield {"m": [[S("k"), {"l": [v]}]]}            # ... and as the only element of a list
    for x, y in itertools.product(atoms, repeat=2):    # lists and nestings of two atoms
        yield {"m": [[S("k"), {"l": [x, y]}]]}
        yield {"m": [[S("k"), {"l": [{"l": [x]}, y]}]]}
        yield {"m": [[S("k"), {"l": [x, {"l": [y]}]}]]}
        yield {"m": [[S("k"), {"l": [{"l": [x, y]}]}]]}
        yield {"m": [[S("k"), {"l": [{"l": [x]}, {"l": [y]}]}]]}
    keys = [S("a"), S("1"), {"i": 1}, S("True"), {"b": True}, S("None"), {"n": 0}, S("1.0"), {"f": "1.0"}, S(""), S("'"),
            S('"'), S("\\"), S("a', 'a"), S("a', 1), ('a"), S("a', 'a'), ('a"), S("a'"), S("\n"), S("\\n"),
            S("a', ordereddict([('a"), S("a', ['a"), S("'a'"), {"i": 0}, {"b": False}, S("k")]
    vals = [S("a"), {"i": 1}, S("1"), {"b": True}, {"n": 0}, S("'"), S("a', 'a"), {"l": []}, {"m": []}, {"l": [S("a")]},
            S("a'), ('a")]
    for k in keys:
        for v in vals:
            yield {"m": [[k, v]]}
            yield {"m": [[S("k"), {"m": [[k, v]]}]]}
    for (k1, k2) in itertools.product(keys, repeat=2):
        if _scalar_py(k1) == _scalar_py(k2):
            continue
        for v1, v2 in itertools.product(vals[:7], repeat=2):
            yield {"m": [[k1, v1], [k2, v2]]}
    for k1, k2 in itertools.product(keys[:8], repeat=2):    # nesting of mappings
        for v in vals[:4]:
            yield {"m": [[k1, {"m": [[k2, v]]}], [S("z"), v]]}
            yield {"m": [[k1, {"m": [[k2, v], [S("z"), v]]}]]}
            if _scalar_py(k1) != _scalar_py(k2):
                yield {"m": [[k1, {"m": []}], [k2, v], [S("z"), v]]}
    for tree in _ladders(tier):
        yield tree


def _nest(kinds, leaf):
    cur = leaf
    for k in reversed(kinds):
        cur = {"l": [cur]} if k == "l" else {"m": [[S("block", "p"), cur]]}
    return cur


def _ladders(tier):
    """one play per size along every dimension in which a play can be large - nesting depth, number of items,
    string length, precision / magnitude of a number: a rendering that stops looking beyond some size makes two
    steps of a ladder collide"""
    for d in range(1, MAX_DEPTH + 1):                  # depth: sequences, mappings, blocks ({block: [..]})
        for pattern in ("l", "m", "ml"):
            kinds = [pattern[i % len(pattern)] for i in range(d)]
            for leaf in (S("a"), S("b")):
                yield {"m": [[S("k"), _nest(kinds, leaf)]]}
    sizes = sorted(set(list(range(0, 40)) + _size_marks(1100 if tier == "quick" else 5100)))
    for n in sizes:                                    # number of items: the last / the first one differs
        a, b = S("a"), S("b")
        yield {"m": [[S("k"), {"l": [a] * n}]]}
        yield {"m": [[S("k%d" % j), a] for j in range(n)]}
        if n:
            yield {"m": [[S("k"), {"l": [a] * (n - 1) + [b]}]]}
            yield {"m": [[S("k"), {"l": [b] + [a] * (n - 1)}]]}
            yield {"m": [[S("k%d" % j), a] for j in range(n - 1)] + [[S("k%d" % (n - 1)), b]]}
            yield {"m": [[S("k%d" % j), a] for j in range(n - 1)] + [[S("K%d" % (n - 1)), a]]}
    for n in sorted(set(list(range(0, 40)) + [m for m in _size_marks(70000) if m < 1100 or tier != "quick" or m % 2 == 0])):
        yield {"m": [[S("k"), S("a" * n)]]}            # string length
        if n:
            yield {"m": [[S("k"), S("a" * (n - 1) + "b")]]}
        if 0 < n < 1100:
            yield {"m": [[S("a" * (n - 1) + "b"), S("v")]]}
    # line ends and blanks: every string of <= 3 (thorough: 4) characters over {a, each character at which
    # str.splitlines() ends a line, blank, tab, NBSP} as value, the short ones as key and as list item too - a rendering
    # that goes line by line / word by word makes two of them collide
    alphabet = ["a"] + [x for x in _LINE_BOUNDS if len(x) == 1] + [" ", "\t", u"\u00a0"]
    for n in range(1, (3 if tier == "quick" else 4) + 1):
        for combo in itertools.product(alphabet, repeat=n):
            text = "".join(combo)
            yield {"m": [[S("k"), S(text)]]}
            if n <= 2:
                yield {"m": [[S(text), S("v")]]}
                yield {"m": [[S("k"), {"l": [S(text), S("a")]}]]}
    seen = set()
    for digits in range(1, 18):                        # floats: every number of significant digits x magnitude,
        for exp10 in (-320, -300, -20, -7, -5, -4, -1, 0, 1, 5, 11, 12, 15, 16, 17, 22, 23, 300):     # and the doubles next to it
            for lead in ("1234567890123456789", "9999999999999999999", "1000000000000000001", "3000000000000000000"):
                f = float("%se%d" % (lead[:digits], exp10 - digits + 1))
                for k in (-2, -1, 0, 1, 2):
                    g = _ulps(f, k)
                    if g == g and not math.isinf(g) and repr(g) not in seen:
                        seen.add(repr(g))
                        yield {"m": [[S("k"), {"f": repr(g)}]]}
    for a in range(0, 11):
        for b in range(0, 11):                         # 0.1 + 0.2
            g = a / 10.0 + b / 10.0
            if repr(g) not in seen:
                seen.add(repr(g))
                yield {"m": [[S("k"), {"f": repr(g)}]]}
    ints = set()
    for k in range(1, 131):                            # integers around every power of two / ten
        ints.update([2 ** k - 1, 2 ** k, 2 ** k + 1, -(2 ** k) - 1, -(2 ** k), -(2 ** k) + 1])
    for k in range(1, 41):
        ints.update([10 ** k - 1, 10 ** k, 10 ** k + 1])
    for v in sorted(ints):
        yield {"m": [[S("k"), {"i": v}]]}
        g = float(v)
        if repr(g) not in seen:
            seen.add(repr(g))
            yield {"m": [[S("k"), {"f": repr(g)}]]}
        yield {"m": [[{"i": v}, S("v")]]}


def exhaustive(tier, seed, shard, nshards, stats):
    pv = _pv()
    if shard != 0:          # one global collision table: the whole universe is done by shard 0
        stats.exhaustive = True
        return
    from vp.core import case_hash
    table = {}
    n = 0
    nt = 0
    def with_self_splices():
        """the universe, plus plays crafted from the *actual* serialised text of two neighbours"""
        def ser(node):
            try:
                return pv.serialize_play(build_py(node)).decode("utf-8")
            except UnicodeEncodeError:
                return "<unencodable>"
        for tree in _universe(tier):
            yield tree
            items = tree["m"]
            if len(items) == 2:
                (k1, v1), (k2, v2) = items
                joined = ser(k1) + ", " + ser(v1) + "), (" + ser(k2)
                for text in (joined, joined[1:-1], _keytext(k1) + "', " + ser(v1) + "), ('" + _keytext(k2)):
                    yield {"m": [[S(text), v2]]}
            elif len(items) == 1 and len(items[0][1].get("l") or []) == 2:
                x, y = items[0][1]["l"]
                joined = ser(x) + ", " + ser(y)
                for text in (joined, joined[1:-1]):
                    yield {"m": [[items[0][0], {"l": [S(text)]}]]}

    for tree in with_self_splices():
        tree = norm(tree)
        obj = build_py(tree)
        c = canon(obj)
        try:
            d = pv.hash_play(pv.serialize_play(obj))
        except UnicodeEncodeError:
            n += 1                  # un-encodable string: no digest, nothing to collide with
            stats.labels["unencodable-play"] += 1
            continue
        n += 1
        key = repr(c)
        prev = table.get(d)
        if prev is None:
            table[d] = (key, tree)
            if _has_special(c):
                nt += 1
                if nt % 97 == 0:
                    stats.nontrivial.add(case_hash(c))
            continue
        if prev[0] != key:
            stats.evaluations = n
            stats.failure = ({"mode": "py", "raw": True, "a": prev[1], "b": tree, "edit": "exhaustive"},
                             "two different plays of the bounded universe have the same digest", {})
            return
    stats.evaluations = n
    stats.labels["plays"] += n
    stats.labels["distinct-plays"] += len(table)
    stats.extra["distinct_plays"] = len(table)
    stats.extra["plays_with_special_strings"] = nt
    stats.exhaustive = True


# ---------------------------------------------------------------------------------------------
# verify_play / verify with GPG replaced
# ---------------------------------------------------------------------------------------------

class _FakeResult(object):
    def __init__(self, valid):
        self.valid = valid
        self.status = "signature valid" if valid else "signature bad"

    def __bool__(self):
        return self.valid

    __nonzero__ = __bool__


class _FakeImport(object):
    count = 1


def _toy_signature(digest):
    return base64.b64encode(b"TOYSIG:" + digest.hex().encode("ascii")).decode("ascii")


# what can go wrong while the packaged revocation list is read (pkgutil.get_data -> loader.get_data: the file / the egg
# member cannot be opened or read; a loader without resource support answers None; the file is there but blank, cut
# short, or not the YAML list of one signed play)
LIST_FAULT_ERRNOS = ["EACCES", "EIO", "ENOENT", "EMFILE", "ENFILE", "EISDIR", "ESTALE", "EPERM", "ENOMEM", "EINTR"]
LIST_FAULT_TEXTS = ["", "\n", "# This file contains a list of revoked playbook signatures\n", "---\n", "--- ~\n", "...\n",
                    "[]\n", "{}\n", "- name: [unclosed\n", "\x00\x01\x02PK\x03\x04", "revoked_playbooks: []\n",
                    "- name: revocation list\n", "- name: revocation list\n  vars: {}\n  revoked_playbooks: []\n", "\t- x\n"]


def _faulty_read(fault, good):
    """the result of one faulty read of the revocation list whose intact content is `good` (returns or raises)"""
    import errno
    import os
    import zipimport
    kind = fault["kind"]
    if kind == "oserror":
        code = getattr(errno, fault["errno"])
        raise OSError(code, os.strerror(code), "/var/lib/insights/last_stable.egg/insights/revoked_playbooks.yaml")
    if kind == "oserror-plain":
        raise IOError("can't read the resource")       # an OSError without errno (zipimport raises those)
    if kind == "eof":
        raise EOFError("EOF read where not expected")      # zipimport: egg member shorter than its directory entry says
    if kind == "zipimport":
        raise zipimport.ZipImportError("bad local file header")
    if kind == "none":
        return None
    if kind == "text":
        return fault["text"].encode("utf-8")
    if kind == "cut":
        return good[:len(good) * fault["permille"] // 1000]
    raise HarnessError("unknown list fault %r" % (fault,))


class _Stub(object):
    """replaces the module attributes gnupg and pkgutil of playbook_verifier for one case"""

    def __init__(self, revocation_yaml=None, always_valid=False):
        self.calls = []
        self.revocation_yaml = revocation_yaml
        self.always_valid = always_valid
        self.fault = None       # set to a fault description: the next reads of the revocation list go wrong that way
        self.fault_at = {}      # number of the read (0, 1, ...) -> fault description
        self.reads = 0
        stub = self

        class GPG(object):
            def __init__(self, *a, **kw):
                pass

            def import_keys(self, data):
                return _FakeImport()

            def verify_data(self, fn, data):
                with open(fn, "rb") as f:
                    sig = f.read()
                stub.calls.append((sig, data))
                ok = stub.always_valid or (isinstance(data, bytes) and sig == b"TOYSIG:" + data.hex().encode("ascii"))
                return _FakeResult(ok)

        class FakeGnupg(object):
            pass

        FakeGnupg.GPG = GPG
        self.gnupg = FakeGnupg

        class FakePkgutil(object):
            @staticmethod
            def get_data(package, resource):
                if (package, resource) != ("insights", "revoked_playbooks.yaml") or stub.revocation_yaml is None:
                    raise HarnessError("unexpected pkgutil.get_data(%r, %r)" % (package, resource))
                idx = stub.reads
                stub.reads += 1
                good = stub.revocation_yaml.encode("utf-8")
                fault = stub.fault if stub.fault is not None else stub.fault_at.get(idx)
                if fault is not None:
                    return _faulty_read(fault, good)
                return good

        self.pkgutil = FakePkgutil

    def __enter__(self):
        pv = _pv()
        self.saved = (pv.gnupg, pv.pkgutil)
        pv.gnupg = self.gnupg
        pv.pkgutil = self.pkgutil
        return self

    def __exit__(self, *a):
        pv = _pv()
        pv.gnupg, pv.pkgutil = self.saved
        return False


def _set_child(tree, top_key, child_key, node):
    """set / remove (node None) vars.<child> on a deep copy"""
    t = copy.deepcopy(tree)
    for kv in t["m"]:
        if kv[0].get("s") == top_key:
            ch = kv[1]["m"]
            for j, c in enumerate(ch):
                if c[0].get("s") == child_key:
                    if node is None:
                        del ch[j]
                    else:
                        c[1] = node
                    return t
            if node is not None:
                ch.append([S(child_key, "p"), node])
            return t
    raise HarnessError("no %s in play tree" % top_key)


def _set_top(tree, key, node):
    t = copy.deepcopy(tree)
    for i, kv in enumerate(t["m"]):
        if kv[0].get("s") == key:
            if node is None:
                del t["m"][i]
            else:
                kv[1] = node
            return t
    raise HarnessError("no %s in play tree" % key)


DEFECTS = ["none", "none", "vars-missing", "vars-null", "vars-string", "vars-string-naming-keys", "vars-list", "vars-int",
           "vars-empty", "sig-missing", "sig-null", "excl-missing", "sig-and-excl-missing"]


def check_presence(case):
    """verify_play: no vars / no signature / no exclusion list => PlaybookVerificationError before any
    signature check; complete play => the digest of the cleaned play and the decoded signature reach GPG"""
    pv = _pv()
    defect = case["defect"]
    tree = case["a"]
    if defect == "vars-missing":
        tree = _set_top(tree, "vars", None)
    elif defect == "vars-null":
        tree = _set_top(tree, "vars", {"n": 0})
    elif defect == "vars-string":
        tree = _set_top(tree, "vars", S("x"))
    elif defect == "vars-string-naming-keys":
        tree = _set_top(tree, "vars", S(EXCL + " " + SIG))
    elif defect == "vars-list":
        tree = _set_top(tree, "vars", L(S(EXCL), S(SIG)))
    elif defect == "vars-int":
        tree = _set_top(tree, "vars", I(1))
    elif defect == "vars-empty":
        tree = _set_top(tree, "vars", M())
    elif defect == "sig-missing":
        tree = _set_child(tree, "vars", SIG, None)
    elif defect == "sig-null":
        tree = _set_child(tree, "vars", SIG, {"n": 0})
    elif defect == "excl-missing":
        tree = _set_child(tree, "vars", EXCL, None)
    elif defect == "sig-and-excl-missing":
        tree = _set_child(_set_child(tree, "vars", EXCL, None), "vars", SIG, None)
    elif defect != "none":
        raise HarnessError("unknown defect %r" % defect)
    p, text = _materialise({"mode": case.get("mode"), "a": tree}, "a")
    labels = ["defect=" + defect, "mode=" + str(case.get("mode"))]
    if p is None:
        return {"nontrivial": False, "labels": labels + ["yaml-unloadable"]}
    cp = canon(p)
    with _Stub(always_valid=True) as stub:
        try:
            res = pv.verify_play(p)
        except pv.PlaybookVerificationError as e:
            if stub.calls:
                raise Violation("GPG was consulted although verify_play refused the play", play=cp)
            if defect == "none":
                raise Violation("verify_play refused a play with vars, exclusion list and signature: %s" % e, play=cp)
            return {"nontrivial": True, "labels": labels + ["refused"], "key": [defect, cp]}
        except UnicodeEncodeError:
            # a string that cannot be encoded (lone surrogate): no digest can be computed, the play is not
            # verified - which error type reports that is not part of the statement
            if observe(p) != ("err", "unencodable") and defect == "none":
                raise
            return {"nontrivial": False, "labels": labels + ["unencodable-play"]}
        except Exception as e:  # noqa
            if defect == "none":
                raise
            raise Violation("verify_play must answer defect %s with a PlaybookVerificationError but raised %s: %s"
                            % (defect, type(e).__name__, e), play=cp)
    if defect != "none":
        raise Violation("verify_play accepted a play with defect %s (must be a verification error)" % defect, play=cp)
    result, digest = res
    o = observe(p)
    if o[0] != "ok":
        raise HarnessError("complete play does not produce a digest: %r" % (o,))
    if digest != o[1]:
        raise Violation("verify_play returned a digest that is not the digest of the cleaned play", play=cp,
                        got=repr(digest), want=o[1].hex())
    sig = p["vars"][SIG]
    if len(stub.calls) != 1 or stub.calls[0][1] != o[1] or stub.calls[0][0] != base64.b64decode(sig):
        raise Violation("GPG was not asked to verify (decoded signature, digest of the cleaned play) exactly once",
                        play=cp, calls=repr(stub.calls)[:500])
    return {"nontrivial": True, "labels": labels + ["digest-reaches-gpg"], "key": ["none", cp]}


@st.composite
def _presence_case(draw):
    tree, excluded = draw(_play(signed=True))
    return {"mode": draw(st.sampled_from(["py", "yaml"])), "a": tree, "defect": draw(st.sampled_from(DEFECTS))}


def strat_presence(tier):
    return _presence_case()


def _revocation_yaml(entries, signature):
    lines = ["# generated revocation list", "- name: revocation list", "  timestamp: 1632510092", "  vars:",
             "    insights_signature_exclude: /vars/insights_signature",
             "    insights_signature: \"%s\"" % signature]
    if entries is None:
        return "\n".join(lines) + "\n"
    if not entries:
        lines.append("  revoked_playbooks: []")
    else:
        lines.append("  revoked_playbooks:")
        for name, hx in entries:
            hash_line = "hash: %s" % (hx if (re.search("[a-dfA-DF]", hx) and " " not in hx) else '"%s"' % hx)
            if name is None:       # an entry without a name: only the hash matters
                lines.append("    - " + hash_line)
            else:
                lines.append("    - name: %s" % _dq(name))
                lines.append("      " + hash_line)
            lines.append("")
    return "\n".join(lines) + "\n"


def check_verify(case):
    """verify(): accepted iff the signature matches the digest of the cleaned play and that digest is not revoked"""
    pv = _pv()
    mode = case.get("mode")
    labels = ["mode=" + str(mode)]
    p, _t = _materialise({"mode": mode, "a": case["a"]}, "a")
    if p is None:
        return {"nontrivial": False, "labels": labels + ["yaml-unloadable"]}
    o = observe(p)
    if o[0] == "err" and o[1] == "unencodable":
        return {"nontrivial": False, "labels": labels + ["unencodable-play"]}
    if o[0] != "ok":
        raise HarnessError("generated signed play does not produce a digest: %r" % (o,))
    digest, ca = o[1], o[2]
    signature = _toy_signature(digest)
    signed_a = _set_child(case["a"], "vars", SIG, S(signature))
    plays = [("original", signed_a, True)]
    qa, _t = _materialise({"mode": mode, "a": signed_a}, "a")
    if qa is None:
        raise HarnessError("signed play does not load although the unsigned one did")
    if case.get("b") is not None:
        # the edited play keeps the signature that was made for the original
        has_vars = [kv for kv in case["b"]["m"] if kv[0].get("s") == "vars" and "m" in kv[1]]
        if has_vars:
            signed_b = _set_child(case["b"], "vars", SIG, S(signature))
            plays.append(("edited", signed_b, None))
    # revocation list
    entries = []
    revoked = set()
    for i, kind in enumerate(case.get("revoked") or []):
        if kind == "self":
            entries.append(("play %d" % i, digest.hex()))
            revoked.add(digest)
        elif kind == "edited" and len(plays) > 1:
            pb, _ = _materialise({"mode": mode, "a": plays[1][1]}, "a")
            if pb is not None:
                ob = observe(pb)
                if ob[0] == "ok":
                    entries.append(("edited: play %d" % i, ob[1].hex()))
                    revoked.add(ob[1])
        elif kind == "uncleaned":
            # digest of the play *with* its dynamic parts: must not match
            try:
                full = pv.hash_play(pv.serialize_play(qa))
            except UnicodeEncodeError:
                # a lone surrogate inside an *excluded* element: the cleaned play has a digest, the uncleaned one
                # has none (nothing to put on the list) - harness-side computation, not a verdict on the code
                labels.append("uncleaned-digest-unencodable")
                continue
            entries.append(("full %d" % i, full.hex()))
            revoked.add(full)
        elif kind == "name-is-hash":
            other = hashlib.sha256(b"other %d" % i).hexdigest()
            entries.append((digest.hex(), other))
            revoked.add(bytes.fromhex(other))
        else:
            other = hashlib.sha256(("%s %d" % (kind, i)).encode()).hexdigest()
            entries.append(("other %d" % i, other))
            revoked.add(bytes.fromhex(other))
    # entry names are labels for humans: several entries may share one, or carry none at all
    style = case.get("rev_names", "unique")
    if style == "same":
        entries = [("revoked playbook", hx) for _n, hx in entries]
    elif style == "none":
        entries = [(None, hx) for _n, hx in entries]
    elif style == "pairs":
        entries = [("batch %d" % (k // 2), hx) for k, (_n, hx) in enumerate(entries)]
    # the list is maintained by hand: bytes.fromhex-style spellings (upper / mixed case, blanks between the
    # bytes) denote the same digest
    hexstyle = case.get("rev_hex", "lower")
    def _spell(hx, k):
        if hexstyle == "upper":
            return hx.upper()
        if hexstyle == "mixed":
            return "".join(c.upper() if (i + k) % 3 == 0 else c for i, c in enumerate(hx))
        if hexstyle == "spaced":
            return " ".join(hx[i:i + 2] for i in range(0, len(hx), 2))
        return hx
    entries = [(n, _spell(hx, k)) for k, (n, hx) in enumerate(entries)]
    if case.get("revoked") is None:
        entries = None
    labels.append("rev-names=" + style)
    labels.append("rev-hex=" + hexstyle)
    unsigned_list = _revocation_yaml(entries, "AAAA")
    lo = observe(pv.load_playbook_yaml(unsigned_list)[0])
    if lo[0] != "ok":
        raise HarnessError("revocation list play has no digest: %r" % (lo,))
    list_yaml = _revocation_yaml(entries, _toy_signature(lo[1]))
    labels.append("revoked-entries=%d" % len(entries or []))
    nt = False
    fault = case.get("list_fault")
    schedule = list(case.get("schedule") or ["ok", "fault"]) if fault else ["ok"]
    jfault = repr(fault)
    labels.append("list-fault=" + ({"none": "read-returns-None"}.get(fault["kind"], fault["kind"]) if fault else "no"))
    if fault:
        labels.append("schedule=" + ">".join(schedule))
    for name, tree, _x in plays:
        q, _t = _materialise({"mode": mode, "a": tree}, "a")
        if q is None:
            labels.append(name + ":yaml-unloadable")
            continue
        oq = observe(q)
        if oq[0] == "skip":
            labels.append(name + ":skip")
            continue
        if oq[0] == "err":
            expect = "refuse"
            why = "no digest: " + oq[1]
        elif oq[1] in revoked:
            expect, why = "refuse", "digest is on the revocation list"
        elif oq[2] != ca:
            expect, why = "refuse", "play differs outside the excluded elements from what was signed"
        else:
            expect, why = "accept", "signed content unchanged and not revoked"
        if isinstance(q.get("vars"), dict) and q["vars"].get(SIG) != signature:
            raise HarnessError("signature not in place")
        # one verify() call per step; in a "fault" step the read of the revocation list goes wrong (see _faulty_read):
        # the statement then still says that a play that has to be refused is not accepted - in particular one whose
        # digest is on the list (HOW the call fails - which exception - is not stated and not asserted, neither is the
        # fate of a play that would have been accepted).  The "ok" steps before / after it carry the full oracle.
        for step in schedule:
            with _Stub(revocation_yaml=list_yaml) as stub:
                stub.fault = fault if step == "fault" else None
                try:
                    out = pv.verify(q)
                    got = "accept"
                except pv.PlaybookVerificationError as e:
                    got = "refuse"
                    out = str(e)
                except (HarnessError, Violation):
                    raise
                except UnicodeEncodeError as e:
                    # a lone surrogate outside the excluded elements (Python-object plays only; a YAML file cannot
                    # carry one): no digest exists, verify() raises while encoding - the play is not accepted.  The
                    # statement names no error type for this input (false alarm of the thorough sweep, corrected)
                    if not (oq[0] == "err" and oq[1] == "unencodable") and step != "fault":
                        raise
                    got = "refuse"
                    out = "unencodable: %s" % e
                except Exception as e:
                    if step != "fault":
                        raise
                    got = "error"
                    out = "%s: %s" % (type(e).__name__, e)
                reads = stub.reads
            if step == "fault":
                # the module's one ruamel YAML() instance can be left dirty by a text it could not even read (observed
                # on the unchanged tree: after a ReaderError - NUL bytes - the NEXT load of any text fails once with
                # "Could not load ..."; that errs on the refusing side and is no part of the statement): use that one
                # load up here, so that neither the "ok" steps nor the next case start from a dirty loader
                try:
                    pv.yaml.load(b"a: 1\n")
                except Exception:
                    labels.append("list-fault/loader-left-dirty")
                if reads == 0:
                    raise HarnessError("the revocation list was not read during verify()")
                if expect == "refuse" and got == "accept":
                    raise Violation("verify() accepted the %s play, which has to be refused (%s), when the read of the "
                                    "revocation list went wrong (%s)" % (name, why, jfault), play=canon(q),
                                    revocation_list=list_yaml[-600:], schedule=schedule)
                labels.append("list-fault:%s-play-to-%s:%s" % (name, expect, got))
                if expect == "refuse" and oq[0] == "ok" and oq[1] in revoked:
                    nt = True
                    labels.append("list-fault/revoked-play-not-accepted/" + fault["kind"])
                continue
            if got != expect:
                raise Violation("verify() must %s the %s play (%s) but did %s: %s" % (expect, name, why, got, str(out)[:200]),
                                play=canon(q), revocation_list=list_yaml[-600:], schedule=schedule)
            if got == "accept" and out is not q:
                raise Violation("verify() did not return the verified play")
        labels.append("%s:%s(%s)" % (name, got if schedule[-1] == "ok" else expect, why.split(":")[0][:40]))
        if name == "edited" and oq[0] == "ok" and oq[2] != ca:
            nt = True
        if name == "original" and oq[0] == "ok" and oq[1] in revoked:
            nt = True
    return {"nontrivial": nt, "labels": labels, "key": [ca, case.get("revoked"), canon(build_py(norm(case["b"]))) if case.get("b") else None]}


@st.composite
def _verify_case(draw):
    tree, excluded = draw(_play(signed=True))
    mode = draw(st.sampled_from(["py", "yaml"]))
    b = None
    if draw(st.integers(0, 3)) > 0:
        kind = draw(st.sampled_from(EDITS))
        region = draw(st.sampled_from(["any", "any", "excluded"]))
        b = _apply_edit(draw, tree, kind, excluded if region == "excluded" else None)
    revoked = draw(st.one_of(st.lists(st.sampled_from(["self", "edited", "other", "uncleaned", "name-is-hash", "other"]),
                                      min_size=1, max_size=4),
                             st.sampled_from([None, [], ["self"], ["other", "self"], ["self", "other"],
                                              ["self", "other", "other"], ["other", "self", "other"]])))
    case = {"mode": mode, "a": tree, "b": b, "revoked": revoked,
            "rev_names": draw(st.sampled_from(["unique", "unique", "same", "none", "pairs"])),
            "rev_hex": draw(st.sampled_from(["lower", "lower", "upper", "mixed", "spaced"]))}
    if draw(st.integers(0, 9)) < 4:
        case["list_fault"] = draw(_list_fault)
        case["schedule"] = draw(st.sampled_from([["ok", "fault"], ["fault", "ok"], ["ok", "fault", "ok"],
                                                 ["fault", "fault", "ok"]]))
    return case


_list_fault = st.one_of(
    st.builds(lambda e: {"kind": "oserror", "errno": e}, st.sampled_from(LIST_FAULT_ERRNOS)),
    st.sampled_from([{"kind": "none"}, {"kind": "text", "text": ""}, {"kind": "oserror-plain"}, {"kind": "eof"},
                     {"kind": "zipimport"}]),
    st.builds(lambda t: {"kind": "text", "text": t}, st.sampled_from(LIST_FAULT_TEXTS)),
    st.builds(lambda p: {"kind": "cut", "permille": p}, st.one_of(st.integers(0, 999), st.sampled_from([0, 999, 500]))))


def strat_verify(tier):
    return _verify_case()


# ---------------------------------------------------------------------------------------------
# plays with shared nodes: YAML anchors / aliases, one Python object referenced from two places
# ---------------------------------------------------------------------------------------------
# case["share"] = [{"src": path, "sites": [{"where": "task" | "vars" | "top", "front": bool}, ...]}, ...]
# path = mapping keys (str) / sequence indexes (int) from the play.  The node at src becomes a shared node
# ({"ref": name} + table entry) and every site gets one more reference to it: a new task
# `{name: shared, vars: *ref}`, a new child of vars, or a new top-level key.

def _deref(node, defs):
    while "ref" in node:
        node = defs[node["ref"]]
    return node


def _slot_at(tree, defs, path):
    cur = tree
    slot = None
    for step in path:
        cur = _deref(cur, defs)
        if isinstance(step, str):
            hit = [kv for kv in (cur.get("m") or []) if kv[0].get("s") == step]
            if not hit:
                return None
            slot = (hit[0], 1)
        else:
            if "l" not in cur or step >= len(cur["l"]):
                return None
            slot = (cur["l"], step)
        cur = slot[0][slot[1]]
    return slot


def _acyclic(tree, defs):
    state = {}

    def visit(node):
        if "ref" in node:
            rid = node["ref"]
            if state.get(rid) == 1:
                return False
            if state.get(rid) == 2:
                return True
            state[rid] = 1
            ok = visit(defs[rid])
            state[rid] = 2
            return ok
        if "m" in node:
            return all(visit(v) for _k, v in node["m"])
        if "l" in node:
            return all(visit(x) for x in node["l"])
        return True

    return visit(tree)


def _share(tree, defs, item):
    """apply one sharing request in place -> False when it does not apply to this play"""
    slot = _slot_at(tree, defs, item["src"])
    if slot is None:
        return False
    node = slot[0][slot[1]]
    if "ref" in node:
        rid = node["ref"]
    else:
        if not ("m" in node or "l" in node or "s" in node):
            return False        # anchors on ints / floats / nulls / booleans (EXCLUDED) are not generated
        rid = "a%d" % len(defs)
        defs[rid] = node
        slot[0][slot[1]] = {"ref": rid}
    for k, site in enumerate(item["sites"]):
        ref = {"ref": rid}
        entry = [S("zalias_%s_%d" % (rid, k), "p"), ref]
        target = tree["m"]
        if site["where"] == "task":
            s = _slot_at(tree, defs, ["tasks"])
            if s is not None and "l" in _deref(s[0][s[1]], defs):
                target = _deref(s[0][s[1]], defs)["l"]
                entry = M((S("name", "p"), S("shared", "p")), (S("vars", "p"), ref))
        elif site["where"] == "vars":
            s = _slot_at(tree, defs, ["vars"])
            if s is not None and "m" in _deref(s[0][s[1]], defs):
                target = _deref(s[0][s[1]], defs)["m"]
        if site.get("front"):
            target.insert(0, entry)
        else:
            target.append(entry)
    return _acyclic(tree, defs)


def with_shared_nodes(plain, share):
    """-> (tree with {"ref": name} nodes, {name: node}, number of requests applied)"""
    tree, defs, applied = copy.deepcopy(plain), {}, 0
    for item in share:
        t2, d2 = copy.deepcopy((tree, defs))
        if _share(t2, d2, item):
            tree, defs, applied = t2, d2, applied + 1
    return tree, defs, applied


# ---- edits of the reference structure itself (round 7) ---------------------------------------------
# variant["refs"] = [{"op": ..., "occ": n, "to": n}, ...]: applied to play b AFTER the sharing requests, so that the two
# plays have the same scalars / keys everywhere and differ only in WHICH node one reference denotes:
#   retarget      the reference now denotes another shared node (`*a0` -> `*a1`)
#   swap          two references to different shared nodes change places
#   inline        the reference is replaced by a copy of the node it denoted (same value, no longer the same object)
#   inline-other  ... by a copy of another shared node
# References are numbered in serialisation order (a shared node's content is visited where it occurs first), `occ`
# counts from the END (small draws = late occurrences = references to nodes that have been met before).

REF_OPS = ["retarget", "retarget", "swap", "inline", "inline-other"]


def _ref_slots(tree, defs):
    """-> [(holder, index, path)] of every {"ref": ...} node, serialisation order; path = keys / indexes from the play
    through the first occurrences (None for a key that is not a string)"""
    out, done = [], set()

    def walk(n, path):
        if "m" in n:
            seq = [(kv, 1, kv[0].get("s")) for kv in n["m"]]
        elif "l" in n:
            seq = [(n["l"], i, i) for i in range(len(n["l"]))]
        else:
            return
        for holder, i, step in seq:
            v = holder[i]
            if "ref" in v:
                out.append((holder, i, path + [step]))
                if v["ref"] not in done:
                    done.add(v["ref"])
                    walk(defs[v["ref"]], path + [step])
            else:
                walk(v, path + [step])

    walk(tree, [])
    return out


def _kind(n):
    return "m" if "m" in n else "l" if "l" in n else "scalar"


def _ref_edit(tree, defs, op):
    """apply one edit of the reference structure in place -> None (does not apply) | {"op", "path", "kinds"}"""
    slots = _ref_slots(tree, defs)
    if not slots:
        return None
    holder, i, path = slots[-1 - op["occ"] % len(slots)]
    cur = holder[i]["ref"]
    # the other shared nodes, those of the same kind (sequence / mapping / string) first
    others = sorted((r for r in defs if r != cur), key=lambda r: (_kind(defs[r]) != _kind(defs[cur]), r))
    kind = op["op"] if others else "inline"         # a play with one shared node: nothing to go to
    if kind == "inline":
        holder[i] = copy.deepcopy(defs[cur])
        info = {"op": kind, "path": path, "kinds": _kind(defs[cur])}
    else:
        new = others[op["to"] % len(others)]
        info = {"op": kind, "path": path, "kinds": _kind(defs[cur]) + ">" + _kind(defs[new])}
        if kind == "retarget":
            holder[i] = {"ref": new}
        elif kind == "inline-other":
            holder[i] = copy.deepcopy(defs[new])
        else:       # swap with the closest earlier reference to another node
            k = len(slots) - 1 - op["occ"] % len(slots)
            earlier = [s for s in slots[:k] if s[0][s[1]]["ref"] != cur]
            if not earlier:
                return None
            h2, i2, p2 = earlier[-1 - op["to"] % len(earlier)]
            info = {"op": kind, "path": path, "path2": p2, "kinds": _kind(defs[cur]) + ">" + _kind(defs[h2[i2]["ref"]])}
            holder[i], h2[i2] = h2[i2], holder[i]
    if not _acyclic(tree, defs):
        return None
    return info


def _inside_excluded(path, requests):
    """is the place `path` of the document written inside one of the requested elements?"""
    return any(path[:len(parts)] == parts for parts in requests)


def build_shared(n, defs, memo):
    if "ref" in n:
        rid = n["ref"]
        if rid not in memo:
            memo[rid] = build_shared(defs[rid], defs, memo)
        return memo[rid]
    if "m" in n:
        d = {}
        for k, v in n["m"]:
            d[_scalar_py(k)] = build_shared(v, defs, memo)
        return d
    if "l" in n:
        return [build_shared(x, defs, memo) for x in n["l"]]
    return _scalar_py(n)


def _plain_cleaned(tree):
    """cleaned canonical form of the play *without* the added references (None: no such form)"""
    try:
        m = model_clean(canon(build_py(tree)))
    except (TypeError, IndexError, KeyError, AttributeError):
        return None         # vars / exclusion list missing or of another type
    return m[1] if m[0] == "ok" else None


def check_shared(case):
    """digest invariance / injectivity for plays whose vars / hosts / tasks ... are referenced from several places"""
    pv = _pv()
    mode = case["mode"]
    labels = ["mode=" + mode]

    def materialise(plain, refs=None):
        tree, defs, applied = with_shared_nodes(plain, case["share"])
        if refs is not None:
            done = []
            for op in refs:
                t2, d2 = copy.deepcopy((tree, defs))
                info = _ref_edit(t2, d2, op)
                if info is not None:
                    tree, defs = t2, d2
                    done.append(info)
            refs[:] = done
        if mode != "yaml":
            return build_shared(tree, defs, {}), None, applied
        text = emit_yaml(tree, defs)
        try:
            doc = pv.load_playbook_yaml(text)
        except pv.PlaybookVerificationError:
            return None, text, applied
        if not isinstance(doc, list) or len(doc) != 1 or not isinstance(doc[0], dict):
            raise HarnessError("emitted YAML is not a one-play playbook: %r" % text)
        return doc[0], text, applied

    def tree_cleaned(p):
        """cleaned canonical form of the play read as a TREE (every reference expanded where it stands, elements
        excluded by their place in the document); None: no such form"""
        try:
            m = model_clean(canon(p))
        except (TypeError, IndexError, KeyError, AttributeError):
            return None
        return m[1] if m[0] == "ok" else None

    def digest_of(p):
        """-> ("ok", digest, model's cleaned canon, canon of the real cleaned play) | ("err" | "skip", why)"""
        vars_ = p.get("vars")
        if not isinstance(vars_, dict) or EXCL not in vars_ or not isinstance(vars_[EXCL], str):
            return ("skip", "no-usable-exclusion-list")        # sub-checks digest / presence
        model = model_clean_graph(p)
        try:
            cleaned = pv.exclude_dynamic_elements(p)
        except pv.PlaybookVerificationError as e:
            if model[0] == "ok":
                raise Violation("exclusion list %r only names hosts/vars or existing direct children, but was "
                                "refused: %s" % (str(vars_[EXCL]), e), play=canon(p))
            return ("err", model[1].split(":")[0] if model[0] == "err" else "ambiguous-request refused")
        if model[0] == "err":
            raise Violation("exclusion list %r must be refused (%s) but was accepted" % (str(vars_[EXCL]), model[1]),
                            play=canon(p))
        if model[0] != "ok":
            return ("skip", "ambiguous-request accepted")
        try:
            d = pv.hash_play(pv.serialize_play(cleaned))
        except UnicodeEncodeError:
            return ("err", "unencodable")
        return ("ok", d, model[1], canon(cleaned))

    plain_a = norm(case["a"])
    pa, ta, applied = materialise(plain_a)
    labels.append("shared-nodes=%d" % applied)
    for item in case["share"]:
        labels.append("src=" + "/".join("#" if isinstance(x, int) else (x if x in ("vars", "hosts", "tasks", SIG, EXCL) else "*")
                                        for x in item["src"]))
    if pa is None:
        return {"nontrivial": False, "labels": labels + ["yaml-a-unloadable"]}
    tca = tree_cleaned(pa) if any(v.get("refs") for v in case["bs"]) else None
    oa = digest_of(pa)
    labels.append("a:" + oa[0] + ("" if oa[0] == "ok" else "/" + oa[1]))
    if oa[0] != "ok":
        return {"nontrivial": False, "labels": labels}
    # nothing changed at all: the same play object gives the same digest again
    again = digest_of(pa)
    if again[0] != "ok" or again[1] != oa[1]:
        raise Violation("the digest of one and the same play object changed between two computations",
                        play=oa[2], first=oa[1].hex(), second=repr(again[1])[:80], **({"yaml_a": ta} if ta else {}))
    pca = _plain_cleaned(plain_a)
    nt, keys, late = False, [], []
    if oa[3] != oa[2]:
        late.append(("a", oa))
    for variant in case["bs"]:
        lab = ["edit=" + variant["edit"], "region=" + variant["region"]]
        plain_b = norm(variant["b"])
        refs = copy.deepcopy(variant["refs"]) if variant.get("refs") else None
        pb, tb, _n = materialise(plain_b, refs)
        if variant.get("refs"):
            if not refs:
                labels += lab + ["ref-edit/not-applicable"]
                continue
            lab += ["ref-edit=%s/%s" % (r["op"], r["kinds"]) for r in refs]
        if pb is None:
            labels += lab + ["yaml-b-unloadable"]
            continue
        tcb = tree_cleaned(pb) if refs else None
        ob = digest_of(pb)
        if ob[0] != "ok":
            labels += lab + ["b:" + ob[0] + "/" + ob[1]]
            continue
        det = {"yaml_a": ta, "yaml_b": tb} if ta is not None else {}
        if refs:
            det["reference_edit"] = refs
        pcb = _plain_cleaned(plain_b)
        only_excluded = pca is not None and pca == pcb     # the two documents differ in excluded elements only
        if refs:
            # the scalars and keys of the two plays are the same, one reference denotes another node.  "Differs
            # outside the excluded elements" is demanded only where every reading of the statement agrees: the
            # reference that changed is written outside the requested elements, the plays read as trees differ
            # outside them, and (next branch) so do the plays read as graphs
            requests = _parse_requests(str(pa["vars"][EXCL]))[1]
            places = [r[k] for r in refs for k in ("path", "path2") if k in r]
            only_excluded = (tca is None or tcb is None or tca == tcb
                             or all(_inside_excluded(pl, requests) for pl in places))
        if oa[2] == ob[2]:
            if oa[1] != ob[1]:
                raise Violation("the digest changed although nothing outside the excluded elements changed "
                                "(play with shared nodes: %s)" % case["share"],
                                cleaned=oa[2], digest_a=oa[1].hex(), digest_b=ob[1].hex(), **det)
            lab.append("same-cleaned" + ("/reference-structure-differs" if refs else
                                         "/excluded-part-differs" if plain_a != plain_b else "/identical-plays"))
        elif only_excluded:
            # the changed excluded element is still referenced from a place that is not excluded: whether that
            # counts as "only excluded elements change" is not decided by the statement
            lab.append("excluded-value-still-referenced/not-asserted")
        else:
            if oa[1] == ob[1]:
                raise Violation("two plays (with shared nodes) that differ outside the excluded elements have the "
                                "same digest", cleaned_a=oa[2], cleaned_b=ob[2], digest=oa[1].hex(), **det)
            lab.append("differ-outside")
            nt = nt or applied > 0
            keys.append([oa[2], ob[2]])
        if ob[3] != ob[2]:
            late.append(("b", ob))
        if refs:
            lab.append("ref-edit:" + lab[-1])
        labels += lab
    for which, o in late:
        raise Violation("exclude_dynamic_elements did not remove exactly the requested elements from the nodes they "
                        "belong to (play %s, shared nodes: %s)" % (which, case["share"]), cleaned=o[3], expected=o[2],
                        **({"yaml_a": ta} if ta else {}))
    nt = nt or (applied > 0 and any("same-cleaned/excluded-part-differs" in l or "same-cleaned/reference-structure-differs" in l
                                    for l in labels))
    return {"nontrivial": nt, "labels": labels, "key": [oa[2], keys]}


def _shareable(n):
    return "m" in n or "l" in n or "s" in n


def _share_candidates(tree, containers_only=False):
    cands = []
    _shareable = (lambda n: "m" in n or "l" in n) if containers_only else globals()["_shareable"]
    for k, v in tree["m"]:
        if "s" not in k or not _shareable(v):
            continue
        name = k["s"]
        cands.append([name])
        if name == "vars":
            cands += [[name], [name]]
        if name in LABELS and "m" in v:
            cands += [[name, ck["s"]] for ck, cv in v["m"] if "s" in ck and _shareable(cv)]
        if "l" in v:
            cands += [[name, i] for i, x in enumerate(v["l"]) if _shareable(x)]
    return cands


@st.composite
def _shared_case(draw):
    tree, excluded = draw(_play(signed=draw(st.booleans())))
    cands = _share_candidates(tree)
    # which of the two variants change the reference structure only (the plays then need references to choose from)
    ref_variant = [draw(st.sampled_from([False, True, False])) for _ in range(2)]
    share = []
    # (vars is a mapping, so there always is a container to share; strings are immutable - which node a reference to a
    # string denotes cannot matter to code that works on identities - and get a third of the requests there)
    conts = _share_candidates(tree, containers_only=True)
    for _ in range(draw(st.sampled_from([2, 2, 1, 3] if any(ref_variant) else [1, 1, 2]))):
        pool = cands
        if any(ref_variant):        # different nodes, so that a reference has another node to go to
            taken = [item["src"] for item in share]
            pool = [c for c in (conts if conts and draw(st.sampled_from([True, True, False])) else cands)
                    if c not in taken] or cands
            if taken and draw(st.booleans()):
                # ... and of the same kind as the first one (two sequences, two mappings, two strings): the change
                # of a reference that is closest to no change at all
                def kind_at(path):
                    slot = _slot_at(tree, {}, path)
                    return _kind(slot[0][slot[1]])
                pool = [c for c in pool if kind_at(c) == kind_at(taken[0])] or pool
        share.append({"src": _pick(draw, pool),
                      "sites": [{"where": draw(st.sampled_from(["task", "task", "top", "vars"])), "front": draw(st.booleans())}
                                for _s in range(draw(st.sampled_from([1, 1, 2])))]})
        for site in share[-1]["sites"]:     # vars inside vars / tasks inside a task: the node would contain itself
            if [site["where"], share[-1]["src"]] in (["vars", ["vars"]], ["task", ["tasks"]]):
                site["where"] = "top"
    bs = []
    for is_ref in ref_variant:
        if is_ref:
            bs.append({"b": copy.deepcopy(tree), "edit": "none", "region": "any",
                       "refs": [{"op": draw(st.sampled_from(REF_OPS)), "occ": draw(st.integers(0, 5)),
                                 "to": draw(st.integers(0, 3))}]})
            continue
        kind = draw(st.sampled_from(EDITS))
        region = draw(st.sampled_from(["any", "excluded"]))
        if kind == "none":
            b = copy.deepcopy(tree)
        else:
            b = _apply_edit(draw, tree, kind, excluded if region == "excluded" else None)
            if b == tree:
                kind = "scalar-fallback"
                b = _apply_edit(draw, tree, "scalar", excluded if region == "excluded" else None)
        bs.append({"b": b, "edit": kind, "region": region})
    return {"mode": draw(st.sampled_from(["yaml", "py"])), "a": tree, "share": share, "bs": bs}


def strat_shared(tier):
    return _shared_case()


# ---------------------------------------------------------------------------------------------
# whole playbooks: several plays, one run of the command-line entry point / one sequence of verify() calls
# ---------------------------------------------------------------------------------------------

ENTRY_POINT = "insights.client.apps.ansible.playbook_verifier"
PLAY_KINDS = ["valid", "valid", "valid-excluded-edit", "revoked", "wrong-signature", "edited", "revoked-excluded-edit",
              "no-signature", "revoked", "no-exclusion-list", "other-label"]


def _run_entry_point(text):
    """python -m insights.client.apps.ansible.playbook_verifier < text, in this process -> (exit status, stdout, stderr)"""
    import io
    import os
    import runpy
    import sys
    saved = (sys.stdin, sys.stdout, sys.stderr)
    skip = os.environ.pop("SKIP_VERIFY", None)
    out, err = io.StringIO(), io.StringIO()
    code = 0
    try:
        sys.stdin, sys.stdout, sys.stderr = io.StringIO(text), out, err
        try:
            runpy.run_module(ENTRY_POINT, run_name="__main__", alter_sys=False)
        except SystemExit as e:
            code = e.code
    finally:
        sys.stdin, sys.stdout, sys.stderr = saved
        if skip is not None:
            os.environ["SKIP_VERIFY"] = skip
    return (0 if code is None else code), out.getvalue(), err.getvalue()


def _has_vars_mapping(tree):
    return any(kv[0].get("s") == "vars" and "m" in kv[1] for kv in tree["m"])


def check_playbook(case):
    """A playbook of several plays is refused iff one of its plays has to be refused - whatever the position of
    that play and whatever was verified before it (entry point: exit status; verify() sequence: every verdict)."""
    pv = _pv()
    labels = ["entry=" + case["entry"], "plays=%d" % len(case["plays"])]
    texts, signed_canon, sigs = [], [], []
    for item in case["plays"]:
        kind = item["kind"]
        pa, _t = _materialise({"mode": "yaml", "a": item["a"]}, "a")
        if pa is None:
            return {"nontrivial": False, "labels": labels + ["yaml-unloadable"]}
        oa = observe(pa)
        if oa[0] != "ok":
            return {"nontrivial": False, "labels": labels + ["play-without-digest/" + oa[1]]}
        signature = _toy_signature(oa[1])
        if kind == "wrong-signature":
            signature = _toy_signature(hashlib.sha256(b"another play " + oa[1]).digest())
        placed = item["b"] if item.get("b") is not None else item["a"]
        if _has_vars_mapping(placed):
            placed = _set_child(placed, "vars", SIG, None if kind == "no-signature" else S(signature))
            if kind == "no-exclusion-list":
                placed = _set_child(placed, "vars", EXCL, None)
            elif kind == "other-label":
                ex = [c[1]["s"] for kv in placed["m"] if kv[0].get("s") == "vars" for c in kv[1]["m"]
                      if c[0].get("s") == EXCL and "s" in c[1]]
                if ex:
                    placed = _set_child(placed, "vars", EXCL, S(ex[0] + ",/tasks"))
        texts.append(emit_yaml(norm(placed)))
        signed_canon.append(oa[2])
        sigs.append(signature)
    joint = ("---\n" if case.get("doc_start") else "") + "".join(texts)
    try:
        docs = pv.load_playbook_yaml(joint)
    except pv.PlaybookVerificationError:
        return {"nontrivial": False, "labels": labels + ["yaml-unloadable"]}
    if not isinstance(docs, list) or len(docs) != len(texts) or not all(isinstance(d, dict) for d in docs):
        return {"nontrivial": False, "labels": labels + ["joint-text-is-not-the-list-of-plays"]}
    # what has to happen to every play
    obs = []
    for q in docs:
        oq = observe(q)
        if oq[0] == "skip" or (oq[0] == "err" and oq[1] == "unencodable"):
            return {"nontrivial": False, "labels": labels + ["play-outside-domain/" + oq[1]]}
        obs.append(oq)
    entries, revoked = [], set()
    for i, (item, oq) in enumerate(zip(case["plays"], obs)):
        if item["kind"].startswith("revoked") and oq[0] == "ok":
            entries.append(("play %d" % i, oq[1].hex()))
            revoked.add(oq[1])
    for k in range(case.get("unrelated", 0)):
        entries.insert((k * 2) % (len(entries) + 1), ("other %d" % k, hashlib.sha256(b"unrelated %d" % k).hexdigest()))
    unsigned_list = _revocation_yaml(entries, "AAAA")
    lo = observe(pv.load_playbook_yaml(unsigned_list)[0])
    if lo[0] != "ok":
        raise HarnessError("revocation list play has no digest: %r" % (lo,))
    list_yaml = _revocation_yaml(entries, _toy_signature(lo[1]))
    expect = []
    for i, (item, q, oq) in enumerate(zip(case["plays"], docs, obs)):
        sig = q["vars"].get(SIG) if isinstance(q.get("vars"), dict) else None
        if oq[0] == "err":
            expect.append(("refuse", "no digest: " + oq[1]))
        elif sig is None:
            expect.append(("refuse", "signature missing"))
        elif str(sig) != sigs[i]:
            raise HarnessError("signature not in place")
        elif item["kind"] == "wrong-signature":
            expect.append(("refuse", "the signature was made for another digest"))
        elif oq[1] in revoked:
            expect.append(("refuse", "digest is on the revocation list"))
        elif oq[2] != signed_canon[i]:
            expect.append(("refuse", "play differs outside the excluded elements from what was signed"))
        else:
            expect.append(("accept", "signed content unchanged and not revoked"))
    first_bad = [i for i, e in enumerate(expect) if e[0] == "refuse"]
    labels.append("expect=" + ("accept-all" if not first_bad else "refuse"))
    if first_bad:
        labels.append("first-refused-play=%s" % ("first" if first_bad[0] == 0 else "later"))
        labels.append("why=" + expect[first_bad[0]][1].split(":")[0])
    # reads of the revocation list that go wrong (see _faulty_read): verify() reads the list once per play, so the
    # k-th read belongs to the k-th play that is verified.  A playbook with a play that has to be refused is still not
    # accepted, a play that has to be refused is still not accepted by its verify() call; what happens to plays /
    # playbooks that would have been accepted is not stated and not asserted, neither is the kind of failure.
    fault_at = dict((int(k) % len(docs), f) for k, f in (case.get("list_faults") or []))
    if fault_at:
        labels.append("list-faults=%d" % len(fault_at))
        for k in sorted(fault_at):
            labels.append("list-fault-at-play-to-%s" % expect[k][0])
            if expect[k][1] == "digest is on the revocation list":
                labels.append("list-fault/at-revoked-play/" + fault_at[k]["kind"])
    with _Stub(revocation_yaml=list_yaml) as stub:
        stub.fault_at = fault_at
        if case["entry"] == "main":
            try:
                code, out, err = _run_entry_point(joint)
            except (HarnessError, Violation):
                raise
            except Exception as e:
                if not fault_at:
                    raise
                # an exception that escapes the module = a traceback and exit status 1 of `python -m ...`
                code, out, err = 1, "", "%s: %s" % (type(e).__name__, e)
            finally:
                if fault_at:
                    try:                    # (a loader left dirty by an unreadable text: see check_verify)
                        pv.yaml.load(b"a: 1\n")
                    except Exception:
                        pass
            if fault_at and not first_bad and code != 0:
                labels.append("refused-after-list-fault/not-asserted")
                return {"nontrivial": False, "labels": labels}
            if first_bad and code == 0:
                i = first_bad[0]
                raise Violation("the entry point accepted (exit status 0) a playbook of %d plays although play %d must be "
                                "refused: %s" % (len(docs), i, expect[i][1]), playbook=joint, revocation_list=list_yaml[-600:],
                                kinds=[it["kind"] for it in case["plays"]])
            if not first_bad and code != 0:
                raise Violation("the entry point refused (exit status %r: %s) a playbook whose plays are all signed, "
                                "unchanged outside their excluded elements and not revoked" % (code, err.strip()[:200]),
                                playbook=joint, revocation_list=list_yaml[-600:])
        else:
            for i, q in enumerate(docs):
                try:
                    pv.verify(q)
                    got = "accept"
                except pv.PlaybookVerificationError as e:
                    got = "refuse: %s" % e
                except (HarnessError, Violation):
                    raise
                except Exception as e:
                    if i not in fault_at:
                        raise
                    got = "error: %s: %s" % (type(e).__name__, e)
                if i in fault_at:
                    try:
                        pv.yaml.load(b"a: 1\n")
                    except Exception:
                        pass
                    if expect[i][0] == "refuse" and got == "accept":
                        raise Violation("verify() call %d of a sequence over the plays of one playbook accepted the play, "
                                        "which has to be refused (%s), when the read of the revocation list went wrong (%r)"
                                        % (i, expect[i][1], fault_at[i]), playbook=joint, revocation_list=list_yaml[-600:],
                                        kinds=[it["kind"] for it in case["plays"]])
                    continue
                if got.split(":")[0] != expect[i][0]:
                    raise Violation("verify() call %d of a sequence over the plays of one playbook must %s the play (%s) "
                                    "but did %s" % (i, expect[i][0], expect[i][1], got[:200]), playbook=joint,
                                    revocation_list=list_yaml[-600:], kinds=[it["kind"] for it in case["plays"]])
    nt = bool(first_bad) and first_bad[0] > 0 or (not first_bad and len(docs) > 1)
    return {"nontrivial": nt, "labels": labels,
            "key": [[canon(d) for d in docs], sorted(x.hex() for x in revoked)]}


@st.composite
def _playbook_case(draw):
    n = draw(st.sampled_from([1, 2, 2, 3, 3, 4]))
    scenario = draw(st.sampled_from(["one-fault", "one-fault", "one-fault", "all-valid", "free"]))
    fault_at = n - 1 - draw(st.integers(0, n - 1))       # (small draws are favoured: the faulty play tends to come late)
    fault = draw(st.sampled_from([k for k in PLAY_KINDS if not k.startswith("valid")]))
    plays = []
    for i in range(n):
        tree, excluded = draw(_play(signed=True))
        # the plays of one playbook are different plays (Hypothesis likes to repeat its simplest play: then the
        # digest of a revoked play would be the digest of every play before it as well)
        tree["m"].append([S("play_no", "p"), {"i": i}])
        if scenario == "free":
            kind = draw(st.sampled_from(PLAY_KINDS))
        elif scenario == "one-fault" and i == fault_at:
            kind = fault
        else:
            kind = draw(st.sampled_from(["valid", "valid", "valid-excluded-edit"]))
        b = None
        if kind.endswith("excluded-edit"):
            b = _apply_edit(draw, tree, draw(st.sampled_from(["scalar", "type", "insert", "delete", "wrap"])), excluded)
        elif kind == "edited":
            b = _apply_edit(draw, tree, draw(st.sampled_from(EDITS[:-1])), None)
        plays.append({"a": tree, "b": b, "kind": kind})
    case = {"plays": plays, "entry": draw(st.sampled_from(["main", "main", "main", "main", "loop"])),
            "unrelated": draw(st.integers(0, 2)), "doc_start": draw(st.booleans())}
    if draw(st.integers(0, 5)) == 1:
        # some reads of the revocation list go wrong: mostly the one that belongs to the faulty play
        where = st.sampled_from([fault_at, fault_at, fault_at] + list(range(n)))
        case["list_faults"] = draw(st.lists(st.tuples(where, _list_fault).map(list), min_size=1, max_size=2))
    return case


def strat_playbook(tier):
    return _playbook_case()


# ---------------------------------------------------------------------------------------------
# size: plays with one large dimension (nesting depth, number of items, string length); the two plays of a
# pair differ at the far end of it
# ---------------------------------------------------------------------------------------------
# case = {"mode": "py" | "yaml", "a": play tree, "edit": kind,
#         "graft": {"where": "task" | "vars" | "top" | "excluded", "front": bool, "path": [i] | [i, j]},
#         "frames": [[t, pre, post], ...]    the containers around the innermost part, outside-in: t = "l" (sequence)
#                                            | "m" (mapping, the way down is its key 'block'), with `pre` / `post`
#                                            further items before / after the way down (taken from `pool` by position)
#         "pool": [scalar node, ...], "numbered": bool     (numbered: item j of a container is pool[..] + j)
#         "tail_a": tree, "tail_b": tree}    the innermost part of the two plays; {"rep": [unit, pre, mid, post]} in it
#                                            is the string unit * pre + mid + unit * post
# The large value never appears in the case itself (replay files stay small, nothing in the harness recurses over a
# deep JSON document); check_scale expands it.

MAX_DEPTH = 100     # container levels of the large value.  The unchanged code handles more than twice as much:
#                     block YAML loads up to ~240 levels, deepcopy + serialiser work up to ~300 (measured on an empty
#                     stack; inside a Hypothesis run some 100 frames are in use already)


def _size_marks(hi):
    """the sizes next to powers of two / ten and other round numbers, where size limits tend to sit"""
    base = [2 ** k for k in range(2, 18)] + [10 ** k for k in range(1, 6)] + [20, 50, 200, 500, 5000, 50000]
    return [m for m in sorted(set(b + d for b in base for d in (-1, 0, 1, 2))) if 1 <= m <= hi]


def _sib(pool, numbered, lvl, j):
    n = pool[(lvl + j) % len(pool)]
    if numbered and "s" in n:
        return {"s": n["s"] + str(j), "q": n.get("q", "d")}
    if numbered and "i" in n:
        return {"i": n["i"] + j, "r": n.get("r", "d")}
    return n


def _expand_rep(n):
    if "rep" in n:
        unit, pre, mid, post = n["rep"]
        return {"s": unit * pre + mid + unit * post, "q": n.get("q", "d")}
    if "m" in n:
        return {"m": [[_expand_rep(k), _expand_rep(v)] for k, v in n["m"]]}
    if "l" in n:
        return {"l": [_expand_rep(x) for x in n["l"]]}
    return n


def big_value(frames, pool, numbered, tail):
    cur = _expand_rep(tail)
    for lvl in range(len(frames) - 1, -1, -1):
        t, pre, post = frames[lvl]
        if t == "l":
            cur = {"l": [_sib(pool, numbered, lvl, j) for j in range(pre)] + [cur] +
                        [_sib(pool, numbered, lvl, pre + 1 + j) for j in range(post)]}
        else:
            cur = {"m": [[S("k%d" % j, "p"), _sib(pool, numbered, lvl, j)] for j in range(pre)] +
                        [[S("block", "p"), cur]] +
                        [[S("k%d" % (pre + 1 + j), "p"), _sib(pool, numbered, lvl, pre + 1 + j)] for j in range(post)]}
    return cur


def _graft(play, graft, big):
    t = copy.deepcopy(play)
    where = graft["where"]
    if where == "excluded":
        path = graft["path"]
        pair = t["m"][path[0]]
        if len(path) == 2:
            pair = pair[1]["m"][path[1]]
        pair[1] = big
        return t
    entry = [S("zbig", "p"), big]
    target = t["m"]
    if where == "task":
        entry = M((S("name", "p"), S("big", "p")), (S("zbig", "p"), big))
        target = [kv for kv in t["m"] if kv[0].get("s") == "tasks"][0][1]["l"]
    elif where == "vars":
        target = [kv for kv in t["m"] if kv[0].get("s") == "vars"][0][1]["m"]
    if graft.get("front"):
        target.insert(0, entry)
    else:
        target.append(entry)
    return t


def _rep_len(n):
    if "rep" in n:
        unit, pre, mid, post = n["rep"]
        return len(unit) * (pre + post) + len(mid)
    if "m" in n:
        return max([max(_rep_len(k), _rep_len(v)) for k, v in n["m"]] or [0])
    if "l" in n:
        return max([_rep_len(x) for x in n["l"]] or [0])
    return 0


def _bucket(n, bounds):
    lo = 0
    for b in bounds:
        if n <= b:
            return "%d-%d" % (lo, b)
        lo = b + 1
    return "%d+" % lo


def check_scale(case):
    """digest injectivity / invariance for plays holding a value that is nested deep, has many items or a long string:
    whatever the size, a change in its innermost / last part changes the digest iff that part is not excluded"""
    frames, pool, numbered = case["frames"], case["pool"], case.get("numbered", False)
    depth = len(frames)
    width = max([f[1] + f[2] + 1 for f in frames] or [1])
    slen = max(_rep_len(case["tail_a"]), _rep_len(case["tail_b"]))
    where = case["graft"]["where"]
    labels = ["dim=" + case.get("dim", "?"), "graft=" + where, "levels=" + _bucket(depth, [8, 16, 32, 64, MAX_DEPTH]),
              "items=" + _bucket(width, [8, 64, 256, 1024]), "string=" + _bucket(slen, [64, 256, 4096, 65536])]
    a = _graft(case["a"], case["graft"], big_value(frames, pool, numbered, case["tail_a"]))
    b = _graft(case["a"], case["graft"], big_value(frames, pool, numbered, case["tail_b"]))
    try:
        r = _check_pair1({"mode": case["mode"], "a": a, "b": b, "edit": case["edit"],
                          "region": "excluded" if where == "excluded" else "any"})
    except Violation as v:
        small = dict((k, x) for k, x in v.details.items() if k.startswith("digest"))
        raise Violation("%s [the plays hold a large value (%d container levels, widest container %d items, longest "
                        "string %d characters; placed: %s) and differ only in its innermost part: %s -> %s]"
                        % (v.msg.split(" (serialised:")[0], depth, width, slen, where, jdump_short(case["tail_a"]),
                           jdump_short(case["tail_b"])), mode=case["mode"], levels=depth, items=width, string=slen, **small)
    labels += r["labels"]
    large = depth > 8 or width > 64 or slen > 256
    effective = any(l.startswith("differ-outside") or l == "same-cleaned/excluded-part-differs" for l in r["labels"])
    key = hashlib.sha1(repr([frames, pool, numbered, case["tail_a"], case["tail_b"], where]).encode("utf-8", "replace")).hexdigest()
    return {"nontrivial": large and effective, "labels": labels, "key": key}


def jdump_short(tree, limit=300):
    text = repr(tree)
    return text if len(text) <= limit else text[:limit] + "..."


SCALE_EDITS = ["scalar", "near", "type", "wrap", "unwrap", "insert", "delete", "reorder", "key-rename", "key-type",
               "scalar", "renest-in", "renest-out", "splice-item", "escape", "none"]
_SAFE_FRAGS = [f for f in FRAGS if not any(0xd800 <= ord(ch) <= 0xdfff for ch in f)]


def _log_size(draw, hi):
    """1 .. hi: next to a round number, or uniform on a logarithmic scale (Hypothesis favours small draws, above
    all in its first examples: they are mapped to the large sizes)"""
    if draw(st.booleans()):
        return _pick(draw, _size_marks(hi)[::-1])
    return max(1, min(hi, int(round(hi ** (1.0 - draw(st.integers(0, 1000)) / 1000.0)))))


def _position(draw, n):
    """(items before, items after) the place of the edit in a container / string of n + 1 parts: mostly at the far end"""
    how = draw(st.sampled_from(["end", "end", "end", "start", "middle"]))
    if how == "end":
        post = min(n, draw(st.integers(0, 2)))
        return n - post, post
    if how == "start":
        pre = min(n, draw(st.integers(0, 2)))
        return pre, n - pre
    pre = draw(st.integers(0, n))
    return pre, n - pre


@st.composite
def _scale_case(draw, tier):
    tree, excluded = draw(_play(signed=draw(st.booleans())))
    mode = draw(st.sampled_from(["py", "py", "yaml"]))
    big = 1 if tier == "quick" else 4
    dim = draw(st.sampled_from(["depth", "list", "string", "depth", "map", "deep+wide", "depth", "string"]))
    small = st.integers(0, 9).map(lambda x: max(0, x - 7))          # 0 0 0 0 0 0 0 0 1 2
    frames = []
    if dim in ("depth", "deep+wide"):
        d = (MAX_DEPTH - draw(st.integers(0, MAX_DEPTH - 1))) if draw(st.booleans()) else _pick(draw, _size_marks(MAX_DEPTH)[::-1])
        pattern = draw(st.sampled_from(["ml", "ml", "l", "m", "lm", "mml", "free"]))
        if pattern == "free":
            kinds = draw(st.lists(st.sampled_from("ml"), min_size=d, max_size=d))
        else:
            kinds = [pattern[i % len(pattern)] for i in range(d)]
        around = {"m": [draw(st.integers(0, 2)), draw(small)], "l": [draw(small), draw(small)]}    # e.g. `name:` before `block:`
        frames = [[k] + around[k] for k in kinds]
    else:
        frames = [[draw(st.sampled_from("ml")), draw(small), draw(small)] for _ in range(draw(st.integers(0, 3)))]
    if dim in ("list", "map", "deep+wide"):
        t = "l" if dim == "list" else "m" if dim == "map" else draw(st.sampled_from("lm"))
        hi = {"l": {"py": 1200 * big, "yaml": 300 * big}, "m": {"py": 600 * big, "yaml": 200 * big}}[t][mode]
        if dim == "deep+wide":
            hi = hi // 4
        pre, post = _position(draw, _log_size(draw, hi))
        frames.insert(draw(st.integers(0, len(frames))), [t, pre, post])
        frames = frames[:MAX_DEPTH]
    pool = draw(st.lists(st.one_of(_str_node, _str_node, _int_node, _scalar), min_size=1, max_size=3))
    if dim == "string":
        unit = "".join(draw(st.lists(st.sampled_from(_SAFE_FRAGS), min_size=1, max_size=3)))
        n = _log_size(draw, {"py": 70000 * big, "yaml": 3000 * big}[mode]) // len(unit)
        pre, post = _position(draw, n)
        op = draw(st.sampled_from(["char", "char", "drop-tail", "one-more", "shift", "case", "none"]))
        mid_a = draw(st.sampled_from(["x", "x", "", "'", "\\"]))
        rep_a = [unit, pre, mid_a, post]
        if op == "char":
            rep_b = [unit, pre, draw(st.sampled_from(["y", "X", "x ", "\"", "\n"])), post]
        elif op == "drop-tail":
            rep_b = [unit, pre, mid_a, 0] if post else [unit, max(pre - 1, 0), mid_a, 0] if pre else [unit, 0, mid_a + "y", 0]
        elif op == "one-more":
            rep_b = [unit, pre, mid_a, post + 1]
        elif op == "shift":
            rep_b = [unit, pre + 1, mid_a, post - 1] if post else [unit, pre, mid_a, post + 1]
        elif op == "case":
            rep_b = [unit, pre, mid_a.swapcase(), post] if mid_a.swapcase() != mid_a else [unit, pre, mid_a + u"\u200b", post]
        else:
            rep_b = list(rep_a)
        q = draw(st.sampled_from(["d", "d", "l", "s"]))
        shape = draw(st.sampled_from(["item", "value", "value", "key"]))
        other = draw(_scalar)

        def holder(rep):
            node = {"rep": rep, "q": q}
            if shape == "item":
                return {"l": [node, other]}
            if shape == "value":
                return {"m": [[S("k", "p"), node], [S("k2", "p"), other]]}
            return {"m": [[node, other]]}

        tail_a, tail_b, kind = holder(rep_a), holder(rep_b), "string-" + op
    else:
        n_items = 3 - draw(st.integers(0, 2))
        tail_a = norm(draw(st.one_of(
            st.lists(_value, min_size=n_items, max_size=n_items).map(lambda xs: {"l": xs}),
            st.lists(st.tuples(_key, _value), min_size=n_items, max_size=n_items).map(
                lambda kv: {"m": [[k, v] for k, v in kv]}))))
        kind = draw(st.sampled_from(SCALE_EDITS))
        root = {"m": [[S("x", "p"), tail_a]]}
        tail_b = tail_a
        if kind != "none":
            # (the edit is confined to the innermost part: the value of the only item of `root`)
            tail_b = _apply_edit(draw, root, kind, [[0]])["m"][0][1]
            if tail_b == tail_a:
                kind = "scalar-fallback"
                tail_b = _apply_edit(draw, root, "scalar", [[0]])["m"][0][1]
    graftable = []
    for path in excluded:
        pair = tree["m"][path[0]]
        if len(path) == 2:
            pair = pair[1]["m"][path[1]]
        if pair[0].get("s") not in ("vars", EXCL):
            graftable.append(path)
    where = draw(st.sampled_from(["task", "excluded", "top", "vars", "task", "excluded", "top"]))
    graft = {"where": where, "front": draw(st.booleans())}
    if where == "excluded":
        if graftable:
            graft["path"] = _pick(draw, graftable)
        else:
            graft["where"] = "top"
    return {"mode": mode, "a": tree, "dim": dim, "edit": kind, "graft": graft, "frames": frames, "pool": pool,
            "numbered": draw(st.booleans()), "tail_a": tail_a, "tail_b": tail_b}


def strat_scale(tier):
    return _scale_case(tier)


# ---------------------------------------------------------------------------------------------
# self-test of the harness' own models
# ---------------------------------------------------------------------------------------------

def selftest():
    assert canon(1) != canon("1") != canon(1.0) != canon(True) and canon(1) != canon(True) and canon(None) != canon("None")
    assert canon({"a": 1, "b": 2}) != canon({"b": 2, "a": 1})
    assert canon([[1], 2]) != canon([1, 2]) != canon([[1, 2]])
    # exclusion model on the documented examples of the repository's tests
    def mc(play):
        return model_clean(canon(play))
    assert mc({"hosts": "h", "vars": {EXCL: "/hosts"}}) == ("ok", canon({"vars": {EXCL: "/hosts"}}))
    assert mc({"vars": {EXCL: "/vars/insights_signature", SIG: "x"}}) == ("ok", canon({"vars": {EXCL: "/vars/insights_signature"}}))
    assert mc({"name": "t", "vars": {EXCL: "/name"}})[0] == "err"
    assert mc({"vars": {EXCL: "/vars/too/deep"}})[0] == "err"
    assert mc({"vars": {EXCL: "/hosts"}})[0] == "err"
    assert mc({"vars": {EXCL: "/vars/nope"}})[0] == "err"
    assert mc({"hosts": "h", "vars": {EXCL: "/hosts/x"}})[0] == "err"
    assert mc({"hosts": "h", "vars": {EXCL: "hosts"}})[0] == "ambiguous"
    assert mc({"hosts": "h", "vars": {EXCL: "/hosts,"}})[0] == "ambiguous"
    assert mc({"hosts": "h", "vars": {EXCL: "/hosts,/hosts"}})[0] == "ambiguous"
    assert mc({"hosts": "h", "vars": {EXCL: "/vars,/vars/" + EXCL}})[0] == "ambiguous"
    assert mc({"vars": {EXCL: "/vars/1", 1: "x"}})[0] == "err"
    # the imitation used to craft splices follows the documented examples
    assert _mstr("both\"'quotes") == "'both\"\\'quotes'" and _mstr("single'quote") == "\"single'quote\""
    assert mimic(M((S("key"), L(S("v1"), I(2), {"n": 0})))) == "ordereddict([('key', ['v1', 2, None])])"
    # emitter -> loader round trip on a fixed tree (every scalar style once)
    tree = M((S("name", "p"), S("it's \"x\" \\ \n\t\u200b\x00', '", "d")), (S("hosts", "s"), S("all", "s")),
             (I(2), {"i": 15, "r": "o"}), ({"b": True, "r": 1}, {"f": "1e+16"}), ({"n": 1}, {"n": 3}),
             (S("lit"), S("l1\nl2\n", "l")), (S("seq"), L(S("a b", "p"), L(), M(), L(L(I(-5)), M((S("k'"), S("", "s")))))),
             (S("vars"), M((S(EXCL, "p"), S("/hosts", "p")), (S(SIG), {"y": "6869"}))))
    pv = _pv()
    loaded = pv.load_playbook_yaml(emit_yaml(tree))[0]
    assert canon(loaded) == canon(build_py(tree)), (canon(loaded), canon(build_py(tree)), emit_yaml(tree))
    assert type(loaded).__name__ == "CommentedMap"
    # shared nodes: emitter / builder / graph model on a fixed play (vars referenced from a task, before its definition)
    plain = M((S("tasks", "p"), L(M((S("k"), S("v"))))), (S("hosts", "p"), S("h")),
              (S("vars", "p"), M((S(EXCL, "p"), S("/hosts,/vars/" + SIG)), (S(SIG, "p"), S("QUFB")), (S("g"), L(I(1))))))
    share = [{"src": ["vars"], "sites": [{"where": "task", "front": True}, {"where": "vars", "front": False}]},
             {"src": ["vars", "g"], "sites": [{"where": "top", "front": True}]}]
    tree, defs, applied = with_shared_nodes(plain, share)
    assert applied == 1 and list(defs) == ["a0"], (applied, defs)      # a reference to vars inside vars is refused
    tree, defs, applied = with_shared_nodes(plain, [{"src": ["vars"], "sites": [{"where": "task", "front": True}]}, share[1]])
    assert applied == 2
    for obj in (build_shared(tree, defs, {}), pv.load_playbook_yaml(emit_yaml(tree, defs))[0]):
        assert obj["tasks"][0]["vars"] is obj["vars"] and obj["zalias_a1_0"] is obj["vars"]["g"]
        root, nodes = graph_of(obj)
        assert g_expand(root, nodes) == canon(obj)
        want = {"zalias_a1_0": [1], "tasks": [{"name": "shared", "vars": {EXCL: "/hosts,/vars/" + SIG, "g": [1]}}, {"k": "v"}],
                "vars": {EXCL: "/hosts,/vars/" + SIG, "g": [1]}}
        assert model_clean_graph(obj) == ("ok", canon(want)), model_clean_graph(obj)
    # model_clean leaves its argument alone (it shares the untouched values with it)
    c0 = canon({"hosts": {"a": 1, "b": [2]}, "vars": {EXCL: "/hosts/a,/vars/" + SIG, SIG: "x"}, "t": [1]})
    c1 = copy.deepcopy(c0)
    assert model_clean(c0) == ("ok", canon({"hosts": {"b": [2]}, "vars": {EXCL: "/hosts/a,/vars/" + SIG}, "t": [1]})) and c0 == c1
    # large values: expansion of the compact description
    big = big_value([["m", 1, 1], ["l", 2, 0]], [S("p"), I(7)], True, L({"rep": ["ab", 2, "X", 1]}))
    assert build_py(big) == {"k0": "p0", "block": [7, "p1", ["ababXab"]], "k2": "p2"}, build_py(big)
    play = M((S("hosts"), S("h")), (S("tasks"), L(M((S("k"), S("v"))))), (S("vars"), M((S(EXCL), S("/hosts")))))
    assert build_py(_graft(play, {"where": "task", "front": True}, I(1)))["tasks"][0] == {"name": "big", "zbig": 1}
    assert build_py(_graft(play, {"where": "vars", "front": False}, I(1)))["vars"] == {EXCL: "/hosts", "zbig": 1}
    assert build_py(_graft(play, {"where": "excluded", "path": [0]}, I(1)))["hosts"] == 1
    assert _size_marks(40) == [3, 4, 5, 6, 7, 8, 9, 10, 11, 12, 15, 16, 17, 18, 19, 20, 21, 22, 31, 32, 33, 34]
    assert _near_class(canon([0.1]), canon([_ulps(0.1, 1)])) == "float/agree-in-16+-digits"
    assert _near_class(canon([0.1234567890123]), canon([0.1234567890124])) == "float/agree-in-12-15-digits"
    assert _near_class(canon([1.5]), canon([1.6])) == "float/agree-in-0-5-digits"
    assert _near_class(canon({"k": 2 ** 64}), canon({"k": 2 ** 64 + 1})) == "int/beyond-2**53"
    assert len(set(repr(_ulps(1.0, k)) for k in (-2, -1, 0, 1, 2))) == 5


# ---------------------------------------------------------------------------------------------
# text-level insertion: a repeated mapping key
# ---------------------------------------------------------------------------------------------

_TOPKEY = re.compile(r"^(- |  )([^\s#'\"\[\]{}&*!|>%@`-][^:#]*|'[^']*'|\"[^\"]*\"):( .*)?$")


def check_dupkey(case):
    """An element inserted into the playbook *text* under a key that already exists (a second `tasks:`,
    a second `become:`): the playbook is either refused or its digest differs from the signed one."""
    pv = _pv()
    text_a = emit_yaml(norm(case["a"]))
    try:
        doc = pv.load_playbook_yaml(text_a)
    except pv.PlaybookVerificationError:
        return {"nontrivial": False, "labels": ["yaml-a-unloadable"]}
    oa = observe(doc[0])
    if oa[0] != "ok":
        return {"nontrivial": False, "labels": ["a:" + oa[0]]}
    lines = text_a.split("\n")
    cands = []
    for i, l in enumerate(lines):
        m = _TOPKEY.match(l)
        if m and m.group(2) not in ("hosts", "vars"):
            cands.append((i, m.group(2)))
    if not cands:
        return {"nontrivial": False, "labels": ["no-top-level-key-to-repeat"]}
    i, key = cands[case["where"] % len(cands)]
    new = "  %s: %s" % (key, case["value"])
    pos = case["at"]
    if pos == "end":
        lines_b = [l for l in lines if l != ""] + [new, ""]
    else:
        # directly before the original key (the first line of the play carries the "- " marker)
        if lines[i].startswith("- "):
            lines_b = lines[:i] + ["- " + new[2:], "  " + lines[i][2:]] + lines[i + 1:]
        else:
            lines_b = lines[:i] + [new] + lines[i:]
    text_b = "\n".join(lines_b)
    labels = ["at=" + pos]
    try:
        docb = pv.load_playbook_yaml(text_b)
    except pv.PlaybookVerificationError:
        return {"nontrivial": True, "labels": labels + ["refused"], "key": [text_a, key, pos]}
    if not isinstance(docb, list) or len(docb) != 1 or not isinstance(docb[0], dict):
        return {"nontrivial": False, "labels": labels + ["b-not-one-play"]}
    ob = observe(docb[0])
    if ob[0] == "ok" and ob[1] == oa[1]:
        raise Violation("a playbook text with an inserted element under the repeated key %r loads and has the "
                        "digest of the original (the signature covers only one of the two values)" % key,
                        yaml_a=text_a, yaml_b=text_b)
    return {"nontrivial": True, "labels": labels + ["loaded:" + ob[0]], "key": [text_a, key, pos]}


@st.composite
def _dupkey_case(draw):
    tree, _excluded = draw(_play())
    return {"a": tree, "where": draw(st.integers(0, 7)), "at": draw(st.sampled_from(["end", "before"])),
            "value": draw(st.sampled_from(["dupZ", "[1, 2]", "{k: v}", "''", "~", "true", "0"]))}


def strat_dupkey(tier):
    return _dupkey_case()


SUBS = [
    Sub("dupkey", check_dupkey, strategy=strat_dupkey, quick=140, thorough=3000, workers_quick=2, workers_thorough=8),
    Sub("exhaustive", check_pair, custom=exhaustive, workers_quick=1, workers_thorough=1, budget_quick=60,
        budget_thorough=600),
    Sub("digest", check_pair, strategy=strat_digest, quick=360, thorough=5000, workers_quick=4, workers_thorough=16),
    Sub("exclusion", check_pair, strategy=strat_exclusion, quick=300, thorough=4000, workers_quick=2, workers_thorough=8),
    Sub("presence", check_presence, strategy=strat_presence, quick=220, thorough=3000, workers_quick=2, workers_thorough=8),
    Sub("verify", check_verify, strategy=strat_verify, quick=120, thorough=2000, workers_quick=4, workers_thorough=16),
    Sub("shared", check_shared, strategy=strat_shared, quick=110, thorough=1500, workers_quick=2, workers_thorough=8),
    Sub("playbook", check_playbook, strategy=strat_playbook, quick=60, thorough=400, workers_quick=2, workers_thorough=8),
    Sub("scale", check_scale, strategy=strat_scale, quick=55, thorough=2500, workers_quick=4, workers_thorough=8),
]

# Reproducers of collisions that remain after fixes/C18-1.patch and that no small safe patch removes
# (see design.d/C18.md).  They are outside the generated domain; the lead may pin them with
# Reg(name, "digest", case, expect="known", finding=<id>) once they are listed in known_findings.json.
_H = "  hosts: h\n  vars:\n    insights_signature_exclude: /hosts\n"
KNOWN_CANDIDATES = [
    ("anchored-boolean-is-int", {"yaml_a": "- become: &b true\n" + _H, "yaml_b": "- become: 1\n" + _H}),
    ("tagged-scalar-printed-raw", {"yaml_a": "- a: !unsafe \"'x'), ('b', 'y'\"\n" + _H, "yaml_b": "- a: x\n  b: y\n" + _H}),
    ("tag-not-covered", {"yaml_a": "- a: !unsafe x\n" + _H, "yaml_b": "- a: !vault x\n" + _H}),
]

_V = M((S(EXCL), S("/hosts")))
REGRESSIONS = [
    # C18-1: keys were printed raw between single quotes
    Reg("key-splice", "digest", {"mode": "py", "edit": "splice-key",
                                 "a": M((S("a"), S("x")), (S("b"), S("y")), (S("vars"), _V), (S("hosts"), S("h"))),
                                 "b": M((S("a', 'x'), ('b"), S("y")), (S("vars"), _V), (S("hosts"), S("h")))}),
    Reg("int-key-vs-str-key", "digest", {"mode": "yaml", "edit": "key-type",
                                         "a": M((I(1), S("x")), (S("vars"), _V), (S("hosts"), S("h"))),
                                         "b": M((S("1"), S("x")), (S("vars"), _V), (S("hosts"), S("h")))}),
    Reg("bool-null-keys", "digest", {"mode": "yaml", "edit": "key-type",
                                     "a": M(({"b": True}, {"n": 0}), ({"n": 0}, S("x")), (S("vars"), _V), (S("hosts"), S("h"))),
                                     "b": M((S("True"), {"n": 0}), (S("None"), S("x")), (S("vars"), _V), (S("hosts"), S("h")))}),
    Reg("key-swallows-nested-mapping", "digest", {"mode": "py", "edit": "splice-key", "raw": True,
                                                  "a": M((S("a"), M((S("b"), S("c"))))),
                                                  "b": M((S("a', ordereddict([('b"), S("c")))}),
    # corners that hold on the pinned tree
    Reg("type-changes", "digest", {"mode": "py", "edit": "type", "raw": True,
                                   "a": M((S("k"), L(I(1), S("1"), {"f": "1.0"}, {"b": True}, {"n": 0}))),
                                   "b": M((S("k"), L(S("1"), I(1), {"f": "1.0"}, S("True"), S("None"))))}),
    Reg("value-splice", "digest", {"mode": "yaml", "edit": "splice-item", "raw": True,
                                   "a": M((S("k"), L(S("a"), S('b"c')))), "b": M((S("k"), L(S("a', 'b\"c"))))}),
    Reg("excluded-only", "digest", {"mode": "yaml", "edit": "scalar",
                                    "a": M((S("hosts"), S("h1")), (S("vars"), _V), (S("t"), I(1))),
                                    "b": M((S("hosts"), L(S("h2"))), (S("vars"), _V), (S("t"), I(1)))}),
    # pinned known findings (input classes excluded from generation; see known_findings.json)
    Reg("anchored-boolean-is-int", "digest", dict(KNOWN_CANDIDATES[0][1]), expect="known", finding="C18-anchored-bool"),
    Reg("tagged-scalar-printed-raw", "digest", dict(KNOWN_CANDIDATES[1][1]), expect="known", finding="C18-custom-tag"),
    Reg("tag-not-covered", "digest", dict(KNOWN_CANDIDATES[2][1]), expect="known", finding="C18-custom-tag"),
    # false alarm corrected (found at VERIF_SEED=11): lone surrogate inside an excluded element + "uncleaned" revocation entry
    Reg("verify-surrogate-in-excluded-element", "verify", {"a": {"m": [[{"q": "p", "s": "name"}, {"q": "d", "s": "0"}], [{"q": "p", "s": "hosts"}, {"m": [[{"q": "d", "s": "0"}, {"l": [{"q": "d", "s": "\ud83d"}]}]]}], [{"q": "p", "s": "tasks"}, {"l": []}], [{"q": "p", "s": "vars"}, {"m": [[{"q": "p", "s": "insights_signature"}, {"q": "d", "s": "AA=="}], [{"q": "p", "s": "insights_signature_exclude"}, {"q": "d", "s": "/vars/insights_signature,/hosts"}]]}]]}, "b": None, "mode": "py", "rev_hex": "lower", "rev_names": "unique", "revoked": ["uncleaned"]}),
    # corners of the size / precision dimensions that hold on the pinned tree (round 5)
    Reg("adjacent-numbers", "digest", {"mode": "yaml", "edit": "near", "raw": True,
                                       "a": M((S("k"), L({"f": "0.1"}, {"f": "1234567890123.0"}, {"i": 2 ** 64}, {"f": "-0.0"}))),
                                       "bs": [{"b": M((S("k"), L({"f": "0.10000000000000002"}, {"f": "1234567890123.0"}, {"i": 2 ** 64}, {"f": "-0.0"})))},
                                              {"b": M((S("k"), L({"f": "0.1"}, {"f": "1234567890123.0002"}, {"i": 2 ** 64}, {"f": "-0.0"})))},
                                              {"b": M((S("k"), L({"f": "0.1"}, {"f": "1234567890123.0"}, {"i": 2 ** 64 + 1}, {"f": "-0.0"})))},
                                              {"b": M((S("k"), L({"f": "0.1"}, {"f": "1234567890123.0"}, {"i": 2 ** 64}, {"f": "0.0"})))}]}),
    Reg("deep-blocks", "scale", {"mode": "yaml", "a": M((S("hosts"), S("h")), (S("tasks"), L()), (S("vars"), _V)),
                                 "dim": "depth", "edit": "scalar", "graft": {"where": "task", "front": False},
                                 "frames": [["m", 1, 0], ["l", 0, 0]] * 45, "pool": [S("stage")], "numbered": True,
                                 "tail_a": M((S("command"), S("/usr/bin/true"))), "tail_b": M((S("command"), S("/usr/bin/false")))}),
    Reg("long-sequence-last-item", "scale", {"mode": "py", "a": M((S("hosts"), S("h")), (S("tasks"), L()), (S("vars"), _V)),
                                             "dim": "list", "edit": "scalar", "graft": {"where": "top", "front": True},
                                             "frames": [["l", 5000, 0]], "pool": [S("x"), I(1)], "numbered": False,
                                             "tail_a": L(S("a")), "tail_b": L(S("b"))}),
    # false alarm corrected (thorough sweep, VERIF_SEED=1): edited play with a lone surrogate outside the excluded elements
    Reg("verify-edited-play-unencodable", "verify", {"a": {"m": [[{"q": "p", "s": "tasks"}, {"l": []}], [{"q": "p", "s": "vars"}, {"m": [[{"q": "p", "s": "insights_signature"}, {"q": "d", "s": "AA=="}], [{"q": "p", "s": "insights_signature_exclude"}, {"q": "d", "s": "/vars/insights_signature"}]]}]]}, "b": {"m": [[{"f": "1.0"}, {"m": [[{"q": "d", "s": "00"}, {"f": "1.0"}], [{"q": "d", "s": "0"}, {"q": "d", "s": "\ud83d"}]]}], [{"q": "p", "s": "tasks"}, {"l": []}], [{"q": "p", "s": "vars"}, {"m": [[{"q": "p", "s": "insights_signature"}, {"q": "d", "s": "AA=="}], [{"q": "p", "s": "insights_signature_exclude"}, {"q": "d", "s": "/vars/insights_signature"}]]}]]}, "mode": "py", "rev_hex": "lower", "rev_names": "unique", "revoked": ["self"]}),
    Reg("deeper-request", "exclusion", {"mode": "py", "a": M((S("vars"), M((S(EXCL), S("/vars/a/b")), (S("a"), M((S("b"), I(1)))))))}),
]
