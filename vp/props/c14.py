"""C14 - base parsers accept well-formed content and reject bad content as documented.

Sub-checks (all on throw-away subclasses, contexts built with insights.core.context.Context):

command    CommandParser: the documented error phrases (any letter case, any position) are rejected
           with ContentException before parse_content runs; everything else reaches parse_content
           as the identical list.
json       JSONParser: data == value for mapping/sequence documents (also behind noise lines),
           SkipComponent for empty / null, ParseException for every non-document, nothing else.
yaml       YAMLParser: the same through yaml.safe_dump renderings, ignore_lines honoured.
log_get    TextFileOutput/LogFileOutput.get (+ `in`, keep_scan/last_scan/token_scan): exactly the
           lines containing the terms (all/any), original order, first/last `num`.
log_after  LogFileOutput.get_after against a reference state machine over the generated datetimes.
log_history  several log parser classes (composed str/list/dict time formats that share labels / single
           formats / form with one another, sub-classes, several objects of one class, lazy loading)
           searched one after the other in one process: every search answers as if it were the only one.
framework  a multi-output spec feeding a command parser through the dependency runner.
provider   the five families above (same generators and oracles) with the content delivered by the real
           content providers - a file below a temporary root read by TextFileProvider / SerializedOutputProvider
           (direct, or made by a simple_file / glob_file / first_file spec evaluated under an archive context),
           `cat file` through CommandOutputProvider / simple_command, DatasourceProvider - and with the
           characters text layers treat specially inside lines (VT FF FS GS RS NEL LS PS, other controls and
           blanks), trailing blanks, empty first / last lines, files without final newline.
"""
import datetime
import json

from hypothesis import strategies as st

from vp.core import Sub, Reg, Violation

PROPERTY = "C14"
RULE = ("command: outputs of 0-6 lines built from filler, near-miss phrases and the documented error "
        "phrases in generated letter case at generated positions, optional extra_bad_lines; "
        "non-trivial = a documented phrase in non-lower case inside a longer line. json/yaml: recursive "
        "values (dict/list roots, unicode, big ints, finite floats) rendered with varying "
        "indent/separators/flow style, optional noise / ignored lines, plus non-documents (truncations, "
        "single-character deletions, garbage, concatenations, unconstructible tagged scalars, deep "
        "nesting), empty and null documents; non-trivial = nested value behind noise (json) / with an "
        "ignored line or flow style (yaml), or a non-document. log_get: lines over a small vocabulary, "
        "terms as str/list, all/any, num, reverse; non-trivial = some but not all lines match. "
        "log_after: stamped and continuation lines, stamps rendered from generated datetimes in 14 "
        "shipped time formats (str/list/dict, with and without year, zero/space padded day), times "
        "scattered around the query time incl. equality and Dec/Jan boundaries; non-trivial = lines on "
        "both sides of the query time and a continuation line. log_history: 1-3 parser classes/objects per "
        "case (time_format composed from 11 shipped single formats as str / list / dict with labels from a "
        "pool of 6, later ones frequently derived from an earlier one: same labels - other formats, same "
        "first/last format, same formats - other labels/form/order; sub-class with/without own format, "
        "second object of a class, LazyLogFileOutput), each with its own log, then every parser searched "
        "in a generated order plus 0-3 further searches (get_after, some get); non-trivial = two parsers "
        "with different time formats searched and a later search expects some but not all lines. "
        "provider: one of the five families (json/yaml leaves, keys and noise lines, command/log lines and log "
        "messages additionally salted with VT FF FS GS RS NEL U+2028 U+2029 and other control / blank characters; "
        "search terms cut out of a line around such a character) x a delivery route (TextFileProvider with no / "
        "HostArchive / SosArchive / SerializedArchive / Host context, SerializedOutputProvider, simple_file / "
        "glob_file / first_file evaluated by dr.run, CommandOutputProvider / simple_command running cat, "
        "DatasourceProvider(list)) x file with/without final newline; non-trivial = content read from a file or a "
        "process and some line holds one of the special characters. "
        "Distinct by the whole case.")
ASSUMPTIONS = [
    "python's json module and PyYAML (same loader class the parser uses) define what a document's "
    "value is / whether a text is a document; every generated 'valid' case is additionally tied to "
    "the generated value itself",
    "C/POSIX locale for %a/%b/%p names (strftime and strptime of the same process)",
    "the phrases named in the CommandParser documentation are the must-reject set; the class's current "
    "lists (read at run time) bound what may be rejected",
    "provider: a file of an archive is a sequence of lines separated by LF (a last empty line exists through the "
    "LF after it); /bin/cat writes the file's bytes to its standard output unchanged",
    "log_history runs every case in a forked copy of the worker that ends with the case (os.fork), so a "
    "history consists of exactly the parsers and searches of the case",
]
EXCLUDED = [
    "JSON/YAML scalar root documents: JSON left unasserted (only: value, skip or parse error, no other "
    "exception type); whitespace-only JSON content; noise lines that start with { or [",
    "JSON/YAML documents whose root is an EMPTY mapping/sequence: statement is ambiguous ('valid "
    "mapping' vs 'empty document'); value equality or SkipComponent are both accepted",
    "29 February in year-less log formats (strptime itself rejects it): shifted to 28 February by the generator",
    "%A/%B locale names, time zones, time-only formats (%H:%M:%S without a date)",
    "extra_bad_lines containing upper-case letters (documented: lower case)",
    "more than one timestamp-shaped substring per log line; digits in log message text",
    "log_history: time_format lists/dicts that mix formats with and without a year, or that hold two formats "
    "of which one is found inside stamps of the other (the 3 pairs in CONFUSABLE): which format such a stamp "
    "has is not stated",
    "provider: CR inside a line (text mode reading turns a lone CR / CRLF into a line end; what should happen "
    "to it is not stated); undecodable bytes; DatasourceProvider built from one string; StreamParser / stream()",
    "provider, live command output only (CommandOutputProvider / simple_command): lines holding VT FF FS GS RS "
    "NEL U+2028 U+2029 - ExecutionContext.shell_out cuts there on the unchanged tree, pinned finding "
    "C07-host-linebreak-chars - and empty output under HostContext (documented: an empty spec is not collected)",
]

# ------------------------------------------------------------------------------------------------
# command
# ------------------------------------------------------------------------------------------------

DOC_SINGLE = ["no such file or directory", "not a directory", "command not found", "no module named",
              "no files found for"]
DOC_MULTI = ["missing dependencies:"]
NEAR = ["no such file", "command not  found", "not a  directory", "missing dependencies", "no module",
        "no files found", "command found", "nosuchfileordirectory", "no-such-file-or-directory",
        "missing dependencies :", "file or directory"]
EXTRA_POOL = ["invalid option", "timed out", "usage:", "error: cannot", "x"]

_fill = st.text(alphabet=st.sampled_from(list(u"abcdefgNOT xyz/.:-_'\"(){}[]=,0123456789\t") + [u"é", u"中", u"K", u"İ"]),
                max_size=16)


@st.composite
def _cased(draw, phrase):
    mode = draw(st.sampled_from(["lower", "upper", "title", "random", "random", "one"]))
    if mode == "lower":
        return phrase
    if mode == "upper":
        return phrase.upper()
    if mode == "title":
        return phrase.title()
    idx = [i for i, c in enumerate(phrase) if c.isalpha()]
    if not idx:
        return phrase
    if mode == "one":
        i = idx[draw(st.integers(0, len(idx) - 1))]
        return phrase[:i] + phrase[i].upper() + phrase[i + 1:]
    flags = draw(st.lists(st.booleans(), min_size=len(phrase), max_size=len(phrase)))
    return "".join(c.upper() if f else c for c, f in zip(phrase, flags))


@st.composite
def _cmd_case(draw):
    n = draw(st.sampled_from([0, 1, 1, 1, 1, 2, 2, 3, 4, 6]))
    extra = draw(st.one_of(st.none(), st.none(), st.lists(st.sampled_from(EXTRA_POOL), min_size=0, max_size=2)))
    lines = []
    for _ in range(n):
        kind = draw(st.sampled_from(["fill", "fill", "fill", "single", "single", "multi", "near", "extra", "blank"]))
        if kind == "fill":
            lines.append(draw(_fill))
            continue
        if kind == "blank":
            lines.append(draw(st.sampled_from(["", " ", "\t"])))
            continue
        if kind == "single":
            ph = draw(_cased(draw(st.sampled_from(DOC_SINGLE))))
        elif kind == "multi":
            ph = draw(_cased(draw(st.sampled_from(DOC_MULTI))))
        elif kind == "near":
            ph = draw(_cased(draw(st.sampled_from(NEAR))))
        else:
            ph = draw(_cased(draw(st.sampled_from(EXTRA_POOL))))
        pos = draw(st.sampled_from(["alone", "start", "end", "middle", "middle"]))
        pre = draw(_fill) if pos in ("end", "middle") else ""
        suf = draw(_fill) if pos in ("start", "middle") else ""
        lines.append(pre + ph + suf)
    return {"lines": lines, "extra": extra}


def strat_command(tier):
    return _cmd_case()


def _ascii_lower(s):
    return "".join(chr(ord(c) + 32) if "A" <= c <= "Z" else c for c in s)


_BASELINE = {}


def _plain_context(lines, path):
    """the hand-made context of the five original sub-checks: the content is the list itself"""
    from insights.core.context import Context
    return Context(content=lines, path=path)


def check_command(case, mk=_plain_context):
    from insights.core import CommandParser
    from insights.core.exceptions import ContentException

    lines = list(case["lines"])
    extra = case["extra"]
    seen = []

    class P(CommandParser):
        def parse_content(self, content):
            seen.append(content)

    # the class-wide phrase lists as they are before any parser of this process was given extra
    # phrases (read once per process): extra_bad_lines belong to the one parser they are passed to
    if "single" not in _BASELINE:
        _BASELINE["single"] = list(getattr(CommandParser, "_CommandParser__bad_single_lines", DOC_SINGLE))
        _BASELINE["multi"] = list(getattr(CommandParser, "_CommandParser__bad_lines", DOC_MULTI))
    cur_single = list(_BASELINE["single"])
    cur_multi = list(_BASELINE["multi"])
    ex = list(extra or [])

    def hit(phrases, lower):
        return [p for p in phrases for l in lines if p in lower(l)]

    doc_list = DOC_SINGLE if len(lines) == 1 else (DOC_MULTI if len(lines) > 1 else [])
    cur_list = cur_single if len(lines) == 1 else (cur_multi if len(lines) > 1 else [])
    must = hit(doc_list, _ascii_lower) + hit(ex, _ascii_lower)
    may = hit(cur_list, lambda s: s.lower()) + hit(ex, lambda s: s.lower())

    ctx = mk(lines, "/usr/bin/some_command")
    obj = None
    rejected = False
    try:
        if extra is None:
            obj = P(ctx)
        else:
            obj = P(ctx, extra_bad_lines=list(extra))
    except ContentException:
        rejected = True
    except Exception as e:  # noqa
        raise Violation("CommandParser raised %s (%s), neither parsed nor ContentException"
                        % (type(e).__name__, e), lines=lines, extra=extra)
    if rejected:
        if seen:
            raise Violation("parse_content ran although the content was rejected", lines=lines, extra=extra)
        if not may:
            raise Violation("output without any error phrase was rejected with ContentException",
                            lines=lines, extra=extra)
    else:
        if must:
            raise Violation("output containing the documented error phrase %r was parsed" % must[0],
                            lines=lines, extra=extra, phrases=must)
        if len(seen) != 1 or seen[0] != case["lines"] or not isinstance(seen[0], list):
            raise Violation("parse_content did not receive the output unchanged", lines=lines,
                            received=seen)
        if obj is None:
            raise Violation("no parser object although nothing was raised")
    labels = ["rejected" if rejected else "accepted", "lines=%s" % ("0" if not lines else "1" if len(lines) == 1 else "n")]
    # a second, different parser created afterwards without extra phrases: output that merely contains
    # one of the first parser's extra phrases is ordinary output for it and must reach it unchanged
    if ex:
        for form in ("single", "multi"):
            probe = ["zq " + ex[0] + " zq"] + (["second zq line"] if form == "multi" else [])
            base_list = cur_single if form == "single" else cur_multi
            if any(ph in l.lower() for ph in base_list for l in probe):
                continue
            seen2 = []

            class Q(CommandParser):
                def parse_content(self, content):
                    seen2.append(content)
            try:
                Q(mk(list(probe), "/usr/bin/other_command"))
            except ContentException:
                raise Violation("after a parser was created with extra_bad_lines=%r, a different command parser "
                                "without extra phrases rejects the ordinary output %r" % (ex, probe),
                                first_lines=lines, extra=extra)
            if seen2 != [probe]:
                raise Violation("parse_content of the second parser did not receive its output unchanged",
                                received=seen2, probe=probe)
            labels.append("followup-parser-unaffected")
    nt = False
    for p in must:
        for l in lines:
            if p in _ascii_lower(l) and p not in l:
                labels.append("phrase-nonlower")
                if len(l) > len(p):
                    nt = True
                    labels.append("phrase-nonlower-inside-longer-line")
    if len(lines) > 1 and hit(DOC_SINGLE, _ascii_lower) and not rejected:
        labels.append("single-phrase-in-multiline-accepted")
        nt = True
    if len(lines) == 1 and hit(DOC_MULTI, _ascii_lower) and not rejected:
        labels.append("multi-phrase-in-single-line-accepted")
    if hit(ex, _ascii_lower):
        labels.append("extra-hit")
    if hit(NEAR, _ascii_lower) and not rejected:
        labels.append("near-miss-accepted")
    return {"nontrivial": nt, "labels": sorted(set(labels))}


# ------------------------------------------------------------------------------------------------
# values shared by json / yaml
# ------------------------------------------------------------------------------------------------

_txt = st.one_of(st.text(max_size=6),
                 st.text(alphabet=st.sampled_from(list(u"ab {}[]:,#'\"-\\/\n\t?&*!|>%@`") + [u"é", u"中", u" ", u"😀"]), max_size=8),
                 st.sampled_from(["null", "true", "no", "~", "1", "1.5", "2001-01-01", "{", "[", "- a", "a: b", ""]),
                 # embedded files (a script in a config map, a unit file): several lines, some of which look like
                 # comments, document markers or keys of the enclosing format
                 st.lists(st.sampled_from(["#!/bin/sh", "# a comment", "echo a", "  # indented comment", "x = 1 # tail",
                                           "", "#", "key: value", "- item", "---", "...", "[section]", ";semi"]),
                          min_size=2, max_size=5).map(lambda ls: "\n".join(ls)),
                 st.lists(st.sampled_from(["#!/bin/sh", "# a comment", "echo a", "#"]), min_size=1, max_size=3).map(
                     lambda ls: "\n".join(ls) + "\n"))
_scalar = st.one_of(st.none(), st.booleans(), st.integers(-10 ** 6, 10 ** 6), st.integers(-10 ** 30, 10 ** 30),
                    st.floats(allow_nan=False, allow_infinity=False), _txt)


def _values(keys, scalar=None):
    return st.recursive(_scalar if scalar is None else scalar, lambda ch: st.one_of(st.lists(ch, max_size=4),
                                                      st.dictionaries(keys, ch, max_size=4)), max_leaves=10)


def _roots(keys, scalar=None):
    v = _values(keys, scalar)
    return st.one_of(st.lists(v, max_size=5), st.dictionaries(keys, v, max_size=5),
                     st.lists(v, min_size=1, max_size=3), st.dictionaries(keys, v, min_size=1, max_size=3))


def strict_eq(a, b):
    """deep equality that also distinguishes bool/int/float/str/None and list/dict"""
    if type(a) is not type(b):
        return False
    if isinstance(a, dict):
        if len(a) != len(b):
            return False
        for k in a:
            if k not in b:
                return False
            # keys: 1 and True hash alike; require the same key types
            kb = [x for x in b if x == k and type(x) is type(k)]
            if not kb or not strict_eq(a[k], b[k]):
                return False
        return True
    if isinstance(a, list):
        return len(a) == len(b) and all(strict_eq(x, y) for x, y in zip(a, b))
    if isinstance(a, float) and a != a:
        return b != b           # NaN (the JSON decoder accepts the literal NaN): equal to itself here
    return a == b


def _depth(v):
    if isinstance(v, dict):
        return 1 + max([_depth(x) for x in v.values()] or [0])
    if isinstance(v, list):
        return 1 + max([_depth(x) for x in v] or [0])
    return 0


# ------------------------------------------------------------------------------------------------
# json
# ------------------------------------------------------------------------------------------------

_noise_line = st.one_of(
    st.sampled_from(["", "   ", "WARNING: {not json}", "x [1, 2]", "Loaded plugins: a, b", 'foo {"a": 1}',
                     "null", "1", "\"s\"", "}", "]", "a{", "-[", "time=\"x\" level=warning msg=\"[a]\""]),
    st.builds(lambda a, b: a + b, st.sampled_from(list("abW#/\"'}]:,0-")), st.text(alphabet=" ab{}[]:,\"1", max_size=10)),
)


@st.composite
def _json_text(draw, value):
    indent = draw(st.sampled_from([None, None, 0, 1, 2, 4, "\t"]))
    seps = draw(st.sampled_from([None, None, [",", ":"], [" , ", " : "]]))
    kw = {"indent": indent, "ensure_ascii": draw(st.booleans()), "sort_keys": draw(st.booleans())}
    if seps is not None:
        kw["separators"] = tuple(seps)
    return json.dumps(value, **kw)


@st.composite
def _json_case(draw, scalar=None, noise_line=None, keys=None):
    """scalar / noise_line / keys: other leaf, noise-line and key strategies than the standard ones
    (the `provider` sub-check passes alphabets with the characters text layers treat specially)"""
    noise_line = _noise_line if noise_line is None else noise_line
    keys = st.text(max_size=5) if keys is None else keys
    kind = draw(st.sampled_from(["valid"] * 8 + ["truncate", "truncate", "delete", "delete", "garbage", "concat",
                                                 "empty", "null", "null", "scalar", "insert", "deep"]))
    if kind == "empty":
        return {"kind": kind, "lines": [], "noise": 0, "value": None}
    if kind == "deep":
        return {"kind": kind, "n": draw(st.sampled_from([3000, 50000])), "lines": [], "noise": 0, "value": None}
    if kind == "null":
        lines = draw(st.sampled_from([["null"], [" null "], ["", "null"], ["null", ""], ["\tnull", "  "]]))
        return {"kind": kind, "lines": lines, "noise": 0, "value": None}
    if kind == "garbage":
        lines = draw(st.lists(st.one_of(noise_line, _fill), min_size=1, max_size=4))
        return {"kind": kind, "lines": lines, "noise": 0, "value": None}
    if kind == "scalar":
        v = draw(st.one_of(st.booleans(), st.integers(-999, 10 ** 20), st.floats(allow_nan=False, allow_infinity=False),
                           st.text(max_size=5)))
        return {"kind": kind, "lines": json.dumps(v).split("\n"), "noise": 0, "value": v}
    value = draw(_roots(keys, scalar))
    text = draw(_json_text(value))
    noise = draw(st.one_of(st.just([]), st.just([]), st.lists(noise_line, min_size=1, max_size=3)))
    if kind == "valid":
        lead = draw(st.sampled_from(["", "", " ", "\t", "    "]))
        trail = draw(st.sampled_from([[], [], [""], ["  ", ""]]))
        lines = noise + (lead + text).split("\n") + trail
        return {"kind": kind, "lines": lines, "noise": len(noise), "value": value}
    if kind == "truncate":
        p = draw(st.integers(1, max(1, len(text) - 1)))
        text = text[:p]
    elif kind == "delete":
        p = draw(st.integers(0, len(text) - 1))
        text = text[:p] + text[p + 1:]
    elif kind == "insert":
        p = draw(st.integers(0, len(text)))
        text = text[:p] + draw(st.sampled_from(list("{}[],:\"x1 ") + ["\n"])) + text[p:]
    else:
        text = text + draw(st.sampled_from(["", " ", "\n", ","])) + draw(_json_text(draw(_roots(st.text(max_size=3)))))
    return {"kind": kind, "lines": noise + text.split("\n"), "noise": len(noise), "value": None}


def strat_json(tier):
    return _json_case()


def _json_reference(lines):
    """(class, value) of an arbitrary content by the documented rule: the document starts at the
    first line whose stripped text starts with { or [ (else at line 0); python's json decides."""
    if not lines:
        return "skip", None, 0
    start = 0
    for i, l in enumerate(lines):
        s = l.strip()
        if s.startswith("{") or s.startswith("["):
            start = i
            break
    text = "\n".join(lines[start:])
    if not "".join(lines).strip():
        return "blank", None, start
    try:
        v = json.loads(text)
    except (ValueError, RecursionError):
        return "invalid", None, start
    if v is None:
        return "skip", None, start
    if isinstance(v, (dict, list)):
        return "value", v, start
    return "scalar", v, start


def check_json(case, mk=_plain_context):
    from insights.core import JSONParser
    from insights.core.exceptions import ParseException, SkipComponent, ContentException

    class J(JSONParser):
        pass

    lines = list(case["lines"])
    kind = case["kind"]
    if kind == "deep":
        lines = ["[" * int(case["n"])]
    if kind == "valid":
        cls, want, start = "value", case["value"], case["noise"]
    elif kind == "deep":
        cls, want, start = "invalid", None, 0
    else:
        cls, want, start = _json_reference(lines)
    outcome, obj = None, None
    try:
        obj = J(mk(lines, "/tmp/doc.json"))
        outcome = "value"
    except ContentException as e:
        raise Violation("JSONParser raised ContentException", lines=lines[:20], error=str(e))
    except SkipComponent:
        outcome = "skip"
    except ParseException:
        outcome = "invalid"
    except Exception as e:  # noqa
        raise Violation("JSONParser raised %s instead of ParseException/SkipComponent: %s"
                        % (type(e).__name__, str(e)[:200]), lines=[l[:200] for l in lines[:20]], kind=kind)
    labels = ["kind=" + kind, "class=" + cls, "outcome=" + outcome]
    nt = False
    if cls == "value":
        empty_root = len(want) == 0
        if outcome == "skip" and empty_root:
            labels.append("empty-root-skipped")
        elif outcome != "value":
            raise Violation("valid JSON %s document was answered with %s" % (type(want).__name__, outcome),
                            lines=lines, value=want)
        else:
            if not strict_eq(obj.data, want):
                raise Violation("JSONParser.data differs from the document's value", lines=lines, value=want,
                                data=repr(obj.data)[:500])
            if kind == "valid" and list(obj.unparsed_lines) != lines[:start]:
                raise Violation("unparsed_lines differs from the noise lines before the document",
                                lines=lines, noise=lines[:start], unparsed=obj.unparsed_lines)
        if start:
            labels.append("noise")
            if any(("{" in l or "[" in l) for l in lines[:start]):
                labels.append("noise-with-bracket-inside")
        if _depth(want) >= 2:
            labels.append("nested")
        nt = bool(start) and _depth(want) >= 2
    elif cls == "skip":
        if outcome != "skip":
            raise Violation("empty/null JSON content must be a SkipComponent, got %s" % outcome, lines=lines)
        nt = True
    elif cls == "invalid":
        if outcome != "invalid":
            raise Violation("non-document must be a ParseException, got %s" % outcome, lines=[l[:300] for l in lines],
                            data=repr(getattr(obj, "data", None))[:300])
        nt = True
    else:
        # scalar roots / whitespace-only content: deliberately unasserted beyond the exception types
        if outcome == "value" and cls == "scalar" and not strict_eq(obj.data, want):
            raise Violation("JSONParser.data differs from the scalar document's value", lines=lines)
        labels.append("unasserted")
    return {"nontrivial": nt, "labels": labels}


# ------------------------------------------------------------------------------------------------
# yaml
# ------------------------------------------------------------------------------------------------

YAML_BROKEN = ["a: [1, 2", "a: b: c", "\ta: 1", "{", "key: 'unterminated", "@foo", "a: *x", "a: 1\n---\nb: 2",
               "a: 2001-13-45", "x: !!int abc", "x: !!float abc", "x: !!timestamp 'foo'",
               "a: !!python/object:os.system x", "- a\nb: 1", "a: 1\n  b: 2", "? [a]\n: b", "{[1, 2]: 3}",
               "<<: 1", "a: 'x' y", "[a, b]]", "- 2021-02-30 10:00:00"]
YAML_EMPTY = ["", "# only a comment", "---", "null", "~", "--- ~", "\n\n", "  # c\n\n# d", "--- null\n..."]
YAML_SCALAR = ["abc", "42", "true", "'x'", "1.5", "2001-01-01", "a b c", "\"q\"", "|\n  text", "!!str 5"]
IGNORE_POOL = ["warning", "notice:", "grubby", "+ ", "error: ", "debug"]
IGNORE_TAIL = [": [", " {x", ": 'open", " - a: : b", ": ]", "\t:"]


def _loader():
    import yaml
    return getattr(yaml, "CSafeLoader", yaml.SafeLoader)


def _yaml_reference(text):
    import yaml
    try:
        v = yaml.load(text, Loader=_loader())
    except Exception:  # noqa  (anything: YAMLError, ValueError, AttributeError, RecursionError)
        return "invalid", None
    if v is None:
        return "skip", None
    if isinstance(v, (dict, list)):
        return "value", v
    return "scalar", v


# (string keys only: a case must survive a JSON round trip for replay)
_ykeys = st.one_of(st.text(alphabet="abcXYZ_- .", min_size=1, max_size=6), _txt)


@st.composite
def _yaml_case(draw, scalar=None, keys=None):
    import yaml
    keys = _ykeys if keys is None else keys
    kind = draw(st.sampled_from(["valid"] * 9 + ["truncate", "delete", "broken", "broken", "empty", "scalar", "garbage"]))
    if kind == "broken":
        return {"kind": kind, "lines": draw(st.sampled_from(YAML_BROKEN)).split("\n"), "ignore": [], "value": None, "ignored": []}
    if kind == "empty":
        t = draw(st.sampled_from(YAML_EMPTY + ["<none>"]))
        return {"kind": kind, "lines": [] if t == "<none>" else t.split("\n"), "ignore": [], "value": None, "ignored": []}
    if kind == "scalar":
        return {"kind": kind, "lines": draw(st.sampled_from(YAML_SCALAR)).split("\n"), "ignore": [], "value": None, "ignored": []}
    if kind == "garbage":
        return {"kind": kind, "lines": draw(st.lists(st.one_of(_fill, _noise_line), min_size=1, max_size=4)),
                "ignore": [], "value": None, "ignored": []}
    value = draw(_roots(keys, scalar))
    text = yaml.safe_dump(value, default_flow_style=draw(st.sampled_from([False, False, True, None])),
                          allow_unicode=draw(st.booleans()), indent=draw(st.sampled_from([None, 2, 4])),
                          width=draw(st.sampled_from([80, 20, 1000])), explicit_start=draw(st.booleans()),
                          sort_keys=draw(st.booleans()),
                          default_style=draw(st.sampled_from([None, None, None, None, "|", "|", ">", "'", '"'])))
    lines = text.split("\n")
    if kind == "truncate":
        p = draw(st.integers(1, max(1, len(text) - 1)))
        return {"kind": kind, "lines": text[:p].split("\n"), "ignore": [], "value": None, "ignored": []}
    if kind == "delete":
        p = draw(st.integers(0, len(text) - 1))
        return {"kind": kind, "lines": (text[:p] + text[p + 1:]).split("\n"), "ignore": [], "value": None, "ignored": []}
    # valid: optionally configure ignore_lines and inject lines that start with one of the keywords
    ignore = draw(st.one_of(st.just([]), st.lists(st.sampled_from(IGNORE_POOL), min_size=1, max_size=3, unique=True)))
    ignore = [k for k in ignore if not any(l.lstrip().lower().startswith(k) for l in lines)]
    ignored = []
    if ignore:
        for _ in range(draw(st.integers(0, 3))):
            kw = draw(_cased(draw(st.sampled_from(ignore))))
            new = draw(st.sampled_from(["", " ", "    ", "\t"])) + kw + draw(st.sampled_from(IGNORE_TAIL))
            at = draw(st.integers(0, len(lines)))
            lines.insert(at, new)
            ignored = [i + 1 if i >= at else i for i in ignored] + [at]
    return {"kind": kind, "lines": lines, "ignore": ignore, "value": value, "ignored": sorted(ignored)}


def strat_yaml(tier):
    return _yaml_case()


def check_yaml(case, mk=_plain_context):
    import yaml
    from insights.core import YAMLParser
    from insights.core.exceptions import ParseException, SkipComponent, ContentException

    Y = type("Y", (YAMLParser,), {"ignore_lines": tuple(case["ignore"])})
    lines = list(case["lines"])
    kind = case["kind"]
    kept = [l for i, l in enumerate(lines) if i not in set(case["ignored"])]
    labels = ["kind=" + kind]
    if kind == "valid":
        # the trusted library itself must round-trip the rendering, otherwise the case says nothing
        # about the parser
        rcls, rval = _yaml_reference("\n".join(kept))
        if rcls != "value" or not strict_eq(rval, _yamlish(case["value"])):
            return {"nontrivial": False, "labels": labels + ["library-roundtrip-miss"]}
        cls, want = "value", _yamlish(case["value"])
    else:
        cls, want = _yaml_reference("\n".join(kept))
    outcome, obj = None, None
    try:
        obj = Y(mk(lines, "/tmp/doc.yaml"))
        outcome = "value"
    except ContentException as e:
        raise Violation("YAMLParser raised ContentException", lines=lines[:20], error=str(e))
    except SkipComponent:
        outcome = "skip"
    except ParseException:
        outcome = "invalid"
    except Exception as e:  # noqa
        raise Violation("YAMLParser raised %s instead of ParseException/SkipComponent: %s"
                        % (type(e).__name__, str(e)[:200]), lines=lines[:20], kind=kind)
    labels += ["class=" + cls, "outcome=" + outcome]
    nt = False
    if cls == "value":
        if outcome == "skip" and len(want) == 0:
            labels.append("empty-root-skipped")
        elif outcome != "value":
            raise Violation("valid YAML %s document was answered with %s" % (type(want).__name__, outcome),
                            lines=lines, value=repr(want)[:500], ignore=case["ignore"])
        elif not strict_eq(obj.data, want):
            raise Violation("YAMLParser.data differs from the document's value", lines=lines,
                            value=repr(want)[:500], data=repr(obj.data)[:500], ignore=case["ignore"])
        if case["ignored"]:
            labels.append("ignored-lines")
        if lines and lines[0].lstrip()[:1] in ("{", "["):
            labels.append("flow")
        if _depth(want) >= 2:
            labels.append("nested")
        nt = kind == "valid" and _depth(want) >= 2 and (bool(case["ignored"]) or "flow" in labels)
    elif cls == "skip":
        if outcome != "skip":
            raise Violation("empty/null YAML document must be a SkipComponent, got %s" % outcome, lines=lines)
        nt = True
    else:
        # scalar roots and everything that does not load: ParseException
        if outcome != "invalid":
            raise Violation("%s YAML content must be a ParseException, got %s"
                            % ("scalar" if cls == "scalar" else "invalid", outcome), lines=lines,
                            data=repr(getattr(obj, "data", None))[:300])
        nt = True
    return {"nontrivial": nt, "labels": labels}


def _yamlish(v):
    """the generated value as YAML can express it (nothing to convert today: str/int keys, JSON-able
    leaves) - kept as one place to normalise should the generator grow"""
    return v


# ------------------------------------------------------------------------------------------------
# log_get
# ------------------------------------------------------------------------------------------------

VOCAB = ["error", "warn", "err", "kernel:", "ab", "abc", "b", "ERROR", "x y", "", "timeout", "é", "out"]
_logline = st.builds(lambda ws, seps: "".join(w + s for w, s in zip(ws, seps)),
                     st.lists(st.sampled_from(VOCAB), min_size=0, max_size=5),
                     st.lists(st.sampled_from([" ", " ", "", ": ", "-"]), min_size=5, max_size=5))
_term = st.one_of(st.sampled_from(VOCAB), st.sampled_from(["e", "r", "or w", " ", "zzz", "rr", "a"]))


@st.composite
def _get_case(draw):
    lines = draw(st.lists(_logline, min_size=0, max_size=12))
    s = draw(st.one_of(_term, st.lists(_term, min_size=1, max_size=3)))
    return {"lines": lines, "s": s, "check": draw(st.sampled_from(["all", "all", "any"])),
            "num": draw(st.one_of(st.none(), st.none(), st.integers(0, 4))),
            "reverse": draw(st.booleans()), "base": draw(st.sampled_from(["log", "log", "text"]))}


def strat_get(tier):
    return _get_case()


def check_get(case, mk=_plain_context):
    from insights.core import LogFileOutput, TextFileOutput

    base = LogFileOutput if case["base"] == "log" else TextFileOutput
    L = type("L", (base,), {})
    lines = list(case["lines"])
    s = case["s"]
    s_arg = list(s) if isinstance(s, list) else s
    chk = all if case["check"] == "all" else any
    num, rev = case["num"], case["reverse"]
    L.keep_scan("kept", s_arg, check=chk, num=num, reverse=rev)
    L.last_scan("last", s_arg, check=chk)
    L.token_scan("tok", s_arg, check=chk)
    obj = L(mk(lines, "/var/log/x.log"))

    terms = s if isinstance(s, list) else [s]
    if case["check"] == "all" or not isinstance(s, list):
        match = [l for l in lines if all(t in l for t in terms)]
    else:
        match = [l for l in lines if any(t in l for t in terms)]
    want = match
    if num is not None:
        want = match[max(0, len(match) - num):] if rev else match[:num]
    kw = {}
    if case["check"] == "any":
        kw["check"] = any
    if num is not None:
        kw["num"] = num
    if rev:
        kw["reverse"] = True
    got = obj.get(s_arg, **kw)

    rkey = "raw_message" if case["base"] == "log" else "raw_line"

    def raw(rs):
        out = []
        for r in rs:
            if not isinstance(r, dict) or rkey not in r:
                raise Violation("get() returned something that is not a parsed-line dict", item=repr(r))
            out.append(r[rkey])
        return out

    if raw(got) != want:
        raise Violation("get(%r, check=%s, num=%r, reverse=%r) returned %r, expected %r"
                        % (s, case["check"], num, rev, raw(got), want), lines=lines)
    if raw(obj.kept) != want:
        raise Violation("keep_scan result %r differs from the expected lines %r" % (raw(obj.kept), want),
                        lines=lines, s=s)
    want_last = match[-1:]
    got_last = raw([obj.last]) if obj.last else []
    if got_last != want_last:
        raise Violation("last_scan result %r, expected %r" % (got_last, want_last), lines=lines, s=s)
    if bool(obj.tok) != bool(match):
        raise Violation("token_scan says %r but %d lines match" % (obj.tok, len(match)), lines=lines, s=s)
    match_all = [l for l in lines if all(t in l for t in terms)]
    if (s_arg in obj) != bool(match_all):
        raise Violation("`in` says %r but %d lines contain all terms" % (s_arg in obj, len(match_all)), lines=lines, s=s)
    if obj.lines != case["lines"]:
        raise Violation("lines attribute differs from the content")
    labels = ["check=" + case["check"], "s=" + ("list" if isinstance(s, list) else "str"),
              "num=" + ("none" if num is None else "cut" if num < len(match) else "wide"),
              "reverse" if rev else "forward",
              "match=" + ("none" if not match else "all" if len(match) == len(lines) else "some")]
    if isinstance(s, list) and len(s) > 1:
        a = [l for l in lines if all(t in l for t in terms)]
        o = [l for l in lines if any(t in l for t in terms)]
        if a != o:
            labels.append("all!=any")
    if rev and num is not None and 0 < num < len(match) and len(set(want)) > 1:
        labels.append("reverse-cut-multi")
    return {"nontrivial": 0 < len(match) < len(lines), "labels": labels}


# ------------------------------------------------------------------------------------------------
# log_after
# ------------------------------------------------------------------------------------------------

FORMATS = [
    # (time_format as given to the class, per-line choices of single format strings, has_year)
    {"tf": "%Y-%m-%d %H:%M:%S", "year": True},
    {"tf": "%Y/%m/%d %H:%M:%S", "year": True},
    {"tf": "%d/%b/%Y:%H:%M:%S", "year": True},
    {"tf": "%a %b %d %H:%M:%S %Y", "year": True},
    {"tf": "%m/%d/%y %H:%M:%S", "year": True},
    {"tf": "%Y-%m-%d %H:%M:%S,%f", "year": True},
    {"tf": "%b %d %H:%M:%S.%f %Y", "year": True},
    {"tf": "%b %d, %Y %I:%M:%S %p", "year": True},
    {"tf": "%Y-%m-%dT%H:%M:%S.%f", "year": True},
    {"tf": ["%Y-%m-%d %H:%M:%S", "%d/%b/%Y:%H:%M:%S"], "year": True},
    {"tf": {"pre_10.1.5": "%y%m%d %H:%M:%S", "post_10.1.5": "%Y-%m-%d %H:%M:%S"}, "year": True},
    {"tf": "%b %d %H:%M:%S", "year": False},
    {"tf": ["%b %d %H:%M:%S"], "year": False},
    {"tf": {"syslog": "%b %d %H:%M:%S"}, "year": False},
]
MON = ["Jan", "Feb", "Mar", "Apr", "May", "Jun", "Jul", "Aug", "Sep", "Oct", "Nov", "Dec"]
DAY = ["Mon", "Tue", "Wed", "Thu", "Fri", "Sat", "Sun"]


def _alts(tf):
    if isinstance(tf, dict):
        return list(tf.values())
    if isinstance(tf, list):
        return list(tf)
    return [tf]


def render_stamp(t, fmt, spacepad):
    """own strftime for the directives used above (C locale names), day optionally space padded"""
    y, mo, d, h, mi, s, us = t
    dt = datetime.datetime(y, mo, d, h, mi, s, us)
    out, i = [], 0
    while i < len(fmt):
        c = fmt[i]
        if c != "%":
            out.append(c)
            i += 1
            continue
        k = fmt[i + 1]
        i += 2
        if k == "Y":
            out.append("%04d" % y)
        elif k == "y":
            out.append("%02d" % (y % 100))
        elif k == "m":
            out.append("%02d" % mo)
        elif k == "d":
            out.append(("%2d" if spacepad else "%02d") % d)
        elif k == "H":
            out.append("%02d" % h)
        elif k == "I":
            out.append("%02d" % ((h % 12) or 12))
        elif k == "p":
            out.append("AM" if h < 12 else "PM")
        elif k == "M":
            out.append("%02d" % mi)
        elif k == "S":
            out.append("%02d" % s)
        elif k == "f":
            out.append("%06d" % us)
        elif k == "b":
            out.append(MON[mo - 1])
        elif k == "a":
            out.append(DAY[dt.weekday()])
        else:
            raise ValueError("render_stamp: unsupported directive %" + k)
    return "".join(out)


_msg_alpha = list(u"abcdefgh xyzERRO:-_[]()=/.,") + [u"é"]
_msg = st.text(alphabet=st.sampled_from(_msg_alpha), max_size=14)
_pre = st.sampled_from(["", "", "", "[", "<", "host ", "x", "  ", "a b "])
_off_sec = st.one_of(
    st.sampled_from([0, 0, 1, -1, 60, -60, 3600, -3600, 86400, -86400, 2, -2]),
    st.integers(-30 * 86400, 30 * 86400),
    st.integers(-120, 120),
)


def _t(dt):
    return [dt.year, dt.month, dt.day, dt.hour, dt.minute, dt.second, dt.microsecond]


@st.composite
def _after_case(draw):
    fi = draw(st.integers(0, len(FORMATS) - 1))
    f = FORMATS[fi]
    alts = _alts(f["tf"])
    has_us = any("%f" in a for a in alts)
    boundary = draw(st.sampled_from(["any", "any", "jan", "dec"]))
    year = draw(st.integers(2002, 2060))
    if boundary == "jan":
        q = datetime.datetime(year, 1, draw(st.integers(1, 6)), draw(st.integers(0, 23)), draw(st.integers(0, 59)),
                              draw(st.integers(0, 59)))
    elif boundary == "dec":
        q = datetime.datetime(year, 12, draw(st.integers(26, 31)), draw(st.integers(0, 23)), draw(st.integers(0, 59)),
                              draw(st.integers(0, 59)))
    else:
        q = datetime.datetime(year, 1, 1) + datetime.timedelta(seconds=draw(st.integers(0, 365 * 86400 - 1)))
    if has_us and draw(st.booleans()):
        q = q.replace(microsecond=draw(st.sampled_from([0, 1, 500000, 999999])))
    lines = []
    for _ in range(draw(st.integers(0, 10))):
        msg = draw(_msg)
        if draw(st.sampled_from([True, True, False])):
            off = draw(_off_sec)
            if f["year"] and draw(st.integers(0, 9)) == 0:
                off = draw(st.integers(-400 * 86400, 400 * 86400))
            dt = q + datetime.timedelta(seconds=off)
            if has_us:
                dt = dt.replace(microsecond=draw(st.sampled_from([q.microsecond, q.microsecond, 0, 1, 123456, 999999])))
            if not f["year"] and dt.month == 2 and dt.day == 29:
                dt = dt - datetime.timedelta(days=1)          # strptime rejects a year-less 29 February
            lines.append({"t": _t(dt), "alt": draw(st.integers(0, len(alts) - 1)), "pre": draw(_pre),
                          "msg": msg, "spacepad": draw(st.booleans())})
        else:
            lines.append({"t": None, "msg": msg})
    s = draw(st.one_of(st.none(), st.none(), st.sampled_from(["a", "e", "ERR", " ", ":"]),
                       st.lists(st.sampled_from(["a", "e", "x", " "]), min_size=1, max_size=2)))
    return {"fmt": fi, "query": _t(q), "lines": lines, "s": s}


def strat_after(tier):
    return _after_case()


def _render_log(lines, alts):
    """the generated line descriptions as text in the given single formats -> (rendered, times, spacepadded);
    times[i] is the true time of a stamped line as far as its format can express it, None for a
    line without stamp"""
    rendered, times = [], []
    spacepadded = False
    for ln in lines:
        if ln["t"] is None:
            rendered.append(ln["msg"])
            times.append(None)
        else:
            fmt = alts[ln["alt"] % len(alts)]
            sp = bool(ln["spacepad"]) and " %d" in fmt
            spacepadded = spacepadded or (sp and ln["t"][2] < 10)
            stamp = render_stamp(ln["t"], fmt, sp)
            sep = "" if not ln["msg"] else " "
            rendered.append(ln["pre"] + stamp + sep + ln["msg"])
            t = datetime.datetime(*ln["t"])
            if "%f" not in fmt:
                t = t.replace(microsecond=0)
            times.append(t)
    return rendered, times, spacepadded


def _after_reference(rendered, times, q, s):
    """reference state machine of the time-based search over the generated datetimes"""
    terms = [] if s is None else (s if isinstance(s, list) else [s])
    want, including = [], False
    for line, t in zip(rendered, times):
        if terms and not all(x in line for x in terms):
            continue
        if t is not None:
            including = t >= q
            if including:
                want.append(line)
        elif including:
            want.append(line)
    return want


def _after_real(obj, q, s):
    s_arg = list(s) if isinstance(s, list) else s
    res = list(obj.get_after(q) if s is None else obj.get_after(q, s_arg))
    got = []
    for r in res:
        if not isinstance(r, dict) or "raw_message" not in r:
            raise Violation("get_after yielded something that is not a parsed-line dict", item=repr(r))
        got.append(r["raw_message"])
    return got


def check_after(case, mk=_plain_context):
    from insights.core import LogFileOutput

    f = FORMATS[case["fmt"]]
    alts = _alts(f["tf"])
    tf = f["tf"]
    tf = dict(tf) if isinstance(tf, dict) else (list(tf) if isinstance(tf, list) else tf)
    L = type("L", (LogFileOutput,), {"time_format": tf})
    q = datetime.datetime(*case["query"])
    rendered, times, spacepadded = _render_log(case["lines"], alts)
    s = case["s"]
    want = _after_reference(rendered, times, q, s)
    obj = L(mk(rendered, "/var/log/x.log"))
    got = _after_real(obj, q, s)
    if got != want:
        raise Violation("get_after(%s, %r) returned %r, expected %r" % (q.isoformat(), s, got, want),
                        time_format=repr(f["tf"]), lines=rendered)
    stamped = [t for t in times if t is not None]
    labels = ["fmt=%d" % case["fmt"], "year" if f["year"] else "yearless", "s=" + ("none" if s is None else "given")]
    before = any(t < q for t in stamped)
    after = any(t >= q for t in stamped)
    if any(t == q for t in stamped):
        labels.append("stamp==query")
    if before and after:
        labels.append("both-sides")
    cont = any(t is None for t in times)
    if cont:
        labels.append("continuation")
    if any(t.year != q.year for t in stamped):
        labels.append("other-year")
        if not f["year"]:
            labels.append("yearless-year-boundary")
    # an earlier stamp after a later one followed by a continuation line (the reset of the state)
    for i in range(len(times) - 2):
        if times[i] is not None and times[i] >= q and times[i + 1] is not None and times[i + 1] < q \
                and times[i + 2] is None:
            labels.append("later-earlier-continuation")
            break
    if spacepadded:
        labels.append("spacepad-day")
    return {"nontrivial": before and after and cont, "labels": sorted(set(labels))}


# ------------------------------------------------------------------------------------------------
# log_history: several log parser classes / objects and a sequence of searches in one process
# ------------------------------------------------------------------------------------------------
# The answer of a search depends on the parser's own time_format, its own lines and the arguments -
# not on which other log parsers (other classes with other formats, sub-classes, other objects of the
# same class) were searched before in the process, nor on earlier searches of the same object.  The
# time_format values are composed here (str / list / dict with labels, 1-3 formats) and later parsers
# of a history are frequently *derived* from an earlier one so that the two agree in one component
# of the value (labels, first / last format, the set of formats, form and length) and differ elsewhere.

YEAR_FMTS = ["%Y-%m-%d %H:%M:%S", "%Y/%m/%d %H:%M:%S", "%d/%b/%Y:%H:%M:%S", "%a %b %d %H:%M:%S %Y",
             "%m/%d/%y %H:%M:%S", "%b %d %H:%M:%S.%f %Y", "%b %d, %Y %I:%M:%S %p", "%Y-%m-%dT%H:%M:%S.%f",
             "%y%m%d %H:%M:%S", "%Y-%m-%d %H:%M:%S,%f"]
NOYEAR_FMT = "%b %d %H:%M:%S"
# pairs never put into one list/dict: a substring of a line stamped in one format is a valid time in
# the other (by strptime), so which format "the" stamp of such a line has is not defined
# (selftest() checks that every other pair is free of this)
CONFUSABLE = [["%Y/%m/%d %H:%M:%S", "%m/%d/%y %H:%M:%S"], ["%b %d, %Y %I:%M:%S %p", "%y%m%d %H:%M:%S"],
              ["%Y-%m-%d %H:%M:%S", "%Y-%m-%d %H:%M:%S,%f"]]
TF_LABELS = ["old", "new", "standard", "error", "pre_10.1.5", "post_10.1.5"]
HIST_PRES = ["", "", "", "[", "<", "host ", "x", "  ", "a b "]
_US = [0, 1, 123456, 500000, 999999]


def _compatible(a, b):
    return a != b and [a, b] not in CONFUSABLE and [b, a] not in CONFUSABLE


def _substring_is_stamp(text, fmt):
    for i in range(len(text)):
        for j in range(i + 8, len(text) + 1):
            try:
                datetime.datetime.strptime(text[i:j], fmt)
            except ValueError:
                continue
            return text[i:j]
    return None


def _draw_fmts(draw, n, first=None, avoid=()):
    chosen = [first] if first else []
    while len(chosen) < n:
        cand = [f for f in YEAR_FMTS if f not in avoid and all(_compatible(f, c) for c in chosen)]
        if not cand:
            break
        chosen.append(draw(st.sampled_from(cand)))
    return chosen


def _draw_labels(draw, n, keep=()):
    keep = list(keep)[:n]
    rest = [l for l in TF_LABELS if l not in keep]
    more = draw(st.permutations(rest))[:n - len(keep)] if n > len(keep) else []
    return keep + list(more)


@st.composite
def _tf_fresh(draw):
    form = draw(st.sampled_from(["str", "str", "list", "list", "dict", "dict", "dict"]))
    if draw(st.integers(0, 4)) == 0:
        fmts = [NOYEAR_FMT]
    else:
        fmts = _draw_fmts(draw, 1 if form == "str" else draw(st.sampled_from([1, 2, 2, 3])))
    return {"form": form, "fmts": fmts, "labels": _draw_labels(draw, len(fmts)) if form == "dict" else []}


@st.composite
def _tf_variation(draw, e):
    """a time_format that agrees with the earlier one `e` in one component and differs elsewhere"""
    kind = draw(st.sampled_from(["labels", "first", "last", "formats", "permute", "reform"]))
    yearless = e["fmts"] == [NOYEAR_FMT]
    n = len(e["fmts"])
    if kind in ("first", "last") and yearless:
        kind = "labels"
    if kind == "permute" and n < 2:
        kind = "labels"
    form, labels = e["form"], list(e["labels"])
    if kind == "labels":
        if n == 1 and not yearless and draw(st.integers(0, 3)) == 0:
            fmts = [NOYEAR_FMT]
        else:
            fmts = _draw_fmts(draw, n, avoid=e["fmts"])
    elif kind in ("first", "last"):
        m = max(2, n) if draw(st.booleans()) else draw(st.sampled_from([2, 3]))
        if kind == "first":
            fmts = _draw_fmts(draw, m, first=e["fmts"][0], avoid=e["fmts"][1:])
        else:
            fmts = _draw_fmts(draw, m, first=e["fmts"][-1], avoid=e["fmts"][:-1])[::-1]
        if form == "str":
            form = draw(st.sampled_from(["list", "dict"]))
    elif kind == "formats":
        fmts = list(e["fmts"])
        form = "dict"
        labels = []
    elif kind == "permute":
        fmts = list(e["fmts"])[::-1] if draw(st.booleans()) else list(e["fmts"])[1:] + list(e["fmts"])[:1]
    else:
        fmts = list(e["fmts"])
        form = draw(st.sampled_from([f for f in (["str"] if n == 1 else []) + ["list", "dict"] if f != e["form"]]))
    if form == "dict":
        labels = _draw_labels(draw, len(fmts), keep=labels)
    else:
        labels = []
    return {"form": form, "fmts": fmts, "labels": labels}


def _tf_value(spec):
    if spec["form"] == "str":
        return spec["fmts"][0]
    if spec["form"] == "list":
        return list(spec["fmts"])
    return dict(zip(spec["labels"], spec["fmts"]))


@st.composite
def _hist_log(draw, fmts):
    """a base time and a few lines stamped (in the given single formats) around it"""
    year_in = fmts != [NOYEAR_FMT]
    has_us = any("%f" in f for f in fmts)
    span = (30 if year_in else 15) * 86400
    boundary = draw(st.sampled_from(["any", "any", "jan", "dec"]))
    year = draw(st.integers(2002, 2060))
    if boundary == "jan":
        base = datetime.datetime(year, 1, draw(st.integers(1, 6)), draw(st.integers(0, 23)), draw(st.integers(0, 59)),
                                 draw(st.integers(0, 59)))
    elif boundary == "dec":
        base = datetime.datetime(year, 12, draw(st.integers(26, 31)), draw(st.integers(0, 23)), draw(st.integers(0, 59)),
                                 draw(st.integers(0, 59)))
    else:
        base = datetime.datetime(year, 1, 1) + datetime.timedelta(seconds=draw(st.integers(0, 365 * 86400 - 1)))
    off = st.one_of(st.sampled_from([0, 0, 1, -1, 60, -60, 3600, -3600, 86400, -86400, 2, -2]),
                    st.integers(-span, span), st.integers(-120, 120))
    lines = []
    for _ in range(draw(st.integers(0, 7))):
        msg = draw(_msg)
        if draw(st.sampled_from([True, True, False])):
            o = draw(off)
            if year_in and draw(st.integers(0, 9)) == 0:
                o = draw(st.integers(-400 * 86400, 400 * 86400))
            dt = base + datetime.timedelta(seconds=o)
            if has_us:
                dt = dt.replace(microsecond=draw(st.sampled_from(_US)))
            if not year_in and dt.month == 2 and dt.day == 29:
                dt = dt - datetime.timedelta(days=1)          # strptime rejects a year-less 29 February
            lines.append({"t": _t(dt), "alt": draw(st.integers(0, len(fmts) - 1)), "pre": draw(st.sampled_from(HIST_PRES)),
                          "msg": msg, "spacepad": draw(st.booleans())})
        else:
            lines.append({"t": None, "msg": msg})
    return {"base": _t(base), "lines": lines, "span": span, "has_us": has_us}


@st.composite
def _hist_case(draw):
    nparsers = draw(st.sampled_from([1, 2, 2, 2, 3, 3]))
    parsers, eff = [], []
    for k in range(nparsers):
        rel = "new" if k == 0 else draw(st.sampled_from(["new", "new", "new", "new", "sub", "sub", "inherit", "same"]))
        of = draw(st.integers(0, k - 1)) if k else 0
        if rel in ("new", "sub"):
            if k and draw(st.booleans()):
                spec = draw(_tf_variation(eff[draw(st.integers(0, k - 1))]))
            else:
                spec = draw(_tf_fresh())
            eff.append(spec)
        else:
            spec = None
            eff.append(eff[of])
        log = draw(_hist_log(eff[k]["fmts"]))
        parsers.append({"rel": rel, "of": of, "lazy": draw(st.integers(0, 3)) == 0, "tf": spec, "base": log["base"],
                        "lines": log["lines"]})
    order = list(draw(st.permutations(list(range(nparsers)))))
    order += draw(st.lists(st.integers(0, nparsers - 1), min_size=0, max_size=3))
    ops = []
    for p in order:
        fmts = eff[p]["fmts"]
        span = (30 if fmts != [NOYEAR_FMT] else 15) * 86400
        if ops and draw(st.integers(0, 5)) == 0:
            ops.append({"op": "get", "p": p, "s": draw(st.one_of(st.sampled_from(["a", "e", "ERR", " ", ":", "x"]),
                                                                st.lists(st.sampled_from(["a", "e", "x", " "]), min_size=1,
                                                                         max_size=2)))})
            continue
        o = draw(st.one_of(st.sampled_from([0, 0, 1, -1, 60, -60, 3600, -3600, 86400, -86400, 2, -2]),
                           st.integers(-span, span), st.integers(-120, 120)))
        q = datetime.datetime(*parsers[p]["base"]) + datetime.timedelta(seconds=o)
        if any("%f" in f for f in fmts) and draw(st.booleans()):
            q = q.replace(microsecond=draw(st.sampled_from(_US)))
        ops.append({"op": "after", "p": p, "query": _t(q),
                    "s": draw(st.one_of(st.none(), st.none(), st.none(), st.sampled_from(["a", "e", "ERR", " ", ":"]),
                                        st.lists(st.sampled_from(["a", "e", "x", " "]), min_size=1, max_size=2)))})
    return {"parsers": parsers, "ops": ops}


def strat_history(tier):
    return _hist_case()


def _in_fresh_copy(fn, case):
    """fn(case) in a forked copy of this process that ends with the case.  A history is meant to be
    exactly what the case says: whatever the code under test keeps process-wide while the searches of
    one case run (a memo, a registry) must not be there when the next case starts, otherwise a
    failure would depend on the cases that happened to run before and the (shrunk) replay file would
    not reproduce it.  The parent never calls the code under test itself."""
    import os
    import signal
    import traceback
    from vp.core import _origin_in_repo
    rfd, wfd = os.pipe()
    pid = os.fork()
    if pid == 0:
        try:
            os.close(rfd)
            signal.signal(signal.SIGALRM, signal.SIG_DFL)
            signal.alarm(120)       # a search that never ends must not leave this copy behind
            try:
                out = ["ok", fn(case)]
            except Violation as v:
                out = ["violation", v.msg, v.details]
            except BaseException as e:  # noqa
                text = "".join(traceback.format_exception(type(e), e, e.__traceback__))
                out = ["repo" if _origin_in_repo(e) else "harness", "%s: %s" % (type(e).__name__, e), text[-3000:]]
            try:
                data = json.dumps(out)
            except (TypeError, ValueError):
                data = json.dumps([out[0]] + [repr(x) for x in out[1:]])
            with os.fdopen(wfd, "w") as f:
                f.write(data)
        finally:
            os._exit(0)
    os.close(wfd)
    try:
        with os.fdopen(rfd) as f:
            data = f.read()
    finally:
        os.waitpid(pid, 0)
    if not data:
        raise RuntimeError("the forked copy running the history ended without an answer")
    out = json.loads(data)
    if out[0] == "ok":
        return out[1]
    if out[0] == "violation":
        details = out[2] if isinstance(out[2], dict) else {"details": out[2]}
        raise Violation(out[1], **details)
    if out[0] == "repo":
        raise Violation("unexpected %s raised inside the code under test" % out[1], traceback=out[2])
    raise RuntimeError("harness error inside the forked copy:\n" + out[2])


def check_history(case):
    return _in_fresh_copy(_history_body, case)


def _history_body(case):
    from insights.core import LogFileOutput, LazyLogFileOutput
    from insights.core.context import Context

    parsers = case["parsers"]
    eff, classes, objs, logs = [], [], [], []
    for k, p in enumerate(parsers):
        rel = p["rel"] if k else "new"
        of = (p["of"] % k) if k else 0
        if rel in ("new", "sub"):
            spec = p["tf"]
            bases = (classes[of],) if rel == "sub" else ((LazyLogFileOutput,) if p["lazy"] else (LogFileOutput,))
            cls = type("L%d" % k, bases, {"time_format": _tf_value(spec)})
        elif rel == "inherit":
            spec = eff[of]
            cls = type("L%d" % k, (classes[of],), {})
        else:
            spec = eff[of]
            cls = classes[of]
        eff.append(spec)
        classes.append(cls)
        rendered, times, _sp = _render_log(p["lines"], spec["fmts"])
        logs.append((rendered, times))
        objs.append(cls(Context(content=list(rendered), path="/var/log/p%d.log" % k)))

    def describe(k):
        return "parser %d (%s%s, time_format=%r)" % (k, parsers[k]["rel"] if k else "new",
                                                     " of %d" % (parsers[k]["of"] % k) if k and parsers[k]["rel"] != "new" else "",
                                                     _tf_value(eff[k]))

    labels = set(["parsers=%d" % len(parsers)])
    done = []                   # the searches made so far, for the message
    searched = []               # parser indices that had a time-based search
    later_partial = False
    for op in case["ops"]:
        k = op["p"] % len(parsers)
        rendered, times = logs[k]
        s = op["s"]
        if op["op"] == "get":
            terms = s if isinstance(s, list) else [s]
            want = [l for l in rendered if all(t in l for t in terms)]
            got = []
            for r in objs[k].get(list(s) if isinstance(s, list) else s):
                if not isinstance(r, dict) or "raw_message" not in r:
                    raise Violation("get() returned something that is not a parsed-line dict", item=repr(r))
                got.append(r["raw_message"])
            if got != want:
                raise Violation("get(%r) of %s returned %r, expected %r (searches made before in this process: %s)"
                                % (s, describe(k), got, want, "; ".join(done) or "none"), lines=rendered,
                                parsers=[describe(i) for i in range(len(parsers))])
            labels.add("op=get")
            done.append("get(%r) on parser %d" % (s, k))
            continue
        q = datetime.datetime(*op["query"])
        want = _after_reference(rendered, times, q, s)
        got = _after_real(objs[k], q, s)
        if got != want:
            raise Violation("get_after(%s, %r) of %s returned %r, expected %r (searches made before in this process: %s)"
                            % (q.isoformat(), s, describe(k), got, want, "; ".join(done) or "none"),
                            lines=rendered, parsers=[describe(i) for i in range(len(parsers))])
        others = [i for i in searched if _tf_value(eff[i]) != _tf_value(eff[k]) or eff[i]["form"] != eff[k]["form"]]
        if others and want:
            labels.add("later-parser-nonempty")
            if len(want) < len(rendered):
                later_partial = True
        if k in searched:
            labels.add("repeated-search-same-object")
        if any(i != k and classes[i] is classes[k] for i in searched):
            labels.add("second-object-same-class")
        searched.append(k)
        done.append("get_after(%s, %r) on parser %d" % (q.isoformat(), s, k))
    for k, p in enumerate(parsers):
        labels.add("rel=" + (p["rel"] if k else "new"))
        labels.add("form=" + eff[k]["form"])
        if eff[k]["fmts"] == [NOYEAR_FMT]:
            labels.add("yearless")
        if len(eff[k]["fmts"]) > 1:
            labels.add("multi-format")
        if p["lazy"] and (k == 0 or p["rel"] == "new"):
            labels.add("lazy")
        for i in range(k):
            a, b = eff[i], eff[k]
            if a is b or (a["form"] == b["form"] and _tf_value(a) == _tf_value(b) and a["labels"] == b["labels"]):
                continue
            if a["fmts"] != b["fmts"]:
                if a["form"] == b["form"] == "dict" and a["labels"] == b["labels"]:
                    labels.add("share:dict-labels")
                if a["fmts"][0] == b["fmts"][0]:
                    labels.add("share:first-format")
                if a["fmts"][-1] == b["fmts"][-1]:
                    labels.add("share:last-format")
                if sorted(a["fmts"]) == sorted(b["fmts"]):
                    labels.add("share:formats-permuted")
                if a["form"] == b["form"] and len(a["fmts"]) == len(b["fmts"]):
                    labels.add("share:form-and-length")
            else:
                labels.add("share:formats-other-form-or-labels")
    distinct = len(set(json.dumps([eff[i]["form"], eff[i]["fmts"], eff[i]["labels"]]) for i in set(searched)))
    return {"nontrivial": distinct >= 2 and later_partial, "labels": sorted(labels)}


# ------------------------------------------------------------------------------------------------
# provider: the same oracles, content delivered by the real content providers
# ------------------------------------------------------------------------------------------------
# The sub-checks above hand every parser a hand-made Context whose content *is* the generated list.
# A parser of an archive never sees such an object: its content is what a content provider makes of
# a file (a collected file or the saved output of a command: lines separated by "\n", nothing else)
# or of the output of a process.  Here every family above (command / json / yaml / log_get /
# log_after - same generators, same oracles) gets its content from a file written below a temporary
# root and read by TextFileProvider / SerializedOutputProvider (handed over directly, with and without
# an archive context) or by the provider a simple_file / glob_file / first_file spec makes when it
# is evaluated by dr.run under an archive context, from `cat file` through CommandOutputProvider /
# simple_command under a HostContext, or from a DatasourceProvider holding the list.  The generated
# text additionally holds, inside lines, the characters text layers like to treat specially: those
# str.splitlines() cuts at besides "\n" (VT FF FS GS RS NEL LS PS), other separators / controls /
# odd blanks, trailing blanks, empty lines at either end, no newline at the end of the file.

LINE_INNER = [u"\x0b", u"\x0c", u"\x1c", u"\x1d", u"\x1e", u"\x85", u"\u2028", u"\u2029"]
ODD_OTHER = [u"\x1f", u"\x00", u"\x1a", u"\x1b", u"\x7f", u"\xa0", u"\u3000", u"\u200b", u"\ufeff", u"\t", u" "]
VIA_DIRECT = ["TextFileProvider", "SerializedOutputProvider"]
VIA_SPEC = ["simple_file", "glob_file", "first_file"]
VIA_PROCESS = ["CommandOutputProvider", "simple_command"]
VIA_CTX = {
    "TextFileProvider": ["none", "HostArchiveContext", "HostArchiveContext", "SosArchiveContext",
                         "SerializedArchiveContext", "HostContext"],
    "SerializedOutputProvider": ["SerializedArchiveContext"],
    "simple_file": ["HostArchiveContext", "HostArchiveContext", "SosArchiveContext"],
    "glob_file": ["HostArchiveContext", "SosArchiveContext"],
    "first_file": ["HostArchiveContext", "SosArchiveContext"],
    "CommandOutputProvider": ["HostContext"],
    "simple_command": ["HostContext"],
    "DatasourceProvider": ["none", "HostArchiveContext"],
}
FAMILIES = ["command", "command", "command", "json", "json", "json", "yaml", "yaml", "log_get", "log_get",
            "log_after", "log_after"]


class _Skip(BaseException):
    """raised by the delivery for content outside the defined domain of a route (BaseException: the check
    functions turn every Exception of the parser call into a violation); never leaves check_provider"""

    def __init__(self, label):
        BaseException.__init__(self, label)
        self.label = label


def _salted(draw, s, alphabet, counts=(0, 1, 1, 2)):
    """s with 0-2 characters of the alphabet put in at generated positions"""
    for _ in range(draw(st.sampled_from(list(counts)))):
        p = draw(st.integers(0, len(s)))
        s = s[:p] + draw(st.sampled_from(alphabet)) + s[p:]
    return s


def _odd_text(alphabet):
    return st.lists(st.one_of(st.sampled_from(alphabet), st.sampled_from(alphabet),
                              st.sampled_from([u"a", u"b ", u"line", u" ", u"é", u"1", u"x: y", u"#"])),
                    min_size=1, max_size=5).map(lambda xs: u"".join(xs))


@st.composite
def _via(draw):
    kind = draw(st.sampled_from(["TextFileProvider"] * 4 + ["SerializedOutputProvider"] * 2 + ["simple_file"] * 2 +
                                ["glob_file", "first_file", "CommandOutputProvider", "simple_command",
                                 "DatasourceProvider"]))
    return {"kind": kind, "ctx": draw(st.sampled_from(VIA_CTX[kind])), "final_newline": draw(st.booleans())}


@st.composite
def _provider_case(draw):
    via = draw(_via())
    # the output of a live command is cut at the LINE_INNER characters on the unchanged tree (pinned
    # finding C07-host-linebreak-chars): that route gets the other odd characters only
    alpha = list(ODD_OTHER) if via["kind"] in VIA_PROCESS else LINE_INNER + LINE_INNER + ODD_OTHER
    fam = draw(st.sampled_from(FAMILIES))
    if fam == "command":
        inner = draw(_cmd_case())
        inner["lines"] = [_salted(draw, l, alpha) for l in inner["lines"]]
    elif fam == "json":
        odd = _odd_text(alpha)
        inner = draw(_json_case(scalar=st.one_of(_scalar, odd), keys=st.one_of(st.text(max_size=5), odd),
                                noise_line=st.one_of(_noise_line, st.builds(lambda a, b: a + b, _noise_line, odd))))
    elif fam == "yaml":
        odd = _odd_text(alpha)
        inner = draw(_yaml_case(scalar=st.one_of(_scalar, odd), keys=st.one_of(_ykeys, odd)))
    elif fam == "log_get":
        inner = draw(_get_case())
        inner["lines"] = [_salted(draw, l, alpha) for l in inner["lines"]]
        spots = [(i, p) for i, l in enumerate(inner["lines"]) for p, c in enumerate(l) if c in alpha and c != u" "]
        if spots and draw(st.integers(0, 2)) == 0:
            # a term that holds one of the characters: a piece of a line around it
            i, p = spots[draw(st.integers(0, len(spots) - 1))]
            t = inner["lines"][i][max(0, p - draw(st.integers(0, 3))):p + 1 + draw(st.integers(0, 3))]
            inner["s"] = (inner["s"][:2] + [t]) if isinstance(inner["s"], list) else t
    else:
        inner = draw(_after_case())
        for ln in inner["lines"]:
            ln["msg"] = _salted(draw, ln["msg"], alpha)
    return {"parser": fam, "via": via, "inner": inner}


def strat_provider(tier):
    return _provider_case()


class _Delivery(object):
    """mk(lines, path) of the check functions above: writes the lines as a file below a temporary root
    and returns the provider the case names for it; leaves nothing behind"""

    def __init__(self, via):
        self.via = via
        self.root = None
        self.gs = None
        self.n = 0
        self.made = []          # (provider class name, context class name, number of lines)

    def __enter__(self):
        import tempfile
        self.root = tempfile.mkdtemp(prefix="vp-c14-")
        if self.via["kind"] in VIA_SPEC or self.via["kind"] == "simple_command":
            from vp.sandbox import GlobalState
            self.gs = GlobalState()
            self.gs.__enter__()
        return self

    def __exit__(self, *exc):
        import shutil
        try:
            if self.gs is not None:
                self.gs.__exit__(None, None, None)
        finally:
            shutil.rmtree(self.root, ignore_errors=True)
        return False

    def _context(self):
        from insights.core import context
        name = self.via["ctx"]
        if name == "none":
            return None, None
        cls = getattr(context, name)
        return cls, cls(root=self.root)

    def __call__(self, lines, path):
        import io
        import os
        from insights.core import dr, spec_factory as sf
        kind = self.via["kind"]
        for l in lines:
            if u"\n" in l or u"\r" in l:
                raise _Skip("skip:line-holds-newline-or-cr")
        if kind in VIA_PROCESS:
            if any(c in l for l in lines for c in LINE_INNER):
                raise _Skip("skip:live-output-linebreak-chars(known-finding)")
        if self.via["ctx"] == "HostContext" and not lines:
            raise _Skip("skip:empty-content-is-not-collected-on-a-host")
        ctxcls, ctx = self._context()
        rel = "f%d/%s" % (self.n, path.lstrip("/"))
        self.n += 1
        if kind == "DatasourceProvider":
            prov = sf.DatasourceProvider(list(lines), rel, root=self.root, ctx=ctx)
            self.made.append((type(prov).__name__, self.via["ctx"], len(lines)))
            return prov
        full = os.path.join(self.root, rel)
        os.makedirs(os.path.dirname(full))
        text = u"\n".join(lines)
        if lines and (self.via["final_newline"] or lines[-1] == u""):
            text += u"\n"       # (a last line that is empty exists only through the newline after it)
        with io.open(full, "wb") as f:
            f.write(text.encode("utf-8"))
        if kind == "TextFileProvider":
            prov = sf.TextFileProvider(rel, root=self.root, ctx=ctx)
        elif kind == "SerializedOutputProvider":
            prov = sf.SerializedOutputProvider(rel, root=self.root, ctx=ctx)
        elif kind == "CommandOutputProvider":
            prov = sf.CommandOutputProvider("/bin/cat " + full, ctx)
        else:
            if kind == "simple_file":
                ds = sf.simple_file("/" + rel, context=ctxcls)
            elif kind == "glob_file":
                ds = sf.glob_file(os.path.dirname(rel) + "/*", context=ctxcls)
            elif kind == "first_file":
                ds = sf.first_file([rel + ".absent", "/" + rel], context=ctxcls)
            elif kind == "simple_command":
                ds = sf.simple_command("/bin/cat " + full, context=ctxcls)
            else:
                raise RuntimeError("unknown delivery %r" % (kind,))
            broker = dr.Broker()
            broker[ctxcls] = ctx
            broker = dr.run(dr.get_dependency_graph(ds), broker=broker)
            prov = broker.get(ds)
            if isinstance(prov, list) and len(prov) == 1:
                prov = prov[0]
            if prov is None or isinstance(prov, list):
                raise Violation("the %s spec evaluated under %s made no content provider for the existing readable "
                                "file %s" % (kind, self.via["ctx"], rel), got=repr(prov),
                                errors=[repr(e) for es in broker.exceptions.values() for e in es])
        self.made.append((type(prov).__name__, self.via["ctx"], len(lines)))
        return prov


_PROVIDER_FAMILY = {}


def check_provider(case):
    if not _PROVIDER_FAMILY:
        _PROVIDER_FAMILY.update({"command": check_command, "json": check_json, "yaml": check_yaml,
                                 "log_get": check_get, "log_after": check_after})
    via, fam, inner = case["via"], case["parser"], case["inner"]
    labels = ["parser=" + fam, "via=" + via["kind"], "ctx=" + via["ctx"]]
    with _Delivery(via) as d:
        try:
            res = _PROVIDER_FAMILY[fam](inner, mk=d)
        except _Skip as sk:
            return {"nontrivial": False, "labels": labels + [sk.label]}
        except Violation as v:
            how = "; ".join("%s%s, file of %d lines" % (p, "" if c == "none" else " under " + c, n) for p, c, n in d.made)
            details = dict(v.details) if isinstance(v.details, dict) else {"details": v.details}
            details["delivery"] = via
            raise Violation("[content delivered by %s] %s" % (how or via["kind"], v.msg), **details)
    # what the delivered text looked like (from the case: the inner checks compare with exactly these lines)
    if fam == "log_after":
        text = [ln["msg"] for ln in inner["lines"]]
    else:
        text = list(inner["lines"])
    if fam == "json" and inner.get("kind") == "deep":
        text = []
    inner_lb = any(c in l for l in text for c in LINE_INNER)
    odd = any(c in l for l in text for c in ODD_OTHER if c not in (u" ", u"\t"))
    if inner_lb:
        labels.append("line-holds-linebreakish-char")
    if odd:
        labels.append("line-holds-other-odd-char")
    if any(l != l.rstrip() for l in text):
        labels.append("trailing-blank")
    if text and text[-1] == u"":
        labels.append("last-line-empty")
    if text and text[0] == u"":
        labels.append("first-line-empty")
    if not text:
        labels.append("no-lines")
    elif not via["final_newline"] and text[-1] != u"" and via["kind"] != "DatasourceProvider":
        labels.append("file-without-final-newline")
    labels += ["%s:%s" % (fam, l) for l in res.get("labels", [])
               if l.split("=")[0] in ("kind", "outcome", "rejected", "accepted", "match", "year", "yearless")]
    real = via["kind"] != "DatasourceProvider"
    return {"nontrivial": real and (inner_lb or odd) and len(text) > 0, "labels": sorted(set(labels))}


# ------------------------------------------------------------------------------------------------


def selftest():
    import yaml  # noqa
    # reference classifiers on fixed cases
    assert _json_reference([]) == ("skip", None, 0)
    assert _json_reference(["null"])[0] == "skip"
    assert _json_reference(["x {", '{"a": [1, 2]}']) == ("value", {"a": [1, 2]}, 1)
    assert _json_reference(['{"a": [1, 2]'])[0] == "invalid"
    assert _json_reference(["3"])[0] == "scalar" and _json_reference(["  ", ""])[0] == "blank"
    for t in YAML_BROKEN:
        assert _yaml_reference(t)[0] == "invalid", ("yaml pool: expected a non-document", t)
    for t in YAML_EMPTY:
        assert _yaml_reference(t)[0] == "skip", ("yaml pool: expected an empty document", t)
    for t in YAML_SCALAR:
        assert _yaml_reference(t)[0] == "scalar", ("yaml pool: expected a scalar document", t)
    assert strict_eq({"a": [1, 2.0, None]}, {"a": [1, 2.0, None]})
    assert not strict_eq([1], [1.0]) and not strict_eq([1], [True]) and not strict_eq({"a": 1}, {"a": 1, "b": 2})
    # renderer against strftime / strptime of this process
    t = [2024, 3, 5, 15, 4, 9, 123456]
    dt = datetime.datetime(*t)
    for f in FORMATS:
        for fmt in _alts(f["tf"]):
            assert render_stamp(t, fmt, False) == dt.strftime(fmt), (fmt, render_stamp(t, fmt, False), dt.strftime(fmt))
            back = datetime.datetime.strptime(render_stamp(t, fmt, False), fmt)
            assert (back.month, back.day, back.hour, back.minute, back.second) == (3, 5, 15, 4, 9), fmt
    assert render_stamp(t, "%b %d %H:%M:%S", True) == "Mar  5 15:04:09"
    for hour in (0, 1, 11, 12, 13, 23):
        t2 = [2031, 12, 31, hour, 0, 59, 0]
        fmt = "%b %d, %Y %I:%M:%S %p"
        assert render_stamp(t2, fmt, False) == datetime.datetime(*t2).strftime(fmt), (hour, render_stamp(t2, fmt, False))
        assert datetime.datetime.strptime(render_stamp(t2, fmt, False), fmt) == datetime.datetime(*t2), hour
    assert _ascii_lower("No Such FILE K") == "no such file K"

    # log_history: formats that may share a list/dict are not confusable with each other, i.e. no
    # substring of a line stamped in one is a time in the other (strptime decides, no regex involved);
    # the pairs listed as confusable really are
    sample = [[2024, 3, 5, 15, 4, 9, 123456], [2012, 12, 31, 23, 59, 59, 999999], [2001, 1, 1, 0, 0, 0, 0]]

    def confusable(a, b):
        for t3 in sample:
            for sp in ([False, True] if " %d" in a else [False]):
                for pre in ("", "host "):
                    hit = _substring_is_stamp(pre + render_stamp(t3, a, sp) + " ab", b)
                    if hit:
                        return hit
        return None
    for a in YEAR_FMTS:
        for b in YEAR_FMTS:
            if _compatible(a, b):
                assert confusable(a, b) is None, ("formats offered together are confusable", a, b, confusable(a, b))
    for a, b in CONFUSABLE:
        assert a in YEAR_FMTS and b in YEAR_FMTS and (confusable(a, b) or confusable(b, a)), (a, b)
    for f in YEAR_FMTS + [NOYEAR_FMT]:
        assert render_stamp(t, f, False) == dt.strftime(f), f

    # provider: LINE_INNER is exactly the set of characters (besides CR / LF) at which the language's
    # line splitting cuts, i.e. the ones a layer built on str.splitlines() would lose inside a line
    cut = [chr(c) for c in range(0x3100) if len((u"a" + chr(c) + u"b").splitlines()) > 1]
    assert sorted(cut) == sorted(LINE_INNER + [u"\n", u"\r"]), [hex(ord(c)) for c in cut]
    assert not any(c in LINE_INNER for c in ODD_OTHER)


# ------------------------------------------------------------------------------------------------
# command parsers through the framework (a spec that yields several command outputs)

_FW_COUNTER = [0]


def check_framework(case):
    """A multi-output spec hands a command parser several outputs, some of them error messages: the
    content error of each of those is raised and accounted for, no object is made from it, every other
    output is parsed (or, with continue_on_error=False, the parser yields nothing at all)."""
    import sys
    import types
    from insights.core import dr, CommandParser
    from insights.core.context import Context
    from insights.core.exceptions import ContentException
    from insights.core.plugins import datasource, parser
    _FW_COUNTER[0] += 1
    uid = _FW_COUNTER[0]
    modname = "vp_c14_fw"
    mod = sys.modules.get(modname) or types.ModuleType(modname)
    sys.modules[modname] = mod
    outputs = case["outputs"]           # [{"lines": [...], "bad": bool}]
    seen = []

    def source(broker):
        return [Context(content=list(o["lines"]), path="/usr/bin/cmd%d" % k) for k, o in enumerate(outputs)]
    source.__name__ = source.__qualname__ = "src%d" % uid
    source.__module__ = modname
    setattr(mod, source.__name__, source)
    ds = datasource(multi_output=True)(source)

    class P(CommandParser):
        def parse_content(self, content):
            seen.append(list(content))
            self.lines = list(content)
    P.__name__ = P.__qualname__ = "P%d" % uid
    P.__module__ = modname
    setattr(mod, P.__name__, P)
    comp = parser(ds, continue_on_error=bool(case["coe"]))(P)
    try:
        broker = dr.Broker()
        dr.run(dr.get_dependency_graph(comp), broker=broker)
        good = [list(o["lines"]) for o in outputs if not o["bad"]]
        nbad = sum(1 for o in outputs if o["bad"])
        recorded = [e for e in broker.exceptions.get(comp, []) if isinstance(e, ContentException)]
        if case["coe"]:
            if len(recorded) != nbad:
                raise Violation("%d of the outputs are error messages but %d content errors are accounted for "
                                "against the parser" % (nbad, len(recorded)), outputs=outputs,
                                recorded=[str(e) for e in broker.exceptions.get(comp, [])])
            objs = broker.get(comp) or []
            got = [getattr(o, "lines", None) for o in objs]
            if got != good:
                raise Violation("the parser objects were made from %r, the outputs that are not error messages are %r"
                                % (got, good), outputs=outputs)
            if seen != good:
                raise Violation("parse_content received %r, expected exactly the outputs that are not error "
                                "messages: %r" % (seen, good))
        else:
            first_bad = next((k for k, o in enumerate(outputs) if o["bad"]), None)
            if first_bad is None:
                if [getattr(o, "lines", None) for o in (broker.get(comp) or [])] != good:
                    raise Violation("all outputs are ordinary but the parser did not yield one object per output")
            else:
                if comp in broker:
                    raise Violation("continue_on_error=False: an output is an error message but the parser still "
                                    "yielded objects", outputs=outputs)
                if not recorded:
                    raise Violation("continue_on_error=False: the content error of the error-message output is "
                                    "accounted for nowhere", outputs=outputs,
                                    recorded=[repr(e) for e in broker.exceptions.get(comp, [])])
        return {"nontrivial": 0 < nbad < len(outputs), "labels": ["coe=%s" % bool(case["coe"]), "bad=%d" % min(nbad, 3),
                                                                "outputs=%d" % len(outputs)]}
    finally:
        for c in (ds, comp):
            for reg in (dr.DELEGATES, dr.DEPENDENCIES, dr.DEPENDENTS, dr.MODULE_NAMES, dr.BASE_MODULE_NAMES, dr.ENABLED,
                        dr.IGNORE):
                reg.pop(c, None)
            for grp in list(dr.COMPONENTS.keys()):
                dr.COMPONENTS[grp].pop(c, None)
            for s_ in dr.COMPONENTS_BY_TYPE.values():
                s_.discard(c)
        for n in (source.__name__, P.__name__):
            if hasattr(mod, n):
                delattr(mod, n)


@st.composite
def _fw_case(draw):
    outs = []
    for _ in range(draw(st.integers(1, 4))):
        if draw(st.booleans()):
            phrase = draw(st.sampled_from(DOC_SINGLE))
            phrase = draw(st.sampled_from([phrase, phrase.upper(), phrase.title()]))
            outs.append({"lines": ["bash: thing: %s zq" % phrase], "bad": True})
        else:
            outs.append({"lines": draw(st.lists(st.sampled_from(["ok zq line", "value 1", "", "another zq"]), min_size=1,
                                                max_size=3)), "bad": False})
    return {"outputs": outs, "coe": draw(st.booleans())}


def strat_framework(tier):
    return _fw_case()


SUBS = [
    Sub("framework", check_framework, strategy=strat_framework, quick=300, thorough=3000, workers_quick=2),
    Sub("command", check_command, strategy=strat_command, quick=800, thorough=10000, workers_quick=2),
    Sub("json", check_json, strategy=strat_json, quick=400, thorough=10000, workers_quick=4),
    Sub("yaml", check_yaml, strategy=strat_yaml, quick=300, thorough=8000, workers_quick=4),
    Sub("log_get", check_get, strategy=strat_get, quick=800, thorough=10000, workers_quick=2),
    Sub("log_after", check_after, strategy=strat_after, quick=450, thorough=12000, workers_quick=4),
    Sub("log_history", check_history, strategy=strat_history, quick=200, thorough=4000, workers_quick=4),
    Sub("provider", check_provider, strategy=strat_provider, quick=175, thorough=6000, workers_quick=4),
]

REGRESSIONS = [
    # corners of the delivery of the `provider` sub-check (what a file / an output with these lines must read back as)
    Reg("provider-file-empty-first-line-no-final-newline", "provider", {
        "parser": "command", "via": {"kind": "TextFileProvider", "ctx": "HostArchiveContext", "final_newline": False},
        "inner": {"lines": ["", "a \x1f b ", "c\t"], "extra": None}}),
    Reg("provider-live-output-last-line-empty", "provider", {
        "parser": "command", "via": {"kind": "simple_command", "ctx": "HostContext", "final_newline": False},
        "inner": {"lines": [" x", ""], "extra": None}}),
    Reg("provider-spec-json-behind-noise-trailing-empty-line", "provider", {
        "parser": "json", "via": {"kind": "glob_file", "ctx": "SosArchiveContext", "final_newline": True},
        "inner": {"kind": "valid", "lines": ["warn\xa0 {x} ", "{\"k\u200b\": [1,", " \"\ufeff\"]}", ""], "noise": 1,
                  "value": {"k\u200b": [1, "\ufeff"]}}}),
    # false alarm of the harness found by the thorough tier (NaN != NaN), corrected in strict_eq
    Reg("json-nan-scalar", "json", {"kind": "garbage", "lines": ["NaN"], "noise": 0, "value": None}),
    Reg("single-line-upper", "command", {"lines": ["bash: foo: Command Not Found"], "extra": None}),
    Reg("single-phrase-multiline-accepted", "command", {"lines": ["a", "ls: x: No such file or directory"], "extra": None}),
    Reg("multi-phrase", "command", {"lines": ["a", "Missing Dependencies: x"], "extra": None}),
    Reg("extra-single", "command", {"lines": ["Usage: x"], "extra": ["usage:"]}),
    Reg("json-noise-bracket-inside", "json", {"kind": "valid", "lines": ["WARN {x} [y]", "  {", '"a": [1, {"b": null}]', "}"],
                                               "noise": 1, "value": {"a": [1, {"b": None}]}}),
    Reg("json-null", "json", {"kind": "null", "lines": ["null"], "noise": 0, "value": None}),
    Reg("json-empty", "json", {"kind": "empty", "lines": [], "noise": 0, "value": None}),
    Reg("json-deep-nesting-is-a-parse-error", "json", {"kind": "deep", "n": 50000, "lines": [], "noise": 0, "value": None}),
    Reg("yaml-valueerror-date", "yaml", {"kind": "broken", "lines": ["a: 2001-13-45"], "ignore": [], "value": None, "ignored": []}),
    Reg("yaml-attributeerror-timestamp", "yaml", {"kind": "broken", "lines": ["x: !!timestamp 'foo'"], "ignore": [],
                                                  "value": None, "ignored": []}),
    Reg("yaml-ignore-line", "yaml", {"kind": "valid", "lines": ["a:", "  WARNING: [", "- 1", "- b: 2"], "ignore": ["warning"],
                                     "value": {"a": [1, {"b": 2}]}, "ignored": [1]}),
    Reg("get-reverse-num", "log_get", {"lines": ["a err", "b err", "c", "d err"], "s": "err", "check": "all", "num": 2,
                                       "reverse": True, "base": "log"}),
    Reg("after-dec-jan", "log_after", {"fmt": 11, "query": [2022, 1, 1, 0, 0, 0, 0], "s": None, "lines": [
        {"t": [2021, 12, 31, 23, 59, 58, 0], "alt": 0, "pre": "", "msg": "host a", "spacepad": False},
        {"t": None, "msg": " cont"},
        {"t": [2022, 1, 1, 0, 0, 0, 0], "alt": 0, "pre": "", "msg": "host b", "spacepad": True},
        {"t": None, "msg": "cont"},
        {"t": [2021, 12, 30, 10, 0, 0, 0], "alt": 0, "pre": "", "msg": "old", "spacepad": False},
        {"t": None, "msg": "cont"}]}),
    # fixed history for the reference machinery of log_history: a list format, a sub-class with its own
    # year-less format, a second object of that sub-class, a sub-class of it without own format
    Reg("history-subclasses-and-objects", "log_history", {"parsers": [
        {"rel": "new", "of": 0, "lazy": False, "base": [2024, 3, 5, 11, 0, 0, 0],
         "tf": {"form": "list", "fmts": ["%Y-%m-%d %H:%M:%S", "%d/%b/%Y:%H:%M:%S"], "labels": []}, "lines": [
            {"t": [2024, 3, 5, 10, 0, 0, 0], "alt": 0, "pre": "", "msg": "start", "spacepad": False},
            {"t": None, "msg": " more"},
            {"t": [2024, 3, 5, 12, 0, 0, 0], "alt": 1, "pre": "[", "msg": "] GET /", "spacepad": False},
            {"t": None, "msg": " trace"}]},
        {"rel": "sub", "of": 0, "lazy": False, "base": [2024, 3, 5, 11, 0, 0, 0],
         "tf": {"form": "str", "fmts": ["%b %d %H:%M:%S"], "labels": []}, "lines": [
            {"t": [2024, 3, 5, 9, 0, 0, 0], "alt": 0, "pre": "", "msg": "host a", "spacepad": True},
            {"t": [2024, 3, 5, 11, 0, 0, 0], "alt": 0, "pre": "", "msg": "host b", "spacepad": True},
            {"t": None, "msg": "cont"}]},
        {"rel": "same", "of": 1, "lazy": False, "base": [2024, 3, 5, 11, 0, 0, 0], "tf": None, "lines": [
            {"t": [2024, 3, 6, 0, 0, 0, 0], "alt": 0, "pre": "", "msg": "host c", "spacepad": False}]},
        {"rel": "inherit", "of": 1, "lazy": False, "base": [2024, 3, 5, 11, 0, 0, 0], "tf": None, "lines": [
            {"t": [2024, 3, 4, 0, 0, 0, 0], "alt": 0, "pre": "", "msg": "host d", "spacepad": False},
            {"t": None, "msg": "cont"}]}],
        "ops": [{"op": "after", "p": 0, "query": [2024, 3, 5, 11, 0, 0, 0], "s": None},
                {"op": "after", "p": 1, "query": [2024, 3, 5, 11, 0, 0, 0], "s": None},
                {"op": "after", "p": 2, "query": [2024, 3, 5, 11, 0, 0, 0], "s": "host"},
                {"op": "get", "p": 3, "s": "cont"},
                {"op": "after", "p": 3, "query": [2024, 3, 5, 11, 0, 0, 0], "s": None},
                {"op": "after", "p": 0, "query": [2024, 3, 5, 9, 0, 0, 0], "s": ["a"]}]}),
]
