"""C14 - base parsers accept well-formed content and reject bad content as documented.

Sub-checks (all on throw-away subclasses, contexts built with insights.core.context.Context):

command    CommandParser: the documented error phrases (any letter case, any position) are rejected
           with ContentException before parse_content runs; everything else reaches parse_content
           as the identical list.
json       JSONParser: data == value for mapping/sequence documents (also behind noise lines),
           SkipComponent for empty / null, ParseException for every non-document, nothing else.
yaml       YAMLParser: the same through yaml.safe_dump renderings, ignore_lines honoured.
log_get    TextFileOutput/LogFileOutput.get (+ `in`, keep_scan/last_scan/token_scan): exactly the
           lines containing the terms (all/any), original order, first/last `num`.
log_after  LogFileOutput.get_after against a reference state machine over the generated datetimes.
"""
import datetime
import json

from hypothesis import strategies as st

from vp.core import Sub, Reg, Violation

PROPERTY = "C14"
RULE = ("command: outputs of 0-6 lines built from filler, near-miss phrases and the documented error "
        "phrases in generated letter case at generated positions, optional extra_bad_lines; "
        "non-trivial = a documented phrase in non-lower case inside a longer line. json/yaml: recursive "
        "values (dict/list roots, unicode, big ints, finite floats) rendered with varying "
        "indent/separators/flow style, optional noise / ignored lines, plus non-documents (truncations, "
        "single-character deletions, garbage, concatenations, unconstructible tagged scalars, deep "
        "nesting), empty and null documents; non-trivial = nested value behind noise (json) / with an "
        "ignored line or flow style (yaml), or a non-document. log_get: lines over a small vocabulary, "
        "terms as str/list, all/any, num, reverse; non-trivial = some but not all lines match. "
        "log_after: stamped and continuation lines, stamps rendered from generated datetimes in 14 "
        "shipped time formats (str/list/dict, with and without year, zero/space padded day), times "
        "scattered around the query time incl. equality and Dec/Jan boundaries; non-trivial = lines on "
        "both sides of the query time and a continuation line. Distinct by the whole case.")
ASSUMPTIONS = [
    "python's json module and PyYAML (same loader class the parser uses) define what a document's "
    "value is / whether a text is a document; every generated 'valid' case is additionally tied to "
    "the generated value itself",
    "C/POSIX locale for %a/%b/%p names (strftime and strptime of the same process)",
    "the phrases named in the CommandParser documentation are the must-reject set; the class's current "
    "lists (read at run time) bound what may be rejected",
]
EXCLUDED = [
    "JSON/YAML scalar root documents: JSON left unasserted (only: value, skip or parse error, no other "
    "exception type); whitespace-only JSON content; noise lines that start with { or [",
    "JSON/YAML documents whose root is an EMPTY mapping/sequence: statement is ambiguous ('valid "
    "mapping' vs 'empty document'); value equality or SkipComponent are both accepted",
    "29 February in year-less log formats (strptime itself rejects it): shifted to 28 February by the generator",
    "%A/%B locale names, time zones, time-only formats (%H:%M:%S without a date)",
    "extra_bad_lines containing upper-case letters (documented: lower case)",
    "more than one timestamp-shaped substring per log line; digits in log message text",
]

# ------------------------------------------------------------------------------------------------
# command
# ------------------------------------------------------------------------------------------------

DOC_SINGLE = ["no such file or directory", "not a directory", "command not found", "no module named",
              "no files found for"]
DOC_MULTI = ["missing dependencies:"]
NEAR = ["no such file", "command not  found", "not a  directory", "missing dependencies", "no module",
        "no files found", "command found", "nosuchfileordirectory", "no-such-file-or-directory",
        "missing dependencies :", "file or directory"]
EXTRA_POOL = ["invalid option", "timed out", "usage:", "error: cannot", "x"]

_fill = st.text(alphabet=st.sampled_from(list(u"abcdefgNOT xyz/.:-_'\"(){}[]=,0123456789\t") + [u"é", u"中", u"K", u"İ"]),
                max_size=16)


@st.composite
def _cased(draw, phrase):
    mode = draw(st.sampled_from(["lower", "upper", "title", "random", "random", "one"]))
    if mode == "lower":
        return phrase
    if mode == "upper":
        return phrase.upper()
    if mode == "title":
        return phrase.title()
    idx = [i for i, c in enumerate(phrase) if c.isalpha()]
    if not idx:
        return phrase
    if mode == "one":
        i = idx[draw(st.integers(0, len(idx) - 1))]
        return phrase[:i] + phrase[i].upper() + phrase[i + 1:]
    flags = draw(st.lists(st.booleans(), min_size=len(phrase), max_size=len(phrase)))
    return "".join(c.upper() if f else c for c, f in zip(phrase, flags))


@st.composite
def _cmd_case(draw):
    n = draw(st.sampled_from([0, 1, 1, 1, 1, 2, 2, 3, 4, 6]))
    extra = draw(st.one_of(st.none(), st.none(), st.lists(st.sampled_from(EXTRA_POOL), min_size=0, max_size=2)))
    lines = []
    for _ in range(n):
        kind = draw(st.sampled_from(["fill", "fill", "fill", "single", "single", "multi", "near", "extra", "blank"]))
        if kind == "fill":
            lines.append(draw(_fill))
            continue
        if kind == "blank":
            lines.append(draw(st.sampled_from(["", " ", "\t"])))
            continue
        if kind == "single":
            ph = draw(_cased(draw(st.sampled_from(DOC_SINGLE))))
        elif kind == "multi":
            ph = draw(_cased(draw(st.sampled_from(DOC_MULTI))))
        elif kind == "near":
            ph = draw(_cased(draw(st.sampled_from(NEAR))))
        else:
            ph = draw(_cased(draw(st.sampled_from(EXTRA_POOL))))
        pos = draw(st.sampled_from(["alone", "start", "end", "middle", "middle"]))
        pre = draw(_fill) if pos in ("end", "middle") else ""
        suf = draw(_fill) if pos in ("start", "middle") else ""
        lines.append(pre + ph + suf)
    return {"lines": lines, "extra": extra}


def strat_command(tier):
    return _cmd_case()


def _ascii_lower(s):
    return "".join(chr(ord(c) + 32) if "A" <= c <= "Z" else c for c in s)


_BASELINE = {}


def check_command(case):
    from insights.core import CommandParser
    from insights.core.context import Context
    from insights.core.exceptions import ContentException

    lines = list(case["lines"])
    extra = case["extra"]
    seen = []

    class P(CommandParser):
        def parse_content(self, content):
            seen.append(content)

    # the class-wide phrase lists as they are before any parser of this process was given extra
    # phrases (read once per process): extra_bad_lines belong to the one parser they are passed to
    if "single" not in _BASELINE:
        _BASELINE["single"] = list(getattr(CommandParser, "_CommandParser__bad_single_lines", DOC_SINGLE))
        _BASELINE["multi"] = list(getattr(CommandParser, "_CommandParser__bad_lines", DOC_MULTI))
    cur_single = list(_BASELINE["single"])
    cur_multi = list(_BASELINE["multi"])
    ex = list(extra or [])

    def hit(phrases, lower):
        return [p for p in phrases for l in lines if p in lower(l)]

    doc_list = DOC_SINGLE if len(lines) == 1 else (DOC_MULTI if len(lines) > 1 else [])
    cur_list = cur_single if len(lines) == 1 else (cur_multi if len(lines) > 1 else [])
    must = hit(doc_list, _ascii_lower) + hit(ex, _ascii_lower)
    may = hit(cur_list, lambda s: s.lower()) + hit(ex, lambda s: s.lower())

    ctx = Context(content=lines, path="/usr/bin/some_command")
    obj = None
    rejected = False
    try:
        if extra is None:
            obj = P(ctx)
        else:
            obj = P(ctx, extra_bad_lines=list(extra))
    except ContentException:
        rejected = True
    except Exception as e:  # noqa
        raise Violation("CommandParser raised %s (%s), neither parsed nor ContentException"
                        % (type(e).__name__, e), lines=lines, extra=extra)
    if rejected:
        if seen:
            raise Violation("parse_content ran although the content was rejected", lines=lines, extra=extra)
        if not may:
            raise Violation("output without any error phrase was rejected with ContentException",
                            lines=lines, extra=extra)
    else:
        if must:
            raise Violation("output containing the documented error phrase %r was parsed" % must[0],
                            lines=lines, extra=extra, phrases=must)
        if len(seen) != 1 or seen[0] != case["lines"] or not isinstance(seen[0], list):
            raise Violation("parse_content did not receive the output unchanged", lines=lines,
                            received=seen)
        if obj is None:
            raise Violation("no parser object although nothing was raised")
    labels = ["rejected" if rejected else "accepted", "lines=%s" % ("0" if not lines else "1" if len(lines) == 1 else "n")]
    # a second, different parser created afterwards without extra phrases: output that merely contains
    # one of the first parser's extra phrases is ordinary output for it and must reach it unchanged
    if ex:
        for form in ("single", "multi"):
            probe = ["zq " + ex[0] + " zq"] + (["second zq line"] if form == "multi" else [])
            base_list = cur_single if form == "single" else cur_multi
            if any(ph in l.lower() for ph in base_list for l in probe):
                continue
            seen2 = []

            class Q(CommandParser):
                def parse_content(self, content):
                    seen2.append(content)
            try:
                Q(Context(content=list(probe), path="/usr/bin/other_command"))
            except ContentException:
                raise Violation("after a parser was created with extra_bad_lines=%r, a different command parser "
                                "without extra phrases rejects the ordinary output %r" % (ex, probe),
                                first_lines=lines, extra=extra)
            if seen2 != [probe]:
                raise Violation("parse_content of the second parser did not receive its output unchanged",
                                received=seen2, probe=probe)
            labels.append("followup-parser-unaffected")
    nt = False
    for p in must:
        for l in lines:
            if p in _ascii_lower(l) and p not in l:
                labels.append("phrase-nonlower")
                if len(l) > len(p):
                    nt = True
                    labels.append("phrase-nonlower-inside-longer-line")
    if len(lines) > 1 and hit(DOC_SINGLE, _ascii_lower) and not rejected:
        labels.append("single-phrase-in-multiline-accepted")
        nt = True
    if len(lines) == 1 and hit(DOC_MULTI, _ascii_lower) and not rejected:
        labels.append("multi-phrase-in-single-line-accepted")
    if hit(ex, _ascii_lower):
        labels.append("extra-hit")
    if hit(NEAR, _ascii_lower) and not rejected:
        labels.append("near-miss-accepted")
    return {"nontrivial": nt, "labels": sorted(set(labels))}


# ------------------------------------------------------------------------------------------------
# values shared by json / yaml
# ------------------------------------------------------------------------------------------------

_txt = st.one_of(st.text(max_size=6),
                 st.text(alphabet=st.sampled_from(list(u"ab {}[]:,#'\"-\\/\n\t?&*!|>%@`") + [u"é", u"中", u" ", u"😀"]), max_size=8),
                 st.sampled_from(["null", "true", "no", "~", "1", "1.5", "2001-01-01", "{", "[", "- a", "a: b", ""]))
_scalar = st.one_of(st.none(), st.booleans(), st.integers(-10 ** 6, 10 ** 6), st.integers(-10 ** 30, 10 ** 30),
                    st.floats(allow_nan=False, allow_infinity=False), _txt)


def _values(keys):
    return st.recursive(_scalar, lambda ch: st.one_of(st.lists(ch, max_size=4),
                                                      st.dictionaries(keys, ch, max_size=4)), max_leaves=10)


def _roots(keys):
    v = _values(keys)
    return st.one_of(st.lists(v, max_size=5), st.dictionaries(keys, v, max_size=5),
                     st.lists(v, min_size=1, max_size=3), st.dictionaries(keys, v, min_size=1, max_size=3))


def strict_eq(a, b):
    """deep equality that also distinguishes bool/int/float/str/None and list/dict"""
    if type(a) is not type(b):
        return False
    if isinstance(a, dict):
        if len(a) != len(b):
            return False
        for k in a:
            if k not in b:
                return False
            # keys: 1 and True hash alike; require the same key types
            kb = [x for x in b if x == k and type(x) is type(k)]
            if not kb or not strict_eq(a[k], b[k]):
                return False
        return True
    if isinstance(a, list):
        return len(a) == len(b) and all(strict_eq(x, y) for x, y in zip(a, b))
    if isinstance(a, float) and a != a:
        return b != b           # NaN (the JSON decoder accepts the literal NaN): equal to itself here
    return a == b


def _depth(v):
    if isinstance(v, dict):
        return 1 + max([_depth(x) for x in v.values()] or [0])
    if isinstance(v, list):
        return 1 + max([_depth(x) for x in v] or [0])
    return 0


# ------------------------------------------------------------------------------------------------
# json
# ------------------------------------------------------------------------------------------------

_noise_line = st.one_of(
    st.sampled_from(["", "   ", "WARNING: {not json}", "x [1, 2]", "Loaded plugins: a, b", 'foo {"a": 1}',
                     "null", "1", "\"s\"", "}", "]", "a{", "-[", "time=\"x\" level=warning msg=\"[a]\""]),
    st.builds(lambda a, b: a + b, st.sampled_from(list("abW#/\"'}]:,0-")), st.text(alphabet=" ab{}[]:,\"1", max_size=10)),
)


@st.composite
def _json_text(draw, value):
    indent = draw(st.sampled_from([None, None, 0, 1, 2, 4, "\t"]))
    seps = draw(st.sampled_from([None, None, [",", ":"], [" , ", " : "]]))
    kw = {"indent": indent, "ensure_ascii": draw(st.booleans()), "sort_keys": draw(st.booleans())}
    if seps is not None:
        kw["separators"] = tuple(seps)
    return json.dumps(value, **kw)


@st.composite
def _json_case(draw):
    kind = draw(st.sampled_from(["valid"] * 8 + ["truncate", "truncate", "delete", "delete", "garbage", "concat",
                                                 "empty", "null", "null", "scalar", "insert", "deep"]))
    if kind == "empty":
        return {"kind": kind, "lines": [], "noise": 0, "value": None}
    if kind == "deep":
        return {"kind": kind, "n": draw(st.sampled_from([3000, 50000])), "lines": [], "noise": 0, "value": None}
    if kind == "null":
        lines = draw(st.sampled_from([["null"], [" null "], ["", "null"], ["null", ""], ["\tnull", "  "]]))
        return {"kind": kind, "lines": lines, "noise": 0, "value": None}
    if kind == "garbage":
        lines = draw(st.lists(st.one_of(_noise_line, _fill), min_size=1, max_size=4))
        return {"kind": kind, "lines": lines, "noise": 0, "value": None}
    if kind == "scalar":
        v = draw(st.one_of(st.booleans(), st.integers(-999, 10 ** 20), st.floats(allow_nan=False, allow_infinity=False),
                           st.text(max_size=5)))
        return {"kind": kind, "lines": json.dumps(v).split("\n"), "noise": 0, "value": v}
    value = draw(_roots(st.text(max_size=5)))
    text = draw(_json_text(value))
    noise = draw(st.one_of(st.just([]), st.just([]), st.lists(_noise_line, min_size=1, max_size=3)))
    if kind == "valid":
        lead = draw(st.sampled_from(["", "", " ", "\t", "    "]))
        trail = draw(st.sampled_from([[], [], [""], ["  ", ""]]))
        lines = noise + (lead + text).split("\n") + trail
        return {"kind": kind, "lines": lines, "noise": len(noise), "value": value}
    if kind == "truncate":
        p = draw(st.integers(1, max(1, len(text) - 1)))
        text = text[:p]
    elif kind == "delete":
        p = draw(st.integers(0, len(text) - 1))
        text = text[:p] + text[p + 1:]
    elif kind == "insert":
        p = draw(st.integers(0, len(text)))
        text = text[:p] + draw(st.sampled_from(list("{}[],:\"x1 ") + ["\n"])) + text[p:]
    else:
        text = text + draw(st.sampled_from(["", " ", "\n", ","])) + draw(_json_text(draw(_roots(st.text(max_size=3)))))
    return {"kind": kind, "lines": noise + text.split("\n"), "noise": len(noise), "value": None}


def strat_json(tier):
    return _json_case()


def _json_reference(lines):
    """(class, value) of an arbitrary content by the documented rule: the document starts at the
    first line whose stripped text starts with { or [ (else at line 0); python's json decides."""
    if not lines:
        return "skip", None, 0
    start = 0
    for i, l in enumerate(lines):
        s = l.strip()
        if s.startswith("{") or s.startswith("["):
            start = i
            break
    text = "\n".join(lines[start:])
    if not "".join(lines).strip():
        return "blank", None, start
    try:
        v = json.loads(text)
    except (ValueError, RecursionError):
        return "invalid", None, start
    if v is None:
        return "skip", None, start
    if isinstance(v, (dict, list)):
        return "value", v, start
    return "scalar", v, start


def check_json(case):
    from insights.core import JSONParser
    from insights.core.context import Context
    from insights.core.exceptions import ParseException, SkipComponent, ContentException

    class J(JSONParser):
        pass

    lines = list(case["lines"])
    kind = case["kind"]
    if kind == "deep":
        lines = ["[" * int(case["n"])]
    if kind == "valid":
        cls, want, start = "value", case["value"], case["noise"]
    elif kind == "deep":
        cls, want, start = "invalid", None, 0
    else:
        cls, want, start = _json_reference(lines)
    outcome, obj = None, None
    try:
        obj = J(Context(content=lines, path="/tmp/doc.json"))
        outcome = "value"
    except ContentException as e:
        raise Violation("JSONParser raised ContentException", lines=lines[:20], error=str(e))
    except SkipComponent:
        outcome = "skip"
    except ParseException:
        outcome = "invalid"
    except Exception as e:  # noqa
        raise Violation("JSONParser raised %s instead of ParseException/SkipComponent: %s"
                        % (type(e).__name__, str(e)[:200]), lines=[l[:200] for l in lines[:20]], kind=kind)
    labels = ["kind=" + kind, "class=" + cls, "outcome=" + outcome]
    nt = False
    if cls == "value":
        empty_root = len(want) == 0
        if outcome == "skip" and empty_root:
            labels.append("empty-root-skipped")
        elif outcome != "value":
            raise Violation("valid JSON %s document was answered with %s" % (type(want).__name__, outcome),
                            lines=lines, value=want)
        else:
            if not strict_eq(obj.data, want):
                raise Violation("JSONParser.data differs from the document's value", lines=lines, value=want,
                                data=repr(obj.data)[:500])
            if kind == "valid" and list(obj.unparsed_lines) != lines[:start]:
                raise Violation("unparsed_lines differs from the noise lines before the document",
                                lines=lines, noise=lines[:start], unparsed=obj.unparsed_lines)
        if start:
            labels.append("noise")
            if any(("{" in l or "[" in l) for l in lines[:start]):
                labels.append("noise-with-bracket-inside")
        if _depth(want) >= 2:
            labels.append("nested")
        nt = bool(start) and _depth(want) >= 2
    elif cls == "skip":
        if outcome != "skip":
            raise Violation("empty/null JSON content must be a SkipComponent, got %s" % outcome, lines=lines)
        nt = True
    elif cls == "invalid":
        if outcome != "invalid":
            raise Violation("non-document must be a ParseException, got %s" % outcome, lines=[l[:300] for l in lines],
                            data=repr(getattr(obj, "data", None))[:300])
        nt = True
    else:
        # scalar roots / whitespace-only content: deliberately unasserted beyond the exception types
        if outcome == "value" and cls == "scalar" and not strict_eq(obj.data, want):
            raise Violation("JSONParser.data differs from the scalar document's value", lines=lines)
        labels.append("unasserted")
    return {"nontrivial": nt, "labels": labels}


# ------------------------------------------------------------------------------------------------
# yaml
# ------------------------------------------------------------------------------------------------

YAML_BROKEN = ["a: [1, 2", "a: b: c", "\ta: 1", "{", "key: 'unterminated", "@foo", "a: *x", "a: 1\n---\nb: 2",
               "a: 2001-13-45", "x: !!int abc", "x: !!float abc", "x: !!timestamp 'foo'",
               "a: !!python/object:os.system x", "- a\nb: 1", "a: 1\n  b: 2", "? [a]\n: b", "{[1, 2]: 3}",
               "<<: 1", "a: 'x' y", "[a, b]]", "- 2021-02-30 10:00:00"]
YAML_EMPTY = ["", "# only a comment", "---", "null", "~", "--- ~", "\n\n", "  # c\n\n# d", "--- null\n..."]
YAML_SCALAR = ["abc", "42", "true", "'x'", "1.5", "2001-01-01", "a b c", "\"q\"", "|\n  text", "!!str 5"]
IGNORE_POOL = ["warning", "notice:", "grubby", "+ ", "error: ", "debug"]
IGNORE_TAIL = [": [", " {x", ": 'open", " - a: : b", ": ]", "\t:"]


def _loader():
    import yaml
    return getattr(yaml, "CSafeLoader", yaml.SafeLoader)


def _yaml_reference(text):
    import yaml
    try:
        v = yaml.load(text, Loader=_loader())
    except Exception:  # noqa  (anything: YAMLError, ValueError, AttributeError, RecursionError)
        return "invalid", None
    if v is None:
        return "skip", None
    if isinstance(v, (dict, list)):
        return "value", v
    return "scalar", v


# (string keys only: a case must survive a JSON round trip for replay)
_ykeys = st.one_of(st.text(alphabet="abcXYZ_- .", min_size=1, max_size=6), _txt)


@st.composite
def _yaml_case(draw):
    import yaml
    kind = draw(st.sampled_from(["valid"] * 9 + ["truncate", "delete", "broken", "broken", "empty", "scalar", "garbage"]))
    if kind == "broken":
        return {"kind": kind, "lines": draw(st.sampled_from(YAML_BROKEN)).split("\n"), "ignore": [], "value": None, "ignored": []}
    if kind == "empty":
        t = draw(st.sampled_from(YAML_EMPTY + ["<none>"]))
        return {"kind": kind, "lines": [] if t == "<none>" else t.split("\n"), "ignore": [], "value": None, "ignored": []}
    if kind == "scalar":
        return {"kind": kind, "lines": draw(st.sampled_from(YAML_SCALAR)).split("\n"), "ignore": [], "value": None, "ignored": []}
    if kind == "garbage":
        return {"kind": kind, "lines": draw(st.lists(st.one_of(_fill, _noise_line), min_size=1, max_size=4)),
                "ignore": [], "value": None, "ignored": []}
    value = draw(_roots(_ykeys))
    text = yaml.safe_dump(value, default_flow_style=draw(st.sampled_from([False, False, True, None])),
                          allow_unicode=draw(st.booleans()), indent=draw(st.sampled_from([None, 2, 4])),
                          width=draw(st.sampled_from([80, 20, 1000])), explicit_start=draw(st.booleans()),
                          sort_keys=draw(st.booleans()))
    lines = text.split("\n")
    if kind == "truncate":
        p = draw(st.integers(1, max(1, len(text) - 1)))
        return {"kind": kind, "lines": text[:p].split("\n"), "ignore": [], "value": None, "ignored": []}
    if kind == "delete":
        p = draw(st.integers(0, len(text) - 1))
        return {"kind": kind, "lines": (text[:p] + text[p + 1:]).split("\n"), "ignore": [], "value": None, "ignored": []}
    # valid: optionally configure ignore_lines and inject lines that start with one of the keywords
    ignore = draw(st.one_of(st.just([]), st.lists(st.sampled_from(IGNORE_POOL), min_size=1, max_size=3, unique=True)))
    ignore = [k for k in ignore if not any(l.lstrip().lower().startswith(k) for l in lines)]
    ignored = []
    if ignore:
        for _ in range(draw(st.integers(0, 3))):
            kw = draw(_cased(draw(st.sampled_from(ignore))))
            new = draw(st.sampled_from(["", " ", "    ", "\t"])) + kw + draw(st.sampled_from(IGNORE_TAIL))
            at = draw(st.integers(0, len(lines)))
            lines.insert(at, new)
            ignored = [i + 1 if i >= at else i for i in ignored] + [at]
    return {"kind": kind, "lines": lines, "ignore": ignore, "value": value, "ignored": sorted(ignored)}


def strat_yaml(tier):
    return _yaml_case()


def check_yaml(case):
    import yaml
    from insights.core import YAMLParser
    from insights.core.context import Context
    from insights.core.exceptions import ParseException, SkipComponent, ContentException

    Y = type("Y", (YAMLParser,), {"ignore_lines": tuple(case["ignore"])})
    lines = list(case["lines"])
    kind = case["kind"]
    kept = [l for i, l in enumerate(lines) if i not in set(case["ignored"])]
    labels = ["kind=" + kind]
    if kind == "valid":
        # the trusted library itself must round-trip the rendering, otherwise the case says nothing
        # about the parser
        rcls, rval = _yaml_reference("\n".join(kept))
        if rcls != "value" or not strict_eq(rval, _yamlish(case["value"])):
            return {"nontrivial": False, "labels": labels + ["library-roundtrip-miss"]}
        cls, want = "value", _yamlish(case["value"])
    else:
        cls, want = _yaml_reference("\n".join(kept))
    outcome, obj = None, None
    try:
        obj = Y(Context(content=lines, path="/tmp/doc.yaml"))
        outcome = "value"
    except ContentException as e:
        raise Violation("YAMLParser raised ContentException", lines=lines[:20], error=str(e))
    except SkipComponent:
        outcome = "skip"
    except ParseException:
        outcome = "invalid"
    except Exception as e:  # noqa
        raise Violation("YAMLParser raised %s instead of ParseException/SkipComponent: %s"
                        % (type(e).__name__, str(e)[:200]), lines=lines[:20], kind=kind)
    labels += ["class=" + cls, "outcome=" + outcome]
    nt = False
    if cls == "value":
        if outcome == "skip" and len(want) == 0:
            labels.append("empty-root-skipped")
        elif outcome != "value":
            raise Violation("valid YAML %s document was answered with %s" % (type(want).__name__, outcome),
                            lines=lines, value=repr(want)[:500], ignore=case["ignore"])
        elif not strict_eq(obj.data, want):
            raise Violation("YAMLParser.data differs from the document's value", lines=lines,
                            value=repr(want)[:500], data=repr(obj.data)[:500], ignore=case["ignore"])
        if case["ignored"]:
            labels.append("ignored-lines")
        if lines and lines[0].lstrip()[:1] in ("{", "["):
            labels.append("flow")
        if _depth(want) >= 2:
            labels.append("nested")
        nt = kind == "valid" and _depth(want) >= 2 and (bool(case["ignored"]) or "flow" in labels)
    elif cls == "skip":
        if outcome != "skip":
            raise Violation("empty/null YAML document must be a SkipComponent, got %s" % outcome, lines=lines)
        nt = True
    else:
        # scalar roots and everything that does not load: ParseException
        if outcome != "invalid":
            raise Violation("%s YAML content must be a ParseException, got %s"
                            % ("scalar" if cls == "scalar" else "invalid", outcome), lines=lines,
                            data=repr(getattr(obj, "data", None))[:300])
        nt = True
    return {"nontrivial": nt, "labels": labels}


def _yamlish(v):
    """the generated value as YAML can express it (nothing to convert today: str/int keys, JSON-able
    leaves) - kept as one place to normalise should the generator grow"""
    return v


# ------------------------------------------------------------------------------------------------
# log_get
# ------------------------------------------------------------------------------------------------

VOCAB = ["error", "warn", "err", "kernel:", "ab", "abc", "b", "ERROR", "x y", "", "timeout", "é", "out"]
_logline = st.builds(lambda ws, seps: "".join(w + s for w, s in zip(ws, seps)),
                     st.lists(st.sampled_from(VOCAB), min_size=0, max_size=5),
                     st.lists(st.sampled_from([" ", " ", "", ": ", "-"]), min_size=5, max_size=5))
_term = st.one_of(st.sampled_from(VOCAB), st.sampled_from(["e", "r", "or w", " ", "zzz", "rr", "a"]))


@st.composite
def _get_case(draw):
    lines = draw(st.lists(_logline, min_size=0, max_size=12))
    s = draw(st.one_of(_term, st.lists(_term, min_size=1, max_size=3)))
    return {"lines": lines, "s": s, "check": draw(st.sampled_from(["all", "all", "any"])),
            "num": draw(st.one_of(st.none(), st.none(), st.integers(0, 4))),
            "reverse": draw(st.booleans()), "base": draw(st.sampled_from(["log", "log", "text"]))}


def strat_get(tier):
    return _get_case()


def check_get(case):
    from insights.core import LogFileOutput, TextFileOutput
    from insights.core.context import Context

    base = LogFileOutput if case["base"] == "log" else TextFileOutput
    L = type("L", (base,), {})
    lines = list(case["lines"])
    s = case["s"]
    s_arg = list(s) if isinstance(s, list) else s
    chk = all if case["check"] == "all" else any
    num, rev = case["num"], case["reverse"]
    L.keep_scan("kept", s_arg, check=chk, num=num, reverse=rev)
    L.last_scan("last", s_arg, check=chk)
    L.token_scan("tok", s_arg, check=chk)
    obj = L(Context(content=lines, path="/var/log/x.log"))

    terms = s if isinstance(s, list) else [s]
    if case["check"] == "all" or not isinstance(s, list):
        match = [l for l in lines if all(t in l for t in terms)]
    else:
        match = [l for l in lines if any(t in l for t in terms)]
    want = match
    if num is not None:
        want = match[max(0, len(match) - num):] if rev else match[:num]
    kw = {}
    if case["check"] == "any":
        kw["check"] = any
    if num is not None:
        kw["num"] = num
    if rev:
        kw["reverse"] = True
    got = obj.get(s_arg, **kw)

    rkey = "raw_message" if case["base"] == "log" else "raw_line"

    def raw(rs):
        out = []
        for r in rs:
            if not isinstance(r, dict) or rkey not in r:
                raise Violation("get() returned something that is not a parsed-line dict", item=repr(r))
            out.append(r[rkey])
        return out

    if raw(got) != want:
        raise Violation("get(%r, check=%s, num=%r, reverse=%r) returned %r, expected %r"
                        % (s, case["check"], num, rev, raw(got), want), lines=lines)
    if raw(obj.kept) != want:
        raise Violation("keep_scan result %r differs from the expected lines %r" % (raw(obj.kept), want),
                        lines=lines, s=s)
    want_last = match[-1:]
    got_last = raw([obj.last]) if obj.last else []
    if got_last != want_last:
        raise Violation("last_scan result %r, expected %r" % (got_last, want_last), lines=lines, s=s)
    if bool(obj.tok) != bool(match):
        raise Violation("token_scan says %r but %d lines match" % (obj.tok, len(match)), lines=lines, s=s)
    match_all = [l for l in lines if all(t in l for t in terms)]
    if (s_arg in obj) != bool(match_all):
        raise Violation("`in` says %r but %d lines contain all terms" % (s_arg in obj, len(match_all)), lines=lines, s=s)
    if obj.lines != case["lines"]:
        raise Violation("lines attribute differs from the content")
    labels = ["check=" + case["check"], "s=" + ("list" if isinstance(s, list) else "str"),
              "num=" + ("none" if num is None else "cut" if num < len(match) else "wide"),
              "reverse" if rev else "forward",
              "match=" + ("none" if not match else "all" if len(match) == len(lines) else "some")]
    if isinstance(s, list) and len(s) > 1:
        a = [l for l in lines if all(t in l for t in terms)]
        o = [l for l in lines if any(t in l for t in terms)]
        if a != o:
            labels.append("all!=any")
    if rev and num is not None and 0 < num < len(match) and len(set(want)) > 1:
        labels.append("reverse-cut-multi")
    return {"nontrivial": 0 < len(match) < len(lines), "labels": labels}


# ------------------------------------------------------------------------------------------------
# log_after
# ------------------------------------------------------------------------------------------------

FORMATS = [
    # (time_format as given to the class, per-line choices of single format strings, has_year)
    {"tf": "%Y-%m-%d %H:%M:%S", "year": True},
    {"tf": "%Y/%m/%d %H:%M:%S", "year": True},
    {"tf": "%d/%b/%Y:%H:%M:%S", "year": True},
    {"tf": "%a %b %d %H:%M:%S %Y", "year": True},
    {"tf": "%m/%d/%y %H:%M:%S", "year": True},
    {"tf": "%Y-%m-%d %H:%M:%S,%f", "year": True},
    {"tf": "%b %d %H:%M:%S.%f %Y", "year": True},
    {"tf": "%b %d, %Y %I:%M:%S %p", "year": True},
    {"tf": "%Y-%m-%dT%H:%M:%S.%f", "year": True},
    {"tf": ["%Y-%m-%d %H:%M:%S", "%d/%b/%Y:%H:%M:%S"], "year": True},
    {"tf": {"pre_10.1.5": "%y%m%d %H:%M:%S", "post_10.1.5": "%Y-%m-%d %H:%M:%S"}, "year": True},
    {"tf": "%b %d %H:%M:%S", "year": False},
    {"tf": ["%b %d %H:%M:%S"], "year": False},
    {"tf": {"syslog": "%b %d %H:%M:%S"}, "year": False},
]
MON = ["Jan", "Feb", "Mar", "Apr", "May", "Jun", "Jul", "Aug", "Sep", "Oct", "Nov", "Dec"]
DAY = ["Mon", "Tue", "Wed", "Thu", "Fri", "Sat", "Sun"]


def _alts(tf):
    if isinstance(tf, dict):
        return list(tf.values())
    if isinstance(tf, list):
        return list(tf)
    return [tf]


def render_stamp(t, fmt, spacepad):
    """own strftime for the directives used above (C locale names), day optionally space padded"""
    y, mo, d, h, mi, s, us = t
    dt = datetime.datetime(y, mo, d, h, mi, s, us)
    out, i = [], 0
    while i < len(fmt):
        c = fmt[i]
        if c != "%":
            out.append(c)
            i += 1
            continue
        k = fmt[i + 1]
        i += 2
        if k == "Y":
            out.append("%04d" % y)
        elif k == "y":
            out.append("%02d" % (y % 100))
        elif k == "m":
            out.append("%02d" % mo)
        elif k == "d":
            out.append(("%2d" if spacepad else "%02d") % d)
        elif k == "H":
            out.append("%02d" % h)
        elif k == "I":
            out.append("%02d" % ((h % 12) or 12))
        elif k == "p":
            out.append("AM" if h < 12 else "PM")
        elif k == "M":
            out.append("%02d" % mi)
        elif k == "S":
            out.append("%02d" % s)
        elif k == "f":
            out.append("%06d" % us)
        elif k == "b":
            out.append(MON[mo - 1])
        elif k == "a":
            out.append(DAY[dt.weekday()])
        else:
            raise ValueError("render_stamp: unsupported directive %" + k)
    return "".join(out)


_msg_alpha = list(u"abcdefgh xyzERRO:-_[]()=/.,") + [u"é"]
_msg = st.text(alphabet=st.sampled_from(_msg_alpha), max_size=14)
_pre = st.sampled_from(["", "", "", "[", "<", "host ", "x", "  ", "a b "])
_off_sec = st.one_of(
    st.sampled_from([0, 0, 1, -1, 60, -60, 3600, -3600, 86400, -86400, 2, -2]),
    st.integers(-30 * 86400, 30 * 86400),
    st.integers(-120, 120),
)


def _t(dt):
    return [dt.year, dt.month, dt.day, dt.hour, dt.minute, dt.second, dt.microsecond]


@st.composite
def _after_case(draw):
    fi = draw(st.integers(0, len(FORMATS) - 1))
    f = FORMATS[fi]
    alts = _alts(f["tf"])
    has_us = any("%f" in a for a in alts)
    boundary = draw(st.sampled_from(["any", "any", "jan", "dec"]))
    year = draw(st.integers(2002, 2060))
    if boundary == "jan":
        q = datetime.datetime(year, 1, draw(st.integers(1, 6)), draw(st.integers(0, 23)), draw(st.integers(0, 59)),
                              draw(st.integers(0, 59)))
    elif boundary == "dec":
        q = datetime.datetime(year, 12, draw(st.integers(26, 31)), draw(st.integers(0, 23)), draw(st.integers(0, 59)),
                              draw(st.integers(0, 59)))
    else:
        q = datetime.datetime(year, 1, 1) + datetime.timedelta(seconds=draw(st.integers(0, 365 * 86400 - 1)))
    if has_us and draw(st.booleans()):
        q = q.replace(microsecond=draw(st.sampled_from([0, 1, 500000, 999999])))
    lines = []
    for _ in range(draw(st.integers(0, 10))):
        msg = draw(_msg)
        if draw(st.sampled_from([True, True, False])):
            off = draw(_off_sec)
            if f["year"] and draw(st.integers(0, 9)) == 0:
                off = draw(st.integers(-400 * 86400, 400 * 86400))
            dt = q + datetime.timedelta(seconds=off)
            if has_us:
                dt = dt.replace(microsecond=draw(st.sampled_from([q.microsecond, q.microsecond, 0, 1, 123456, 999999])))
            if not f["year"] and dt.month == 2 and dt.day == 29:
                dt = dt - datetime.timedelta(days=1)          # strptime rejects a year-less 29 February
            lines.append({"t": _t(dt), "alt": draw(st.integers(0, len(alts) - 1)), "pre": draw(_pre),
                          "msg": msg, "spacepad": draw(st.booleans())})
        else:
            lines.append({"t": None, "msg": msg})
    s = draw(st.one_of(st.none(), st.none(), st.sampled_from(["a", "e", "ERR", " ", ":"]),
                       st.lists(st.sampled_from(["a", "e", "x", " "]), min_size=1, max_size=2)))
    return {"fmt": fi, "query": _t(q), "lines": lines, "s": s}


def strat_after(tier):
    return _after_case()


def check_after(case):
    from insights.core import LogFileOutput
    from insights.core.context import Context

    f = FORMATS[case["fmt"]]
    alts = _alts(f["tf"])
    tf = f["tf"]
    tf = dict(tf) if isinstance(tf, dict) else (list(tf) if isinstance(tf, list) else tf)
    L = type("L", (LogFileOutput,), {"time_format": tf})
    q = datetime.datetime(*case["query"])
    rendered, times = [], []
    spacepadded = False
    for ln in case["lines"]:
        if ln["t"] is None:
            rendered.append(ln["msg"])
            times.append(None)
        else:
            fmt = alts[ln["alt"] % len(alts)]
            sp = bool(ln["spacepad"]) and " %d" in fmt
            spacepadded = spacepadded or (sp and ln["t"][2] < 10)
            stamp = render_stamp(ln["t"], fmt, sp)
            sep = "" if not ln["msg"] else " "
            rendered.append(ln["pre"] + stamp + sep + ln["msg"])
            t = datetime.datetime(*ln["t"])
            if "%f" not in fmt:
                t = t.replace(microsecond=0)
            times.append(t)
    s = case["s"]
    terms = [] if s is None else (s if isinstance(s, list) else [s])
    want, including = [], False
    for line, t in zip(rendered, times):
        if terms and not all(x in line for x in terms):
            continue
        if t is not None:
            including = t >= q
            if including:
                want.append(line)
        elif including:
            want.append(line)
    obj = L(Context(content=rendered, path="/var/log/x.log"))
    s_arg = list(s) if isinstance(s, list) else s
    res = list(obj.get_after(q) if s is None else obj.get_after(q, s_arg))
    got = []
    for r in res:
        if not isinstance(r, dict) or "raw_message" not in r:
            raise Violation("get_after yielded something that is not a parsed-line dict", item=repr(r))
        got.append(r["raw_message"])
    if got != want:
        raise Violation("get_after(%s, %r) returned %r, expected %r" % (q.isoformat(), s, got, want),
                        time_format=repr(f["tf"]), lines=rendered)
    stamped = [t for t in times if t is not None]
    labels = ["fmt=%d" % case["fmt"], "year" if f["year"] else "yearless", "s=" + ("none" if s is None else "given")]
    before = any(t < q for t in stamped)
    after = any(t >= q for t in stamped)
    if any(t == q for t in stamped):
        labels.append("stamp==query")
    if before and after:
        labels.append("both-sides")
    cont = any(t is None for t in times)
    if cont:
        labels.append("continuation")
    if any(t.year != q.year for t in stamped):
        labels.append("other-year")
        if not f["year"]:
            labels.append("yearless-year-boundary")
    # an earlier stamp after a later one followed by a continuation line (the reset of the state)
    for i in range(len(times) - 2):
        if times[i] is not None and times[i] >= q and times[i + 1] is not None and times[i + 1] < q \
                and times[i + 2] is None:
            labels.append("later-earlier-continuation")
            break
    if spacepadded:
        labels.append("spacepad-day")
    return {"nontrivial": before and after and cont, "labels": sorted(set(labels))}


# ------------------------------------------------------------------------------------------------


def selftest():
    import yaml  # noqa
    # reference classifiers on fixed cases
    assert _json_reference([]) == ("skip", None, 0)
    assert _json_reference(["null"])[0] == "skip"
    assert _json_reference(["x {", '{"a": [1, 2]}']) == ("value", {"a": [1, 2]}, 1)
    assert _json_reference(['{"a": [1, 2]'])[0] == "invalid"
    assert _json_reference(["3"])[0] == "scalar" and _json_reference(["  ", ""])[0] == "blank"
    for t in YAML_BROKEN:
        assert _yaml_reference(t)[0] == "invalid", ("yaml pool: expected a non-document", t)
    for t in YAML_EMPTY:
        assert _yaml_reference(t)[0] == "skip", ("yaml pool: expected an empty document", t)
    for t in YAML_SCALAR:
        assert _yaml_reference(t)[0] == "scalar", ("yaml pool: expected a scalar document", t)
    assert strict_eq({"a": [1, 2.0, None]}, {"a": [1, 2.0, None]})
    assert not strict_eq([1], [1.0]) and not strict_eq([1], [True]) and not strict_eq({"a": 1}, {"a": 1, "b": 2})
    # renderer against strftime / strptime of this process
    t = [2024, 3, 5, 15, 4, 9, 123456]
    dt = datetime.datetime(*t)
    for f in FORMATS:
        for fmt in _alts(f["tf"]):
            assert render_stamp(t, fmt, False) == dt.strftime(fmt), (fmt, render_stamp(t, fmt, False), dt.strftime(fmt))
            back = datetime.datetime.strptime(render_stamp(t, fmt, False), fmt)
            assert (back.month, back.day, back.hour, back.minute, back.second) == (3, 5, 15, 4, 9), fmt
    assert render_stamp(t, "%b %d %H:%M:%S", True) == "Mar  5 15:04:09"
    for hour in (0, 1, 11, 12, 13, 23):
        t2 = [2031, 12, 31, hour, 0, 59, 0]
        fmt = "%b %d, %Y %I:%M:%S %p"
        assert render_stamp(t2, fmt, False) == datetime.datetime(*t2).strftime(fmt), (hour, render_stamp(t2, fmt, False))
        assert datetime.datetime.strptime(render_stamp(t2, fmt, False), fmt) == datetime.datetime(*t2), hour
    assert _ascii_lower("No Such FILE K") == "no such file K"


# ------------------------------------------------------------------------------------------------
# command parsers through the framework (a spec that yields several command outputs)

_FW_COUNTER = [0]


def check_framework(case):
    """A multi-output spec hands a command parser several outputs, some of them error messages: the
    content error of each of those is raised and accounted for, no object is made from it, every other
    output is parsed (or, with continue_on_error=False, the parser yields nothing at all)."""
    import sys
    import types
    from insights.core import dr, CommandParser
    from insights.core.context import Context
    from insights.core.exceptions import ContentException
    from insights.core.plugins import datasource, parser
    _FW_COUNTER[0] += 1
    uid = _FW_COUNTER[0]
    modname = "vp_c14_fw"
    mod = sys.modules.get(modname) or types.ModuleType(modname)
    sys.modules[modname] = mod
    outputs = case["outputs"]           # [{"lines": [...], "bad": bool}]
    seen = []

    def source(broker):
        return [Context(content=list(o["lines"]), path="/usr/bin/cmd%d" % k) for k, o in enumerate(outputs)]
    source.__name__ = source.__qualname__ = "src%d" % uid
    source.__module__ = modname
    setattr(mod, source.__name__, source)
    ds = datasource(multi_output=True)(source)

    class P(CommandParser):
        def parse_content(self, content):
            seen.append(list(content))
            self.lines = list(content)
    P.__name__ = P.__qualname__ = "P%d" % uid
    P.__module__ = modname
    setattr(mod, P.__name__, P)
    comp = parser(ds, continue_on_error=bool(case["coe"]))(P)
    try:
        broker = dr.Broker()
        dr.run(dr.get_dependency_graph(comp), broker=broker)
        good = [list(o["lines"]) for o in outputs if not o["bad"]]
        nbad = sum(1 for o in outputs if o["bad"])
        recorded = [e for e in broker.exceptions.get(comp, []) if isinstance(e, ContentException)]
        if case["coe"]:
            if len(recorded) != nbad:
                raise Violation("%d of the outputs are error messages but %d content errors are accounted for "
                                "against the parser" % (nbad, len(recorded)), outputs=outputs,
                                recorded=[str(e) for e in broker.exceptions.get(comp, [])])
            objs = broker.get(comp) or []
            got = [getattr(o, "lines", None) for o in objs]
            if got != good:
                raise Violation("the parser objects were made from %r, the outputs that are not error messages are %r"
                                % (got, good), outputs=outputs)
            if seen != good:
                raise Violation("parse_content received %r, expected exactly the outputs that are not error "
                                "messages: %r" % (seen, good))
        else:
            first_bad = next((k for k, o in enumerate(outputs) if o["bad"]), None)
            if first_bad is None:
                if [getattr(o, "lines", None) for o in (broker.get(comp) or [])] != good:
                    raise Violation("all outputs are ordinary but the parser did not yield one object per output")
            else:
                if comp in broker:
                    raise Violation("continue_on_error=False: an output is an error message but the parser still "
                                    "yielded objects", outputs=outputs)
                if not recorded:
                    raise Violation("continue_on_error=False: the content error of the error-message output is "
                                    "accounted for nowhere", outputs=outputs,
                                    recorded=[repr(e) for e in broker.exceptions.get(comp, [])])
        return {"nontrivial": 0 < nbad < len(outputs), "labels": ["coe=%s" % bool(case["coe"]), "bad=%d" % min(nbad, 3),
                                                                "outputs=%d" % len(outputs)]}
    finally:
        for c in (ds, comp):
            for reg in (dr.DELEGATES, dr.DEPENDENCIES, dr.DEPENDENTS, dr.MODULE_NAMES, dr.BASE_MODULE_NAMES, dr.ENABLED,
                        dr.IGNORE):
                reg.pop(c, None)
            for grp in list(dr.COMPONENTS.keys()):
                dr.COMPONENTS[grp].pop(c, None)
            for s_ in dr.COMPONENTS_BY_TYPE.values():
                s_.discard(c)
        for n in (source.__name__, P.__name__):
            if hasattr(mod, n):
                delattr(mod, n)


@st.composite
def _fw_case(draw):
    outs = []
    for _ in range(draw(st.integers(1, 4))):
        if draw(st.booleans()):
            phrase = draw(st.sampled_from(DOC_SINGLE))
            phrase = draw(st.sampled_from([phrase, phrase.upper(), phrase.title()]))
            outs.append({"lines": ["bash: thing: %s zq" % phrase], "bad": True})
        else:
            outs.append({"lines": draw(st.lists(st.sampled_from(["ok zq line", "value 1", "", "another zq"]), min_size=1,
                                                max_size=3)), "bad": False})
    return {"outputs": outs, "coe": draw(st.booleans())}


def strat_framework(tier):
    return _fw_case()


SUBS = [
    Sub("framework", check_framework, strategy=strat_framework, quick=300, thorough=3000, workers_quick=2),
    Sub("command", check_command, strategy=strat_command, quick=1000, thorough=10000, workers_quick=2),
    Sub("json", check_json, strategy=strat_json, quick=900, thorough=10000, workers_quick=2),
    Sub("yaml", check_yaml, strategy=strat_yaml, quick=600, thorough=8000, workers_quick=2),
    Sub("log_get", check_get, strategy=strat_get, quick=1000, thorough=10000, workers_quick=2),
    Sub("log_after", check_after, strategy=strat_after, quick=1200, thorough=12000, workers_quick=2),
]

REGRESSIONS = [
    # false alarm of the harness found by the thorough tier (NaN != NaN), corrected in strict_eq
    Reg("json-nan-scalar", "json", {"kind": "garbage", "lines": ["NaN"], "noise": 0, "value": None}),
    Reg("single-line-upper", "command", {"lines": ["bash: foo: Command Not Found"], "extra": None}),
    Reg("single-phrase-multiline-accepted", "command", {"lines": ["a", "ls: x: No such file or directory"], "extra": None}),
    Reg("multi-phrase", "command", {"lines": ["a", "Missing Dependencies: x"], "extra": None}),
    Reg("extra-single", "command", {"lines": ["Usage: x"], "extra": ["usage:"]}),
    Reg("json-noise-bracket-inside", "json", {"kind": "valid", "lines": ["WARN {x} [y]", "  {", '"a": [1, {"b": null}]', "}"],
                                               "noise": 1, "value": {"a": [1, {"b": None}]}}),
    Reg("json-null", "json", {"kind": "null", "lines": ["null"], "noise": 0, "value": None}),
    Reg("json-empty", "json", {"kind": "empty", "lines": [], "noise": 0, "value": None}),
    Reg("json-deep-nesting-is-a-parse-error", "json", {"kind": "deep", "n": 50000, "lines": [], "noise": 0, "value": None}),
    Reg("yaml-valueerror-date", "yaml", {"kind": "broken", "lines": ["a: 2001-13-45"], "ignore": [], "value": None, "ignored": []}),
    Reg("yaml-attributeerror-timestamp", "yaml", {"kind": "broken", "lines": ["x: !!timestamp 'foo'"], "ignore": [],
                                                  "value": None, "ignored": []}),
    Reg("yaml-ignore-line", "yaml", {"kind": "valid", "lines": ["a:", "  WARNING: [", "- 1", "- b: 2"], "ignore": ["warning"],
                                     "value": {"a": [1, {"b": 2}]}, "ignored": [1]}),
    Reg("get-reverse-num", "log_get", {"lines": ["a err", "b err", "c", "d err"], "s": "err", "check": "all", "num": 2,
                                       "reverse": True, "base": "log"}),
    Reg("after-dec-jan", "log_after", {"fmt": 11, "query": [2022, 1, 1, 0, 0, 0, 0], "s": None, "lines": [
        {"t": [2021, 12, 31, 23, 59, 58, 0], "alt": 0, "pre": "", "msg": "host a", "spacepad": False},
        {"t": None, "msg": " cont"},
        {"t": [2022, 1, 1, 0, 0, 0, 0], "alt": 0, "pre": "", "msg": "host b", "spacepad": True},
        {"t": None, "msg": "cont"},
        {"t": [2021, 12, 30, 10, 0, 0, 0], "alt": 0, "pre": "", "msg": "old", "spacepad": False},
        {"t": None, "msg": "cont"}]}),
]
