"""C05 - the latest implementation for the active context is the one that supplies a spec.

A case describes a registry class (1-3 RegistryPoints with random flags), a pool of helper
datasources and a *sequence* of 1-6 direct SpecSet subclasses.  The classes are created with
type(...) so that SpecSetMeta / _resolve_registry_points / _register_context_handler run for real.
Every implementation is a generated datasource whose body appends to a call log.  The same built
world is then evaluated once per private ExecutionContext subclass as the only active context and
compared with a reference resolver written from the statement alone:

    candidates(point, X) = implementations whose declared contexts (directly or through the
                           datasources they are bound to) contain the active context X
    L = the last registered candidate
    * no candidate but L executes, no implementation declared only for other contexts executes
    * the registry point holds L's value, or is absent when L produced none
    * the parser on top of the point is handed exactly that value (each element of it when the
      value is a list) or does not fire

Nothing in the model looks at dr.IGNORE, context_handlers or the order of the point's deps.

Round 4: the evaluation goes through every public driver of dr (run, run_all, run_incremental,
run_components with a harness-chosen linear extension or a cached dr.run_order), and the sub-check
`history` evaluates one world several times in one process through the public front ends
(insights.run / _run / process_dir / dr.* / SingleEvaluator, default graph, group name, private graph,
one caller-owned graph object), including serialized archives written with Hydration.dehydrate; the
same resolver is applied after every step and once more for every context after the last step.

Round 5: (a) a spec set may bind ONE datasource object to several registry-point names (`secondary =
primary` in the class body, or a datasource an earlier class already bound under another name): one
implementation, one execution, resolved per spec name; (b) the context classes of a world may extend
one another (as JBossContext extends HostContext and plug-ins extend HostArchiveContext) and may be the
shipped HostContext / JBossContext / HostArchiveContext themselves - "declared for a context" names a
class, the active context is the class in the broker, a context that extends another one is another
context; (c) in `history` the broker of the dr.* / SingleEvaluator steps is prepared by the harness or by
the repository's hydration.initialize_broker (directory with the context's marker, or context handed
over), and insights._run is also driven without a root.

Round 6: (a) implementations may be switched off (dr.set_enabled(x, False), insights.apply_configs with
`enabled: false`): world key "disabled" (applied right after the spec set is defined) and, in `history`,
"switch" steps between evaluations (off / on again).  A switched-off implementation is still registered and
still declared for its contexts - it yields nothing: when it is the latest one for the active context the
spec is absent and the implementations it overrides stay silent.  (b) nested registries: a class that
extends the registry class (or an earlier nested registry) and re-declares some of its points under the same
name (`class ProductSpecs(BaseSpecs): conf = RegistryPoint()`), defined somewhere in the sequence; every
later spec set subclasses any registry that exists by then.  All implementations hooked in through any of
the registries are implementations of the one spec name, ordered by registration.

Round 7: an implementation may be built on ANOTHER spec of the world - the registry point itself
(`@datasource(Specs.release)`), the parser on it, or a combiner on that parser - alone or next to a context it
names itself.  Its link to the execution context then passes through a registry point: it is declared for the
contexts the implementations of that spec are declared for (as far as that was settled when it was registered)
and can run only where that spec holds a value."""
import itertools
import json
import sys
import types

from hypothesis import strategies as st

from vp.core import Sub, Reg, Violation, HarnessError

PROPERTY = "C05"
RULE = ("a registry class with 1-3 registry points (random flags) and a sequence of 1-6 direct "
        "subclasses of it (in ~1 world in 3 also 1-2 nested registries - classes extending the registry class or an "
        "earlier nested registry that re-declare some of its points under the same name - defined somewhere in the "
        "sequence, later spec sets subclassing any registry defined by then) built with type(); in ~1 world in 3 one "
        "or two implementations (preferably the latest of several for some context) are switched off with "
        "dr.set_enabled / insights.apply_configs right after they are defined, and history has switch steps "
        "(off / on again, same two entry points) between evaluations; every implementation is a generated datasource bound "
        "to one private context, an at-least-one list of contexts, a (chain of) context-bound helper "
        "datasource(s), a context plus a helper, (rarely) a context-free helper, or - for a point that is not the first "
        "one, ~1 implementation in 3 - ANOTHER SPEC of the world with a lower index (the registry point itself, the "
        "parser on it, a combiner on that parser; alone or next to a context it names itself); outcomes value / "
        "list value / SkipComponent / ContentException / CalledProcessError / TimeoutException / "
        "ValueError; a spec set may bind one datasource object to several registry-point names (created in "
        "the same class or bound by an earlier class under another name; ~1 world in 12); the 3-4 context "
        "classes are private classes extending ExecutionContext, private classes extending the class of an "
        "earlier slot, or the shipped HostContext / JBossContext / HostArchiveContext (~60 % of the worlds "
        "have two contexts related by inheritance); each of the contexts is made the single active one in turn, through "
        "dr.run, dr.run_all, dr.run_incremental, dr.run_components (harness-chosen linear extension / "
        "cached dr.run_order) with the context put into the broker by the harness, or through insights._run("
        "broker, graph, context=C), which puts it there itself. Sub-check shipped: every registry point of "
        "insights.specs.Specs x every context a shipped implementation declares or that extends one of them, "
        "broker prepared by the harness and by insights._run. Sub-check history: the same kind of world (values as DatasourceProvider) "
        "plus 1-5 evaluation steps in one process, each through one public front end (insights.run with "
        "root / context / component list / no root, insights._run, insights.process_dir, dr.run over a "
        "private graph / the default graph / the group name / one caller-owned graph object, dr.run_all, "
        "dr.run_incremental, dr.run_components, SingleEvaluator.process; the broker of the latter prepared by "
        "the harness or by hydration.initialize_broker) under one context of the world or on a "
        "serialized archive dehydrated from an evaluation of the world; resolver applied after every step "
        "and for every context over the default graph (and the caller-owned graph) after the last one; "
        "non-trivial there: a spec went through an archive, or >= 2 steps over a world with an override. "
        "Non-trivial (per world): for some active context a point has >= 3 "
        "implementations, >= 2 of them declared for the active context, and either a declaration "
        "naming several contexts or a latest implementation that yields nothing; distinct by the "
        "whole case.")
ASSUMPTIONS = [
    "exactly one execution context is designated by the caller (put into the broker by the harness, named by "
    "the directory's marker file, or handed over as context=); 'the active context' is that class - a context "
    "class that extends another one is a different context, implementations declared only for the class it "
    "extends (or for a class extending it) are implementations for other contexts",
    "one datasource object bound to several registry-point names is one implementation with one execution; "
    "the statement is applied per spec name (see EXCLUDED for the constellation in which it contradicts itself)",
    "spec sets subclass the registry class directly (as every shipped spec set does) or a nested registry - a class "
    "extending the registry class (or another nested registry) that re-declares, under the same name, points which "
    "the class it extends declares itself; a spec set only binds names the registry it subclasses declares; all "
    "implementations hooked in through any of these registries are implementations of the one spec name, ordered "
    "by the time the class that binds them was defined",
    "a switched-off implementation (dr.set_enabled(x, False), apply_configs `enabled: false`) is still registered "
    "and still declared for its contexts; it 'yields nothing' (that it is not executed is dr.set_enabled's promise "
    "and is not asserted here)",
    "'declared for a context' = the context class is reachable through the implementation's "
    "dependency declarations; an implementation whose declarations reach no context is declared for "
    "none: it is never required to stay silent, and the expected value is asserted only where the "
    "statement is unambiguous (see EXCLUDED)",
    "an implementation built on another spec (registry point / parser on it / combiner on the parser) is declared "
    "for the contexts the implementations of that spec are declared for - the link to the context passes through a "
    "registry point - as far as that spec had those implementations when the dependent one was registered (entries "
    "of one class body are registered in the order in which they are written); it can run only where that spec "
    "(its parser) holds a value; it always has a higher index than the specs it is built on",
    "an implementation that names a context can only run when one of its named contexts is active "
    "(no at-least-one group mixing a context with a context-free datasource)",
    "history: dr.COMPONENTS[GROUPS.single] holds only the generated components while a case runs (previous "
    "content restored afterwards); a directory carrying a private context's marker file is identified as "
    "that context; under SerializedArchiveContext only the 'other contexts never contribute' clause, "
    "absence of specs that were not in the archive, and parser-input = spec content are demanded (the "
    "statement does not speak about hydrated values)",
]
EXCLUDED = [
    "value of a point when a context-free implementation with a value was registered after the "
    "latest implementation for the active context, or when that latest implementation (or no "
    "implementation at all) is declared for the active context and yields nothing while a "
    "context-free one has a value: the statement does not say whether a context-free "
    "implementation is 'overridden' (call-log assertions are still made)",
    "implementations returning None or an empty list (whether that is 'a value' is not stated)",
    "a datasource object bound to several spec names that is, under the active context, the latest "
    "implementation of one name and registered earlier than another implementation under another name: the "
    "statement demands both that it is not executed at all and that it supplies the value - neither is "
    "asserted for that object, the value of the specs it is the latest implementation of is not asserted "
    "(all other claims are); the same object bound twice to the SAME spec name is not generated",
    "an implementation built on another spec under an active context for which that spec got an implementation only "
    "AFTER the dependent implementation was registered, or built on a spec that has a context-free implementation "
    "(may hold a value under any context): whether it is 'declared for' the active context is not settled by the "
    "statement - the value of its point and the call logs of the candidates of that point are not asserted there "
    "('declared only for other contexts => never runs, holds nothing' still is); whether an implementation built on a "
    "spec whose value is unasserted (or on the parser of a spec holding an empty list) runs is not asserted; under a "
    "serialized archive nothing is demanded of implementations built on another spec (the spec may be hydrated)",
    "context classes that inherit the marker of the class they extend (every private context has a marker of "
    "its own); directories carrying several markers",
    "spec sets that subclass another implementing class; two contexts active at once; a nested registry that "
    "re-declares a name its direct base class does not declare itself (a new, unconnected point), spec sets binding "
    "a name the registry they subclass does not declare (not hooked in at all)",
    "value of a point re-declared by a nested registry while a context-free implementation holds a value (looked up "
    "registry by registry - not even registration order decides; call-log assertions are still made)",
    "switched-off helper datasources / registry points; default_component_enabled: false (process-wide)",
    "history: pooled front ends (parallel=True / pool=...), cluster archives, compressed archives "
    "(extract), print_summary / command-line parsing of insights.run",
]

_counter = itertools.count()

OUTS = ["ok", "ok", "ok", "list", "skip", "content", "cpe", "timeout", "crash", "empty_str", "zero", "empty_list"]
# empty_str / zero / empty_list: the implementation succeeds with a falsy value (an empty listing, "", 0)


# ------------------------------------------------------------------------------------------------
# reference model (independent of dr)

SPEC_REFS = "pqm"
# references of an implementation to ANOTHER spec of the world: "p<k>" = registry point k itself
# (`@datasource(Specs.release)`), "q<k>" = the parser on registry point k, "m<k>" = a combiner on that parser


def _refs_ok(refs, nctx, nhelp, npts=0):
    for r in refs:
        if r[0] == "c":
            if not 0 <= int(r[1:]) < nctx:
                return False
        elif r[0] == "h":
            if not 0 <= int(r[1:]) < nhelp:
                return False
        elif r[0] in SPEC_REFS:
            if not 0 <= int(r[1:]) < npts:
                return False
        else:
            return False
    return True


def _spec_refs(node):
    """indices of the registry points an implementation is built on (directly, through the parser on the
    point, or through a combiner on that parser)"""
    return [int(r[1:]) for r in node.get("req", []) + node.get("grp", []) if r[0] in SPEC_REFS]


def _uses_specs(case):
    return any(_spec_refs(im) for s in case["sets"] for im in s)


SHIPPED_CTX = ["HostContext", "JBossContext", "HostArchiveContext"]
# execution contexts of the repository a context slot may BE (JBossContext extends HostContext) or extend


def _ctx_descr(case):
    """per context slot: None = a private class extending ExecutionContext directly, an int j < i = a
    private class extending the class of slot j, a name of SHIPPED_CTX = that shipped class itself"""
    return list(case.get("ctxs") or [None] * case["nctx"])


def _inner(case):
    """registries that extend the registry class (or an earlier one of these) and re-declare some of its
    points under the same name: [{"base": 0 = the registry class | j = inner registry j-1, "points": [...],
    "at": index of the spec set right before which the class is defined}]"""
    return list(case.get("inner") or [])


def _via(case):
    """per spec set: the registry it subclasses (0 = the registry class, j = inner registry j-1)"""
    return list(case.get("via") or [0] * len(case["sets"]))


def _validate(case):
    nctx = case["nctx"]
    if not 2 <= nctx <= 5:
        raise HarnessError("bad case: nctx")
    descr = _ctx_descr(case)
    if len(descr) != nctx:
        raise HarnessError("bad case: ctxs")
    for i, d in enumerate(descr):
        if d is None:
            continue
        if isinstance(d, bool) or not (isinstance(d, int) and 0 <= d < i) and not (
                d in SHIPPED_CTX and descr.count(d) == 1):
            raise HarnessError("bad case: context slot %d: %r" % (i, d))
    for j, h in enumerate(case["helpers"]):
        if not _refs_ok(h["req"] + h["grp"], nctx, j):
            raise HarnessError("bad case: helper %d refers forward" % j)
        if any(r[0] == "h" for r in h["grp"]):
            raise HarnessError("bad case: helper group may only hold contexts")
    inner = _inner(case)
    via = _via(case)
    if len(via) != len(case["sets"]):
        raise HarnessError("bad case: via")
    reg_points = [set(range(len(case["points"])))]
    for j, inn in enumerate(inner):
        # a registry that extends an(other) registry of the world and re-declares some of ITS points
        if not (0 <= inn["base"] <= j and inn["points"] and set(inn["points"]) <= reg_points[inn["base"]]
                and len(set(inn["points"])) == len(inn["points"]) and 0 <= inn["at"] < max(1, len(case["sets"]))):
            raise HarnessError("bad case: inner registry %d" % j)
        if inn["base"] and inner[inn["base"] - 1]["at"] > inn["at"]:
            raise HarnessError("bad case: inner registry %d defined before the registry it extends" % j)
        reg_points.append(set(inn["points"]))
    creators = {}      # object id (set, point of the creating entry) -> points it is bound to so far
    spec_refs = {}     # object id -> other specs the object is built on
    for si, s in enumerate(case["sets"]):
        seen = set()
        if not 0 <= via[si] <= len(inner) or (via[si] and inner[via[si] - 1]["at"] > si):
            raise HarnessError("bad case: set %d extends a registry that is not defined yet" % si)
        for im in s:
            if not 0 <= im["point"] < len(case["points"]) or im["point"] in seen:
                raise HarnessError("bad case: point index")
            if im["point"] not in reg_points[via[si]]:
                raise HarnessError("bad case: set %d binds a name the registry it extends does not declare" % si)
            seen.add(im["point"])
            if "same_as" in im:
                # the datasource object created by an earlier entry (of this or an earlier spec set) is
                # bound to one more registry-point name; never a second time to the same name
                oid = tuple(im["same_as"])
                if oid not in creators or im["point"] in creators[oid]:
                    raise HarnessError("bad case: same_as %r" % (im["same_as"],))
                if any(q >= im["point"] for q in spec_refs[oid]):
                    raise HarnessError("bad case: same_as %r - the object is built on a spec that is not lower than "
                                       "the name it is bound to (cycle)" % (im["same_as"],))
                creators[oid].add(im["point"])
                continue
            creators[(si, im["point"])] = set([im["point"]])
            # another spec an implementation is built on always has a LOWER index than every name the
            # implementation is bound to (no cycles)
            if not _refs_ok(im["req"] + im["grp"], nctx, len(case["helpers"]), im["point"]):
                raise HarnessError("bad case: implementation refs")
            spec_refs[(si, im["point"])] = _spec_refs(im)
            if any(r[0] != "c" for r in im["grp"]):
                raise HarnessError("bad case: implementation group may only hold contexts")
            if not im["req"] and not im["grp"]:
                raise HarnessError("bad case: implementation without any declaration")
    for o in case.get("disabled", []):
        if tuple(o) not in creators:
            raise HarnessError("bad case: disabled %r" % (o,))


def _bindings(case):
    """-> (per point: [(set index, object id)] in registration order, {object id: creating entry}).
    An object id is (set, point) of the entry that created the datasource object; an entry with
    "same_as" binds an existing object to one more registry-point name."""
    creators = {}
    per_point = [[] for _ in case["points"]]
    for si, s in enumerate(case["sets"]):
        for im in s:
            if "same_as" in im:
                oid = tuple(im["same_as"])
            else:
                oid = (si, im["point"])
                creators[oid] = im
            per_point[im["point"]].append((si, oid))
    return per_point, creators


def _declared(node, hdecl):
    """contexts reachable through the declarations of a helper / implementation"""
    out = set()
    for r in node["req"] + node["grp"]:
        if r[0] == "c":
            out.add(int(r[1:]))
        elif r[0] == "h":
            out |= hdecl[int(r[1:])]
        # (contexts reached through another spec: see model)
    return out


def _satisfied(node, active, hval):
    def has(r):
        return (int(r[1:]) == active) if r[0] == "c" else (int(r[1:]) in hval)
    if not all(has(r) for r in node["req"]):
        return False
    if node["grp"] and not any(has(r) for r in node["grp"]):
        return False
    return True


def _value(tag, out):
    if out == "ok":
        return tag
    if out == "list":
        return [tag + "#0", tag + "#1"]
    if out == "empty_str":
        return ""
    if out == "zero":
        return 0
    if out == "empty_list":
        return []
    return None


def _sat3(node, has):
    """three-valued: True / False / None (= not decided by the statement, see model)"""
    vals = [has(r) for r in node["req"]]
    if any(v is False for v in vals):
        return False
    grp = True
    if node["grp"]:
        gv = [has(r) for r in node["grp"]]
        grp = True if any(v is True for v in gv) else (None if any(v is None for v in gv) else False)
    if grp is False:
        return False
    if grp is None or any(v is None for v in vals):
        return None
    return True


def _declarations(case, hdecl):
    """contexts an implementation is declared for when its declaration goes through ANOTHER SPEC of the world
    (`@datasource(Specs.release)`, a parser / combiner built on a spec): the contexts the implementations of
    that spec are declared for.

    -> (per_point, creators, fin, reg): fin[object id] = (contexts, open) over the finished world,
    reg[(set, point)] = (contexts, open) of that binding AT THE TIME IT WAS REGISTERED (only the implementations
    the other spec had by then; within a class body: the entries before it).  open = the declaration reaches a
    spec that has a context-free implementation (it may hold a value under any context)."""
    per_point, creators = _bindings(case)
    when = {}
    for si, s in enumerate(case["sets"]):
        for k, im in enumerate(s):
            when[(si, im["point"])] = (si, k)
    memo = {}

    def D(oid, t):
        if (oid, t) in memo:
            return memo[(oid, t)]
        im = creators[oid]
        out, opn = set(), False
        for r in im["req"] + im["grp"]:
            if r[0] == "c":
                out.add(int(r[1:]))
            elif r[0] == "h":
                out |= hdecl[int(r[1:])]
            else:
                q = int(r[1:])
                for (si, o) in per_point[q]:
                    if t is not None and when[(si, q)] >= t:
                        continue
                    ds, do = D(o, t)
                    if do or not ds:
                        opn = True
                    out |= ds
        memo[(oid, t)] = (out, opn)
        return memo[(oid, t)]

    fin = dict((oid, D(oid, None)) for oid in creators)
    reg = {}
    for p, binds in enumerate(per_point):
        for (si, oid) in binds:
            reg[(si, p)] = D(oid, when[(si, p)])
    return per_point, creators, fin, reg


def model(case, active):
    """-> per point: dict(mode = value | absent | unasserted, value, must_not_run=[[set, point, why, object id]],
    latest=[set, point] of the binding or None, latest_obj=object id, latest_runs=bool | None, ...).

    One datasource object may be bound to several registry-point names (same_as).  It is then ONE
    implementation with one execution; the statement is applied per spec name.  Where the statement
    contradicts itself for such an object - registered earlier than another implementation for the active
    context under one name ("not executed at all") and the latest one under another name ("supplies the
    value") - nothing is demanded of that object and of the specs it is the latest implementation of
    (conflict=True, mode unasserted).

    An implementation may be built on ANOTHER spec of the world (always one with a lower index): it is then
    declared for the contexts the implementations of that spec are declared for and can run only when that
    spec holds a value.  Where "declared for" is not decided by the statement - the other spec got an
    implementation for the active context only AFTER this one was registered, or it has a context-free
    implementation - the point is `ambiguous` under that context: its value and the call logs of its
    candidates are left unasserted (implementations none of whose declarations reaches the active context
    still must not run).  Whether a spec whose value is unasserted holds one is unknown (None), and so is
    whether an implementation built on it runs."""
    hdecl = []
    hval = {}
    for j, h in enumerate(case["helpers"]):
        hdecl.append(_declared(h, hdecl))
        if _satisfied(h, active, hval) and h["out"] == "ok":
            hval[j] = "h%d" % j
    per_point, creators, fin, reg = _declarations(case, hdecl)
    disabled = set(tuple(o) for o in case.get("disabled", []))
    via = _via(case)
    redeclared = set(p for inn in _inner(case) for p in inn["points"])
    names = {}
    for pp in per_point:
        for (_si, o) in pp:
            names[o] = names.get(o, 0) + 1
    roles = {}
    for p, binds in enumerate(per_point):
        cands = [oid for (_si, oid) in binds if active in fin[oid][0]]
        for oid in cands[:-1]:
            roles.setdefault(oid, set()).add("earlier")
        if cands:
            roles.setdefault(cands[-1], set()).add("latest")
    conflict = set(oid for oid, r in roles.items() if len(r) == 2)
    res = []

    def has(r):
        k = int(r[1:])
        if r[0] == "c":
            return k == active
        if r[0] == "h":
            return k in hval
        m = res[k]       # (another spec: always a lower index, resolved already)
        if m["mode"] == "unasserted":
            return None
        if m["mode"] == "absent":
            return False
        if r[0] == "p":
            return True
        # the parser on the spec (a combiner on that parser): it has a value when it was handed something
        return None if m["value"] == [] else True

    obj = {}

    def resolved(oid):
        if oid not in obj:
            im = creators[oid]
            # an implementation that is switched off (dr.set_enabled / apply_configs `enabled: false`) is still
            # registered and still declared for its contexts; it "yields nothing"
            runnable = False if oid in disabled else _sat3(im, has)
            obj[oid] = {"runnable": runnable, "val": _value("v|s%d|p%d" % oid, im["out"]) if runnable is not False else None}
        return obj[oid]

    for p, binds in enumerate(per_point):
        impls = []
        for (si, oid) in binds:
            o = resolved(oid)
            decl, opn = fin[oid]
            impls.append({"id": [si, p], "oid": oid, "decl": decl, "open": opn, "runnable": o["runnable"],
                          # val: the value it yields if it runs; maybe = it is not known whether it runs
                          "val": o["val"], "maybe": o["runnable"] is None,
                          "unsettled": opn or (active in decl and active not in reg[(si, p)][0]),
                          "direct": active in _declared(creators[oid], hdecl)})
        ambiguous = any(im["unsettled"] for im in impls)
        cands = [k for k, im in enumerate(impls) if active in im["decl"]]
        free = [k for k, im in enumerate(impls) if not im["decl"] and not im["open"]]
        free_val = [k for k in free if impls[k]["val"] is not None]
        must_not_run = []
        if not ambiguous:
            must_not_run += [impls[k]["id"] + ["registered earlier for the active context", list(impls[k]["oid"])]
                             for k in cands[:-1] if impls[k]["oid"] not in conflict]
        must_not_run += [im["id"] + ["declared only for other contexts", list(im["oid"])] for im in impls
                         if im["decl"] and not im["open"] and active not in im["decl"]]
        r = {"point": p, "must_not_run": must_not_run, "latest": None, "latest_obj": None, "latest_runs": False,
             "mode": "absent", "value": None, "n_impls": len(impls), "n_cands": len(cands),
             "mixed": any(len(impls[k]["decl"]) > 1 for k in cands), "n_free": len(free), "conflict": False,
             "shared": any(names[im["oid"]] > 1 for im in impls),
             "latest_shared": False, "latest_disabled": False,
             "n_disabled": sum(1 for im in impls if im["oid"] in disabled),
             "redeclared": p in redeclared,
             "registries": len(set(via[impls[k]["id"][0]] for k in cands)),
             "ambiguous": ambiguous,
             # candidates whose only link to the active context is another spec
             "n_through_spec": sum(1 for k in cands if not impls[k]["direct"]),
             "latest_through_spec": False}
        if cands:
            L = impls[cands[-1]]
            r["latest"] = L["id"]
            r["latest_obj"] = list(L["oid"])
            r["latest_runs"] = L["runnable"]
            r["latest_disabled"] = L["oid"] in disabled
            r["latest_shared"] = names[L["oid"]] > 1
            r["latest_through_spec"] = not L["direct"]
            if L["oid"] in conflict:
                r["conflict"] = True
                r["mode"] = "unasserted"
            elif L["maybe"]:
                r["mode"] = "unasserted"
            elif L["val"] is not None:
                if any(k > cands[-1] for k in free_val):
                    r["mode"] = "unasserted"
                else:
                    r["mode"] = "value"
                    r["value"] = L["val"]
            elif free_val:
                r["mode"] = "unasserted"
        elif free_val:
            r["mode"] = "unasserted"
        if r["redeclared"] and free_val:
            # a point that a nested registry re-declares is looked up registry by registry: where a
            # context-free implementation holds a value next to the declared ones the statement does not
            # say which one "overrides" (see EXCLUDED) - and here not even registration order decides
            r["mode"] = "unasserted"
        if ambiguous:
            r["mode"] = "unasserted"
            r["value"] = None
        res.append(r)
    return res


def selftest():
    def im(point, req=(), grp=(), out="ok"):
        return {"point": point, "req": list(req), "grp": list(grp), "out": out}
    # the two-class example of the repository's documentation plus a third and a fourth class
    case = {"nctx": 3, "points": [{}], "helpers": [{"req": ["c0"], "grp": [], "out": "ok"},
                                                   {"req": [], "grp": [], "out": "ok"}],
            "sets": [[im(0, grp=["c0", "c1"])], [im(0, req=["c0"])], [im(0, req=["c0"], out="content")],
                     [im(0, req=["c2"])]]}
    _validate(case)
    m0, m1, m2 = model(case, 0)[0], model(case, 1)[0], model(case, 2)[0]
    assert m0["mode"] == "absent" and m0["latest"] == [2, 0] and m0["latest_runs"]
    assert sorted(x[:2] for x in m0["must_not_run"]) == [[0, 0], [1, 0], [3, 0]], m0
    assert m1["mode"] == "value" and m1["value"] == "v|s0|p0" and [x[:2] for x in m1["must_not_run"]] == [[1, 0], [2, 0], [3, 0]]
    assert m2["mode"] == "value" and m2["value"] == "v|s3|p0" and len(m2["must_not_run"]) == 3
    # through a helper; helper yields nothing -> absent, earlier one still silenced
    case = {"nctx": 3, "points": [{}], "helpers": [{"req": ["c0"], "grp": [], "out": "skip"}],
            "sets": [[im(0, req=["c0"])], [im(0, req=["h0"])]]}
    m = model(case, 0)[0]
    assert m["mode"] == "absent" and m["latest"] == [1, 0] and not m["latest_runs"] and [x[:2] for x in m["must_not_run"]] == [[0, 0]]
    # context-free earlier implementation: the later, declared one supplies the value
    case = {"nctx": 3, "points": [{}], "helpers": [{"req": [], "grp": [], "out": "ok"}],
            "sets": [[im(0, req=["h0"])], [im(0, req=["c1"], out="list")], [im(0, req=["h0"])]]}
    m = model(case, 1)[0]
    assert m["mode"] == "unasserted" and m["must_not_run"] == []
    case["sets"].pop()
    m = model(case, 1)[0]
    assert m["mode"] == "value" and m["value"] == ["v|s1|p0#0", "v|s1|p0#1"]
    assert model(case, 0)[0]["mode"] == "unasserted"
    # one object under two names: it overrides the earlier implementations of both names and supplies both
    case = {"nctx": 3, "points": [{}, {}], "helpers": [],
            "sets": [[im(0, req=["c0"]), im(1, req=["c0"])],
                     [im(1, grp=["c0", "c1"], out="list"), {"point": 0, "same_as": [1, 1]}]]}
    _validate(case)
    m = model(case, 0)
    assert [x["mode"] for x in m] == ["value", "value"] and m[0]["value"] == m[1]["value"] == ["v|s1|p1#0", "v|s1|p1#1"]
    assert [x[:2] for x in m[0]["must_not_run"]] == [[0, 0]] and [x[:2] for x in m[1]["must_not_run"]] == [[0, 1]]
    assert m[0]["latest_obj"] == m[1]["latest_obj"] == [1, 1] and not m[0]["conflict"]
    m = model(case, 1)
    assert [x["mode"] for x in m] == ["value", "value"] and [len(x["must_not_run"]) for x in m] == [1, 1]
    # ... a later class overrides it under ONE of its names: for c0 the statement contradicts itself for
    # that object (nothing demanded of it, spec 1 unasserted), spec 0 is decided as usual; for c1 no conflict
    case["sets"].append([im(0, req=["c0"], out="skip")])
    _validate(case)
    m = model(case, 0)
    assert m[0]["mode"] == "absent" and m[0]["latest"] == [2, 0] and [x[:2] for x in m[0]["must_not_run"]] == [[0, 0]]
    assert m[1]["mode"] == "unasserted" and m[1]["conflict"] and [x[:2] for x in m[1]["must_not_run"]] == [[0, 1]]
    m = model(case, 1)
    assert [x["mode"] for x in m] == ["value", "value"] and not m[1]["conflict"]
    # bound by a later class under another name
    case = {"nctx": 3, "points": [{}, {}], "helpers": [],
            "sets": [[im(0, req=["c2"])], [im(1, req=["c2"], out="zero")], [{"point": 1, "same_as": [0, 0]}]]}
    _validate(case)
    m = model(case, 2)
    assert m[0]["value"] == m[1]["value"] == "v|s0|p0" and [x[:2] for x in m[1]["must_not_run"]] == [[1, 1]]
    # a context that extends another one is another context
    case = {"nctx": 3, "ctxs": ["HostContext", 0, "JBossContext"], "points": [{}], "helpers": [],
            "sets": [[im(0, req=["c0"])], [im(0, req=["c1"], out="skip")]]}
    _validate(case)
    assert _ancestors(case, 1) == [0] and _ancestors(case, 2) == [0] and _ancestors(case, 0) == []
    m = model(case, 1)[0]
    assert m["mode"] == "absent" and m["latest"] == [1, 0] and [x[:3] for x in m["must_not_run"]] == [[0, 0, "declared only for other contexts"]]
    assert model(case, 2)[0]["mode"] == "absent" and len(model(case, 2)[0]["must_not_run"]) == 2
    assert _related(case, 1) == set(["impl-for-base"]) and _related(case, 0) == set(["impl-for-derived"])
    # the latest implementation for c0 is switched off: it yields nothing, the ones it overrides stay silent
    case = {"nctx": 3, "points": [{}], "helpers": [],
            "sets": [[im(0, req=["c0"])], [im(0, grp=["c0", "c1"])], [im(0, req=["c0"])]], "disabled": [[2, 0]]}
    _validate(case)
    m = model(case, 0)[0]
    assert m["mode"] == "absent" and m["latest"] == [2, 0] and m["latest_disabled"] and not m["latest_runs"]
    assert [x[:2] for x in m["must_not_run"]] == [[0, 0], [1, 0]]
    m = model(case, 1)[0]
    assert m["mode"] == "value" and m["value"] == "v|s1|p0" and not m["latest_disabled"]
    # ... an overridden one switched off changes nothing
    case["disabled"] = [[0, 0]]
    m = model(case, 0)[0]
    assert m["mode"] == "value" and m["value"] == "v|s2|p0" and len(m["must_not_run"]) == 2
    # a nested registry re-declares the point: implementations hooked in through either registry are
    # implementations of the one spec name, in the order in which they were registered
    case = {"nctx": 3, "points": [{}, {}], "helpers": [{"req": [], "grp": [], "out": "ok"}],
            "inner": [{"base": 0, "points": [0], "at": 1}], "via": [0, 1, 0],
            "sets": [[im(0, req=["c0"]), im(1, req=["c0"])], [im(0, req=["c0"], out="skip")], [im(1, req=["c1"])]]}
    _validate(case)
    m = model(case, 0)
    assert m[0]["mode"] == "absent" and m[0]["latest"] == [1, 0] and [x[:2] for x in m[0]["must_not_run"]] == [[0, 0]]
    assert m[0]["redeclared"] and m[0]["registries"] == 2 and not m[1]["redeclared"] and m[1]["mode"] == "value"
    # ... next to a context-free implementation with a value nothing is said about the value
    case["sets"].append([im(0, req=["h0"])])
    case["via"].append(0)
    case["sets"][1][0]["out"] = "ok"
    _validate(case)
    assert model(case, 0)[0]["mode"] == "unasserted" and len(model(case, 0)[0]["must_not_run"]) == 1
    # an implementation built on ANOTHER spec is declared for the contexts that spec's implementations are
    # declared for: it overrides the earlier implementation for c0, which stays silent; when the other spec is
    # absent (its latest implementation fails) the latest one cannot run and the spec is absent
    spec_case = {"nctx": 3, "points": [{}, {}], "helpers": [],
                 "sets": [[im(0, req=["c0"]), im(1, req=["c0"])], [im(1, req=["p0"])]]}
    _validate(spec_case)
    m = model(spec_case, 0)
    assert m[1]["mode"] == "value" and m[1]["value"] == "v|s1|p1" and m[1]["latest"] == [1, 1] and m[1]["latest_runs"] is True
    assert [x[:3] for x in m[1]["must_not_run"]] == [[0, 1, "registered earlier for the active context"]]
    assert m[1]["latest_through_spec"] and not m[1]["ambiguous"]
    m = model(spec_case, 1)
    assert m[1]["mode"] == "absent" and m[1]["n_cands"] == 0 and len(m[1]["must_not_run"]) == 2
    for ref in ("q0", "m0"):
        c2 = dict(spec_case, sets=[[im(0, req=["c0"], out="skip"), im(1, req=["c0"])], [im(1, req=[ref])]])
        _validate(c2)
        m = model(c2, 0)
        assert m[1]["mode"] == "absent" and m[1]["latest"] == [1, 1] and m[1]["latest_runs"] is False
        assert [x[:2] for x in m[1]["must_not_run"]] == [[0, 1]]
    # ... the other spec gets its implementation for c1 only AFTER the dependent one was registered: whether the
    # dependent one is "declared for" c1 is not settled -> nothing but "other contexts never contribute" there
    c2 = dict(spec_case, sets=[[im(0, req=["c0"]), im(1, grp=["c0", "c1"])], [im(1, req=["p0"])], [im(0, req=["c1"])],
                               [im(1, req=["c2"])]])
    _validate(c2)
    m = model(c2, 1)
    assert m[1]["ambiguous"] and m[1]["mode"] == "unasserted" and [x[:2] for x in m[1]["must_not_run"]] == [[3, 1]]
    m = model(c2, 0)
    assert not m[1]["ambiguous"] and m[1]["mode"] == "value" and m[1]["value"] == "v|s1|p1"
    assert sorted(x[:2] for x in m[1]["must_not_run"]) == [[0, 1], [3, 1]]
    # ... within one class body the entries before it count, the entries after it do not
    c2 = dict(spec_case, sets=[[im(1, req=["c0"])], [im(1, req=["p0"]), im(0, req=["c0"])]])
    assert model(c2, 0)[1]["ambiguous"]
    c2 = dict(spec_case, sets=[[im(1, req=["c0"])], [im(0, req=["c0"]), im(1, req=["p0"])]])
    assert not model(c2, 0)[1]["ambiguous"] and model(c2, 0)[1]["latest"] == [1, 1]
    # ... the other spec has a context-free implementation: open, nothing settled; a spec whose value is
    # unasserted makes the implementations built on it unknown
    c2 = {"nctx": 3, "points": [{}, {}, {}], "helpers": [{"req": [], "grp": [], "out": "ok"}],
          "sets": [[im(0, req=["c0"]), im(1, req=["c0"]), im(2, req=["c0"])], [im(0, req=["h0"])],
                   [im(1, req=["c0", "p0"])], [im(2, req=["q1"])]]}
    _validate(c2)
    m = model(c2, 0)
    assert m[0]["mode"] == "unasserted" and m[1]["ambiguous"] and m[2]["ambiguous"] and m[2]["must_not_run"] == []
    for bad in ({"sets": [[im(0, req=["p0"])]]}, {"sets": [[im(1, req=["p1"])]]}, {"sets": [[im(1, grp=["c0", "p0"])]]},
                {"sets": [[im(1, req=["m0"]), {"point": 0, "same_as": [0, 1]}]]}):
        try:
            _validate(dict(spec_case, **bad))
        except HarnessError:
            pass
        else:
            raise AssertionError("accepted %r" % (bad,))
    for bad in ({"via": [0, 1, 0]}, {"via": [1, 0, 0, 0]}, {"inner": [{"base": 0, "points": [2], "at": 0}]},
                {"inner": [{"base": 0, "points": [1], "at": 0}]}, {"disabled": [[1, 1]]}):
        try:
            _validate(dict(case, **bad))
        except HarnessError:
            pass
        else:
            raise AssertionError("accepted %r" % (bad,))


# ------------------------------------------------------------------------------------------------
# building the real thing

def _raise(out, name):
    from insights.core.exceptions import SkipComponent, ContentException, CalledProcessError, TimeoutException
    if out == "skip":
        raise SkipComponent(name)
    if out == "content":
        raise ContentException(name)
    if out == "cpe":
        raise CalledProcessError(1, name)
    if out == "timeout":
        raise TimeoutException(name)
    if out == "crash":
        raise ValueError(name)


def _cleanup(comps, ctxs, modname, shipped=None):
    """ctxs: the private context classes (removed altogether); shipped: {shipped context class: did it have
    an entry in dr.DEPENDENTS before the world was built} - only the generated components are taken out of
    its dependents"""
    from insights.core import dr
    from insights.core.context import ExecutionContextMeta
    allc = list(comps) + list(ctxs)
    for c, had in (shipped or {}).items():
        if c in dr.DEPENDENTS:
            dr.DEPENDENTS[c].difference_update(comps)
            if not had and not dr.DEPENDENTS[c]:
                dr.DEPENDENTS.pop(c, None)
    for regname in ("DELEGATES", "DEPENDENCIES", "DEPENDENTS", "ENABLED", "IGNORE", "MODULE_NAMES",
                    "BASE_MODULE_NAMES"):
        reg = getattr(dr, regname)
        for c in allc:
            reg.pop(c, None)
    for grp in list(dr.COMPONENTS):
        for c in allc:
            dr.COMPONENTS[grp].pop(c, None)
    for s in dr.COMPONENTS_BY_TYPE.values():
        s.difference_update(allc)
    dr.HIDDEN.difference_update(allc)
    for obs in dr.TYPE_OBSERVERS.values():
        obs.difference_update(allc)
    for cache in (dr.COMPONENTS_BY_NAME, dr.COMPONENT_IMPORT_CACHE):
        for k in [k for k in cache if isinstance(k, str) and modname in k]:
            cache.pop(k, None)
    for c in ctxs:
        while c in ExecutionContextMeta.registry:
            ExecutionContextMeta.registry.remove(c)
    sys.modules.pop(modname, None)


def _build(case, uid, log, parsed, provider=False):
    """returns the world: ctxs, helpers, points, impls{(si,p): comp}, parsers, all components, modname.
    provider=True: values are handed out as DatasourceProvider objects (what a real datasource returns
    and what the archive serialisers understand); the harness compares their text."""
    from insights.core.context import ExecutionContext
    from insights.core.plugins import datasource, parser
    from insights.core.spec_factory import SpecSet, RegistryPoint, DatasourceProvider

    def wrap(v, si, p):
        if not provider:
            return v
        if isinstance(v, list):
            return [DatasourceProvider(x, "vp/s%d_p%d_%d" % (si, p, k)) for k, x in enumerate(v)]
        if isinstance(v, str) and v:
            return DatasourceProvider(v, "vp/s%d_p%d" % (si, p))
        return v

    modname = "vp_c05_synth_%d" % uid
    mod = types.ModuleType(modname)
    sys.modules[modname] = mod
    comps = []
    ctxs = []
    world = {"ctxs": ctxs, "comps": comps, "modname": modname, "helpers": [], "points": [],
             "impls": {}, "parsers": [], "classes": [], "private_ctxs": [], "shipped_ctxs": {},
             "objs": {}, "combiners": {}}
    from insights.core import context as _context
    from insights.core import dr as _dr
    for i, d in enumerate(_ctx_descr(case)):
        if isinstance(d, str):
            # the shipped class itself is a context of the world
            c = getattr(_context, d)
            world["shipped_ctxs"][c] = c in _dr.DEPENDENTS
        else:
            # a private context: extends ExecutionContext directly or the class of an earlier slot (as
            # JBossContext extends HostContext, as plugins extend HostArchiveContext); its own marker
            base = ExecutionContext if d is None else ctxs[d]
            c = type("Ctx%d_%d" % (uid, i), (base,),
                     {"__module__": modname, "marker": "vp_c05_marker_%d_%d" % (uid, i)})
            setattr(mod, c.__name__, c)
            world["private_ctxs"].append(c)
        ctxs.append(c)

    def deps_of(node):
        def ref(r):
            k = int(r[1:])
            if r[0] == "c":
                return ctxs[k]
            if r[0] == "h":
                return world["helpers"][k]
            # another spec of the world: the registry point itself, the parser on it, a combiner on that parser
            if r[0] == "p":
                return world["points"][k]
            if r[0] == "q":
                return world["parsers"][k]
            return world["combiners"][k]
        args = [ref(r) for r in node["req"]]
        if node["grp"]:
            args.append([ref(r) for r in node["grp"]])
        return args

    for j, h in enumerate(case["helpers"]):
        def hbody(broker, j=j, out=h["out"]):
            log.append(["h", j])
            _raise(out, "h%d" % j)
            return "h%d" % j
        hbody.__name__ = hbody.__qualname__ = "helper%d_%d" % (uid, j)
        hbody.__module__ = modname
        setattr(mod, hbody.__name__, hbody)
        comp = datasource(*deps_of(h))(hbody)
        world["helpers"].append(comp)
        comps.append(comp)

    rdict = {"__module__": modname}
    for p, flags in enumerate(case["points"]):
        pt = RegistryPoint(multi_output=bool(flags.get("multi_output")), raw=bool(flags.get("raw")),
                           filterable=bool(flags.get("filterable")), no_redact=bool(flags.get("no_redact")),
                           prio=int(flags.get("prio", 0)))
        rdict["sp%d_%d" % (uid, p)] = pt
        world["points"].append(pt)
        comps.append(pt)
    registry = type("Registry%d" % uid, (SpecSet,), rdict)
    setattr(mod, registry.__name__, registry)
    world["classes"].append(registry)
    inner = _inner(case)
    via = _via(case)
    registries = world["registries"] = [registry] + [None] * len(inner)

    def define_inner(j):
        # `class ProductSpecs(BaseSpecs): conf = RegistryPoint()`: a registry that extends another registry
        # and re-declares points of it under the same name; spec sets may subclass either
        inn = inner[j]
        idict = {"__module__": modname}
        for p in inn["points"]:
            flags = case["points"][p]
            pt = RegistryPoint(multi_output=bool(flags.get("multi_output")), raw=bool(flags.get("raw")),
                               filterable=bool(flags.get("filterable")), no_redact=bool(flags.get("no_redact")),
                               prio=int(flags.get("prio", 0)))
            idict["sp%d_%d" % (uid, p)] = pt
            comps.append(pt)
        cls = type("Inner%d_%d" % (uid, j), (registries[inn["base"]],), idict)
        setattr(mod, cls.__name__, cls)
        world["classes"].append(cls)
        registries[j + 1] = cls

    def define_set(si):
        for j, inn in enumerate(inner):
            if inn["at"] == si:
                define_inner(j)
        s = case["sets"][si]
        sdict = {"__module__": modname}
        for im in s:
            p = im["point"]
            if "same_as" in im:
                # `secondary = primary` in a class body / one datasource assigned to two names: the SAME
                # object under one more registry-point name
                comp = world["objs"][tuple(im["same_as"])]
                sdict["sp%d_%d" % (uid, p)] = comp
                world["impls"][(si, p)] = comp
                continue

            def body(broker, si=si, p=p, out=im["out"]):
                log.append(["i", si, p])
                _raise(out, "impl s%d p%d" % (si, p))
                return wrap(_value("v|s%d|p%d" % (si, p), out), si, p)
            body.__name__ = body.__qualname__ = "impl%d_%d_%d" % (uid, si, p)
            body.__module__ = modname
            comp = datasource(*deps_of(im))(body)
            sdict["sp%d_%d" % (uid, p)] = comp
            world["impls"][(si, p)] = comp
            world["objs"][(si, p)] = comp
            comps.append(comp)
        cls = type("Set%d_%d" % (uid, si), (registries[via[si]],), sdict)
        setattr(mod, cls.__name__, cls)
        world["classes"].append(cls)

    def switch(oid, enabled, how="set_enabled"):
        """switches one implementation off / on again the way callers do: dr.set_enabled(component, flag), or
        the `configs` section of a manifest (insights.apply_configs; components are named there)"""
        comp = world["objs"][tuple(oid)]
        if how == "set_enabled":
            _dr.set_enabled(comp, enabled)
        elif how == "apply_configs":
            import insights
            insights.apply_configs({"configs": [{"name": _dr.get_name(comp), "enabled": enabled}]})
        else:
            raise HarnessError("bad case: switch %r" % (how,))
    world["switch"] = switch

    def define_parsers():
        for p, pt in enumerate(world["points"]):
            def pbody(value, p=p):
                value = _plain(value)
                parsed.append([p, value])
                return ["parsed", p, value]
            pbody.__name__ = pbody.__qualname__ = "parser%d_%d" % (uid, p)
            pbody.__module__ = modname
            setattr(mod, pbody.__name__, pbody)
            comp = parser(pt)(pbody)
            world["parsers"].append(comp)
            comps.append(comp)
        # combiners on those parsers, where an implementation is built on one
        from insights.core.plugins import combiner
        wanted = sorted(set(int(r[1:]) for s in case["sets"] for im in s
                            for r in im.get("req", []) if r[0] == "m"))
        for q in wanted:
            def cbody(pq, q=q):
                return ["combined", q]
            cbody.__name__ = cbody.__qualname__ = "combiner%d_%d" % (uid, q)
            cbody.__module__ = modname
            setattr(mod, cbody.__name__, cbody)
            comp = combiner(world["parsers"][q])(cbody)
            world["combiners"][q] = comp
            comps.append(comp)

    world["define_set"] = define_set
    world["define_parsers"] = define_parsers
    return world


def _kahn(graph, prio):
    """a linear extension of `graph` (component -> dependencies) chosen by the harness: among the
    components whose dependencies are all placed, the one with the smallest priority goes next"""
    from insights.core import dr
    comps = sorted(set(graph) | set(d for ds in graph.values() for d in ds), key=dr.get_name)
    idx = dict((c, k) for k, c in enumerate(comps))
    remaining = set(comps)
    out = []
    while remaining:
        ready = [c for c in remaining if not (set(graph.get(c, ())) & remaining)]
        ready.sort(key=lambda c: (prio[idx[c] % len(prio)], idx[c]))
        out.append(ready[0])
        remaining.discard(ready[0])
    return out


DRIVERS = ["run", "run_all", "run_incremental", "run_components", "run_components+run_order", "insights._run"]
# "insights._run": the repository's front end for a run without an archive (what insights.run(context=C)
# calls) - IT puts the context into the broker, not the harness


def _drive(driver, graph, broker, prio, cached_order, ctx_cls=None):
    """evaluates a private copy of `graph` with `broker` through one of dr's public drivers; the broker holds
    the active context already, except for "insights._run", which is handed the context class"""
    from insights.core import dr
    g = dict((k, set(v)) for k, v in graph.items())
    if driver == "insights._run":
        import insights
        insights._run(broker, g, context=ctx_cls)
        if ctx_cls not in broker:
            raise Violation("insights._run(broker, graph, context=C): the evaluation did not happen under the "
                            "context the caller designates")
    elif driver == "run":
        dr.run(g, broker=broker)
    elif driver == "run_all":
        dr.run_all(g, broker=broker)
    elif driver == "run_incremental":
        for _ in dr.run_incremental(g, broker=broker):
            pass
    elif driver == "run_components":
        # documented: "allows callers to order components themselves"
        dr.run_components(_kahn(g, prio), g, broker)
    elif driver == "run_components+run_order":
        # "... and cache the result so they don't incur the toposort overhead on every run"
        if not cached_order:
            cached_order.append(dr.run_order(g))
        dr.run_components(list(cached_order[0]), g, broker)
    else:
        raise HarnessError("bad case: driver %r" % (driver,))


def _plain(v):
    """content providers (used where values have to be serialisable into an archive) -> their text"""
    if isinstance(v, list):
        return [_plain(x) for x in v]
    if hasattr(v, "relative_path") and hasattr(v, "content"):
        return "\n".join(v.content)
    return v


def _ancestors(case, i):
    """context slots whose class the class of slot i extends (directly or not)"""
    descr = _ctx_descr(case)
    out = []
    d = descr[i]
    if d == "JBossContext" and "HostContext" in descr:
        d = descr.index("HostContext")
    while isinstance(d, int):
        out.append(d)
        d = descr[d]
        if d == "JBossContext" and "HostContext" in descr:
            d = descr.index("HostContext")
    return out


def _related(case, active):
    """is some implementation declared for a context the active one extends / that extends the active one
    (and not for the active one itself)?  -> set of "base" / "derived" (labels only)"""
    hdecl = []
    for h in case["helpers"]:
        hdecl.append(_declared(h, hdecl))
    up = set(_ancestors(case, active))
    down = set(i for i in range(case["nctx"]) if active in _ancestors(case, i))
    out = set()
    for s in case["sets"]:
        for im in s:
            if "same_as" in im:
                continue
            d = _declared(im, hdecl)
            if active in d:
                continue
            if d & up:
                out.add("impl-for-base")
            if d & down:
                out.add("impl-for-derived")
    return out


def _assert_resolution(case, active, broker, log, parsed, world, labels):
    """the oracle for ONE evaluation of the world described by `case` under private context `active`:
    `broker` is what the evaluation left behind, `log` / `parsed` what the generated bodies recorded
    during it.  Raises Violation; returns whether the evaluation was a non-trivial one."""
    points, impls, parsers = world["points"], world["impls"], world["parsers"]
    nontrivial_here = False

    def held(c):
        return _plain(broker[c])
    calls = {}
    for e in log:
        if e[0] == "i":
            calls[(e[1], e[2])] = calls.get((e[1], e[2]), 0) + 1
    rel = _related(case, active)
    if rel:
        labels.add("active-context-related:" + "+".join(sorted(rel)))
    for m in model(case, active):
        p = m["point"]
        pt = points[p]
        ctx = dict(active_context=active, point=p, latest=m["latest"],
                   calls=sorted([list(k), v] for k, v in calls.items()))
        for sid in m["must_not_run"]:
            key = (sid[0], sid[1])
            what = sid[2]
            # (the call log is kept per datasource OBJECT: an object bound to several names runs once)
            if calls.get(tuple(sid[3])):
                raise Violation("implementation of set %d for point %d (%s) was executed with "
                                "context %d active" % (sid[0], p, what, active), **ctx)
            if impls[key] in broker:
                raise Violation("implementation of set %d for point %d has a value in the broker "
                                "although it must not contribute under context %d" % (sid[0], p, active),
                                **ctx)
        if (m["latest"] is not None and not m["conflict"] and not m["latest_disabled"] and not m["ambiguous"]
                and m["latest_runs"] is not None):
            # (that a switched-off component is not executed is dr.set_enabled's promise, not this statement's)
            n = calls.get(tuple(m["latest_obj"]), 0)
            if n != (1 if m["latest_runs"] else 0):
                raise Violation("latest implementation for the active context (set %d, point %d) ran "
                                "%d time(s), expected %d" % (m["latest"][0], p, n, 1 if m["latest_runs"] else 0),
                                **ctx)
        seen = [v for (pp, v) in parsed if pp == p]
        if m["mode"] == "value":
            if pt not in broker:
                raise Violation("point %d is absent under context %d although its latest implementation "
                                "(set %d) produced a value" % (p, active, m["latest"][0]), expected=m["value"], **ctx)
            if held(pt) != m["value"]:
                raise Violation("point %d holds %r under context %d, the latest implementation for that "
                                "context (set %d) produced %r" % (p, held(pt), active, m["latest"][0], m["value"]),
                                **ctx)
            want_seen = m["value"] if isinstance(m["value"], list) else [m["value"]]
            if seen != want_seen:
                raise Violation("parser on point %d was handed %r, expected %r" % (p, seen, want_seen), **ctx)
            if parsers[p] not in broker and want_seen:
                # (an empty list hands the parser no element: it has nothing to parse)
                raise Violation("parser on point %d has no value although the spec is present" % p, **ctx)
        elif m["mode"] == "absent":
            if pt in broker:
                raise Violation("point %d holds %r under context %d although the latest implementation "
                                "for that context yields nothing (or none is declared for it)"
                                % (p, held(pt), active), **ctx)
            if seen or parsers[p] in broker:
                raise Violation("parser on point %d fired although the spec is absent" % p, seen=seen, **ctx)
        else:
            labels.add("value-unasserted(declaration through another spec not settled at registration / open)"
                       if m["ambiguous"] else
                       "value-unasserted(shared object: earlier under one name, latest under another)"
                       if m["conflict"] else
                       "value-unasserted(built on a spec whose value is unasserted)"
                       if m["latest_runs"] is None else "value-unasserted(context-free impl)")
            # still: the parser sees what the point holds, nothing else
            if pt in broker:
                v = held(pt)
                if seen != (v if isinstance(v, list) else [v]):
                    raise Violation("parser on point %d was handed %r but the point holds %r" % (p, seen, v), **ctx)
            elif seen:
                raise Violation("parser on point %d fired although the spec is absent" % p, seen=seen, **ctx)
        # labels / non-triviality
        labels.add("impls=%s" % (m["n_impls"] if m["n_impls"] < 4 else "4+"))
        labels.add("cands=%s" % (m["n_cands"] if m["n_cands"] < 3 else "3+"))
        if m["n_cands"] >= 2:
            labels.add("override")
        if m["mixed"] and m["n_cands"] >= 2:
            labels.add("override+multi-context-declaration")
        if m["n_cands"] >= 2 and m["mode"] == "absent":
            labels.add("override+latest-yields-nothing")
        if m["latest"] is not None and m["latest_runs"] is False:
            labels.add("latest-unmet-deps")
        if m["n_through_spec"] and not m["ambiguous"]:
            labels.add("candidate-declared-through-another-spec")
            if m["n_cands"] >= 2:
                labels.add("override+candidate-through-another-spec")
                if m["latest_through_spec"]:
                    labels.add("override+latest-through-another-spec(%s)" % m["mode"])
                    if m["latest_runs"] is False:
                        labels.add("override+latest-through-another-spec+other-spec-absent")
        if m["n_free"]:
            labels.add("has-context-free-impl")
            if m["mode"] == "value" and m["n_cands"]:
                labels.add("declared-beats-earlier-context-free")
        if m["shared"]:
            labels.add("point-with-shared-object")
        if m["latest_shared"] and not m["conflict"]:
            labels.add("latest-is-shared-object")
            if m["n_cands"] >= 2:
                labels.add("shared-object-overrides")
        if m["n_disabled"]:
            labels.add("point-with-disabled-impl")
        if m["latest_disabled"]:
            labels.add("latest-disabled")
            if m["n_cands"] >= 2:
                labels.add("override+latest-disabled(%s)" % m["mode"])
        if m["redeclared"]:
            labels.add("point-redeclared-by-nested-registry")
            if m["n_cands"] >= 2 and m["registries"] >= 2:
                labels.add("override-across-registries")
                if m["mode"] == "absent":
                    labels.add("override-across-registries+latest-yields-nothing")
        if m["n_impls"] >= 3 and m["n_cands"] >= 2 and (m["mixed"] or m["mode"] == "absent"):
            nontrivial_here = True
    return nontrivial_here


def check_world(case):
    from insights.core import dr
    _validate(case)
    uid = next(_counter)
    log = []
    parsed = []
    world = None
    labels = set()
    nontrivial = False
    try:
        world = _build(case, uid, log, parsed)
        ctxs, points, impls, parsers = world["ctxs"], world["points"], world["impls"], world["parsers"]
        # "every sequence of spec-set definitions": a spec set may be defined after an evaluation has
        # already taken place (plugins loaded later); eval_after lists the definitions after which the
        # world is evaluated before the next spec set is defined
        eval_after = sorted(set(k for k in case.get("eval_after", []) if k < len(case["sets"]) - 1))

        def evaluate(nsets):
            nontrivial_here = False
            cached_order = []      # a caller of run_components may compute the order once and keep it
            for active in range(case["nctx"]):
                del log[:]
                del parsed[:]
                graph = {}
                for ps in parsers:
                    graph.update(dr.get_dependency_graph(ps))
                broker = dr.Broker()
                broker.store_skips = bool(case.get("store_skips"))
                if case.get("driver") != "insights._run":
                    broker[ctxs[active]] = ctxs[active]()
                _drive(case.get("driver", "run"), graph, broker, case.get("prio") or [0], cached_order, ctxs[active])
                if _assert_resolution(dict(case, sets=case["sets"][:nsets]), active, broker, log, parsed, world, labels):
                    nontrivial_here = True
            return nontrivial_here

        # (an implementation built on the parser of another spec needs that parser to exist)
        parsers_first = bool(eval_after) or _uses_specs(case)
        if parsers_first:
            world["define_parsers"]()
        for si in range(len(case["sets"])):
            world["define_set"](si)
            for o in case.get("disabled", []):
                if o[0] == si:
                    # switched off as soon as it is loaded (blacklist / manifest applied after loading)
                    world["switch"](o, False, case.get("switch", "set_enabled"))
            if si in eval_after:
                nontrivial = evaluate(si + 1) or nontrivial
                labels.add("evaluated-between-definitions")
        if not parsers_first:
            world["define_parsers"]()
        nontrivial = evaluate(len(case["sets"])) or nontrivial
        labels.add("driver=%s" % case.get("driver", "run"))
        if case.get("disabled"):
            labels.add("switched-off-through:%s" % case.get("switch", "set_enabled"))
        if _inner(case):
            labels.add("nested-registries=%d" % len(_inner(case)))
    finally:
        if world is not None:
            _cleanup(world["comps"], world["private_ctxs"], world["modname"], world["shipped_ctxs"])
    return {"nontrivial": nontrivial, "labels": sorted(labels)}


# ------------------------------------------------------------------------------------------------
# generator

@st.composite
def _world(draw, tier):
    nctx = draw(st.sampled_from([3, 3, 4]))
    # what the context classes are: private classes extending ExecutionContext directly (as most shipped
    # contexts do), private classes extending the class of an earlier slot (JBossContext(HostContext),
    # a plug-in's X(HostArchiveContext)), or a shipped class itself.  "Declared for a context" names a
    # class; the active context is the class in the broker - a context that extends another one is
    # another context.
    ctxs = []
    for i in range(nctx):
        kind = draw(st.sampled_from(["new", "new", "new", "new", "derived", "derived", "derived", "shipped"]))
        if kind == "derived" and i:
            ctxs.append(draw(st.integers(0, i - 1)))
        elif kind == "shipped":
            name = draw(st.sampled_from(SHIPPED_CTX))
            ctxs.append(None if name in ctxs else name)
        else:
            ctxs.append(None)
    focus = draw(st.integers(0, nctx - 1))
    ctx_idx = st.one_of(st.just(focus), st.integers(0, nctx - 1))

    def ctx_list():
        return draw(st.lists(ctx_idx, min_size=2, max_size=3, unique=True))

    helpers = []
    for j in range(draw(st.integers(0, 3))):
        kind = draw(st.sampled_from(["one", "one", "any", "via", "free"]))
        if kind == "via" and j == 0:
            kind = "one"
        h = {"req": [], "grp": [], "out": draw(st.sampled_from(["ok", "ok", "ok", "skip", "content"]))}
        if kind == "one":
            h["req"] = ["c%d" % draw(ctx_idx)]
        elif kind == "any":
            h["grp"] = ["c%d" % c for c in ctx_list()]
        elif kind == "via":
            h["req"] = ["h%d" % draw(st.integers(0, j - 1))]
        helpers.append(h)
    npoints = draw(st.sampled_from([1, 1, 2, 3]))
    points = [{"multi_output": draw(st.booleans()), "raw": draw(st.booleans()),
               "filterable": draw(st.booleans()), "no_redact": draw(st.booleans()),
               "prio": draw(st.sampled_from([0, 0, 1, 5]))} for _ in range(npoints)]
    kinds = ["one", "one", "one", "any", "any"]
    if helpers:
        kinds += ["via", "via", "ctx+via"]
    sets = []
    bound = {}      # object id -> points the object is bound to so far
    built_on = {}   # object id -> the highest other spec the object is built on
    share = npoints >= 2 and draw(st.sampled_from([False, False, True]))
    nsets = draw(st.integers(1, 6))
    # nested registries (~1 world in 3 with >= 2 spec sets): `class ProductSpecs(BaseSpecs): conf = RegistryPoint()` -
    # a registry that extends the registry class (or an earlier nested one) and re-declares some of the points
    # ITS base declares; it is defined right before spec set `at`; later spec sets subclass any registry
    # that exists by then and bind names that registry declares
    inner = []
    via = []
    if nsets >= 2 and draw(st.sampled_from([False, False, True])):
        reg_points = [list(range(npoints))]
        for j in range(draw(st.sampled_from([1, 1, 2]))):
            base = draw(st.integers(0, j))
            pts = sorted(draw(st.sets(st.sampled_from(reg_points[base]), min_size=1)))
            first = inner[base - 1]["at"] if base else 0
            inner.append({"base": base, "points": pts, "at": draw(st.integers(first, max(first, nsets - 2)))})
            reg_points.append(pts)
    for si in range(nsets):
        s = []
        unused = []
        allowed = range(npoints)
        if inner:
            regs = [0] + [j + 1 for j, inn in enumerate(inner) if inn["at"] <= si]
            via.append(draw(st.sampled_from(regs + regs[1:])))
            if via[-1]:
                allowed = inner[via[-1] - 1]["points"]
        for p in allowed:
            if not draw(st.sampled_from([True, True, True, False])):
                unused.append(p)
                continue
            # built on ANOTHER spec of the world (one with a lower index: no cycles): the registry point itself
            # (`@datasource(Specs.release)`), the parser on it, a combiner on that parser - alone (the
            # implementation is then declared for the contexts the other spec's implementations are declared
            # for) or next to a context it names itself
            kind = draw(st.sampled_from(kinds + ["spec", "spec", "ctx+spec"] if p else kinds))
            im = {"point": p, "req": [], "grp": [], "out": draw(st.sampled_from(OUTS))}
            if kind in ("spec", "ctx+spec"):
                im["req"] = ["%s%d" % (draw(st.sampled_from(["p", "p", "q", "m"])), draw(st.integers(0, p - 1)))]
                if kind == "ctx+spec":
                    im["req"].insert(0, "c%d" % draw(ctx_idx))
            elif kind == "one":
                im["req"] = ["c%d" % draw(ctx_idx)]
            elif kind == "any":
                im["grp"] = ["c%d" % c for c in ctx_list()]
            elif kind == "via":
                im["req"] = ["h%d" % draw(st.integers(0, len(helpers) - 1))]
            else:
                im["req"] = ["c%d" % draw(ctx_idx), "h%d" % draw(st.integers(0, len(helpers) - 1))]
            s.append(im)
            bound[(si, p)] = set([p])
            if _spec_refs(im):
                built_on[(si, p)] = max(_spec_refs(im))
        if share:
            # one datasource object under several registry-point names: `secondary = primary` in the class
            # body (the object was created in this class) or a datasource that an earlier class already
            # bound to another name; never twice under the same name.  Position in the class body: anywhere
            # after the entry that creates the object.
            for q in unused:
                # (an object built on another spec is only bound to names above that spec)
                here = [o for o in sorted(bound) if o[0] == si and q not in bound[o] and built_on.get(o, -1) < q]
                before = [o for o in sorted(bound) if o[0] < si and q not in bound[o] and built_on.get(o, -1) < q]
                pool = here + here + here + before
                if not pool or not draw(st.sampled_from([True, True, False])):
                    continue
                oid = draw(st.sampled_from(pool))
                bound[oid].add(q)
                first = 0
                if oid[0] == si:
                    first = 1 + [k for k, e in enumerate(s) if "same_as" not in e and e["point"] == oid[1]][0]
                s.insert(draw(st.integers(first, len(s))), {"point": q, "same_as": list(oid)})
        sets.append(s)
    case = {"nctx": nctx, "points": points, "helpers": helpers, "sets": sets,
            "store_skips": draw(st.booleans()),
            "driver": draw(st.sampled_from(["run", "run", "run_all", "run_incremental", "run_components",
                                            "run_components", "run_components+run_order", "insights._run"]))}
    if any(c is not None for c in ctxs):
        case["ctxs"] = ctxs
    if inner:
        case["inner"] = inner
        case["via"] = via
    objs = sorted(bound)
    if objs and draw(st.sampled_from([False, False, True])):
        # ~1 world in 3: one or two implementations are switched off (dr.set_enabled(x, False), `enabled: false`
        # in the configs of a manifest) - preferably one that is, for some context, the latest of several
        # implementations of a name: it yields nothing
        targets = []
        for active in range(nctx):
            for m in model(case, active):
                if m["n_cands"] >= 2 and m["latest_obj"]:
                    targets.append(tuple(m["latest_obj"]))
        pool = sorted(set(targets)) * 3 + objs
        case["disabled"] = [list(o) for o in sorted(draw(st.sets(st.sampled_from(pool), min_size=1, max_size=2)))]
        case["switch"] = draw(st.sampled_from(["set_enabled", "set_enabled", "apply_configs"]))
    if case["driver"] == "run_components":
        case["prio"] = draw(st.lists(st.integers(0, 40), min_size=1, max_size=10))
    if len(sets) >= 2 and draw(st.integers(0, 2)) == 0:
        # evaluate between definitions (a spec set defined after an evaluation already happened)
        case["eval_after"] = sorted(draw(st.sets(st.integers(0, len(sets) - 2), min_size=1, max_size=2)))
    return case


def strat_world(tier):
    return _world(tier)



# ------------------------------------------------------------------------------------------------
# shipped spec sets: the same rule over the repository's own registry (finite enumeration)

SHIPPED_MODULES = ["insights.specs.default", "insights.specs.insights_archive", "insights.specs.sos_archive",
                   "insights.specs.core3_archive", "insights.specs.jdr_archive"]
_shipped = {}


def _is_ctx(c):
    from insights.core.context import ExecutionContext
    try:
        return issubclass(c, ExecutionContext)
    except TypeError:
        return False


def _shipped_world():
    """imports the shipped spec modules once per process; -> dict(points, impl_of, contexts)"""
    if _shipped:
        return _shipped
    import importlib
    from insights.core import dr
    for m in SHIPPED_MODULES:
        importlib.import_module(m)
    from insights.specs import Specs
    points = dict(Specs.registry)
    order = {}     # point name -> implementations in registration order
    # registration order is taken from the order in which the spec-set classes were defined (and, as
    # a cross-check, must agree with the order of the point's dependency list)
    classes = []

    def walk(cls):
        for sub in cls.__subclasses__():
            classes.append(sub)
            walk(sub)
    walk(Specs)
    for cls in classes:
        for name in points:
            if name in cls.__dict__:
                v = cls.__dict__[name]
                v = getattr(v, "func", v)
                if dr.get_delegate(v) is not None and v is not points[name]:
                    order.setdefault(name, []).append(v)
    _shipped.update(points=points, order=order, Specs=Specs)
    return _shipped


def _deps_decl(c):
    """(required, groups) as declared, read from the delegate's declaration (not from dr's helpers)"""
    from insights.core import dr
    d = dr.get_delegate(c)
    if d is None:
        return [], []
    return list(d.requires), [list(g) for g in d.at_least_one]


def _decl_ctx(c, memo):
    if c in memo:
        return memo[c]
    memo[c] = set()
    out = set()
    from insights.core import dr
    d = dr.get_delegate(c)
    if d is not None:
        for x in d.get_dependencies():
            if _is_ctx(x):
                out.add(x)
            else:
                out |= _decl_ctx(x, memo)
    memo[c] = out
    return out


def shipped_cases(tier):
    w = _shipped_world()
    memo = {}
    ctxs = set()
    for name, impls in w["order"].items():
        for im in impls:
            ctxs |= _decl_ctx(im, memo)
    from insights.core import dr
    from insights.core.context import ExecutionContextMeta
    # ... and the repository's own contexts that EXTEND one of them (JBossContext extends HostContext): with
    # such a context active, the implementations declared for the context it extends are implementations
    # for another context
    for c in list(ExecutionContextMeta.registry):
        if str(c.__module__).startswith("insights.") and c not in ctxs and any(issubclass(c, b) for b in ctxs):
            ctxs = ctxs | set([c])
    names = sorted(dr.get_name(c) for c in ctxs)
    for pname in sorted(w["points"]):
        for cname in names:
            # the context is put into the broker by the harness, or by the repository's front end for a
            # run without an archive (insights._run, what insights.run(context=...) does)
            yield {"point": pname, "context": cname}
            yield {"point": pname, "context": cname, "via": "insights._run"}


def check_shipped(case):
    from insights.core import dr
    from insights.core.spec_factory import RegistryPoint
    w = _shipped_world()
    points, order = w["points"], w["order"]
    if case["point"] not in points:
        raise HarnessError("no shipped registry point %r" % case["point"])
    P = points[case["point"]]
    C = dr.get_component(case["context"])
    if C is None or not _is_ctx(C):
        raise HarnessError("no execution context %r" % case["context"])
    memo = {}
    impl_point = {}
    for name, impls in order.items():
        for im in impls:
            impl_point[im] = name
    graph = dr.get_dependency_graph(P)

    # cross-check of the harness's notion of registration order with the registry's own dependency list
    # (same members; a disagreement is a harness problem, not a violation)
    deps_now = [d for d in dr.get_delegate(P).deps]
    mine = order.get(case["point"], [])
    if set(deps_now) != set(mine):
        raise HarnessError("harness cannot reconstruct the implementations of %s" % case["point"])

    def cands_of(name):
        return [im for im in order.get(name, []) if C in _decl_ctx(im, memo)]

    has = {}

    def value(c):
        if c in has:
            return has[c]
        has[c] = False
        if _is_ctx(c):
            r = c is C
        elif isinstance(c, RegistryPoint):
            cs = cands_of(c.__name__)
            r = bool(cs) and runs(cs[-1])
        else:
            r = runs(c)
        has[c] = r
        return r

    def runs(c):
        if dr.get_delegate(c) is None:
            return False
        req, grp = _deps_decl(c)
        if not all(value(x) for x in req):
            return False
        if any(not any(value(x) for x in g) for g in grp):
            return False
        name = impl_point.get(c)
        if name is not None and C in _decl_ctx(c, memo):
            cs = cands_of(name)
            if cs and cs[-1] is not c:
                return False        # registered earlier for the active context
        return True

    # stubs: nothing of the shipped datasources' own code runs (no file is read, no command executed)
    calls = []
    patched = []
    try:
        for comp in graph:
            if _is_ctx(comp) or isinstance(comp, RegistryPoint):
                continue
            d = dr.get_delegate(comp)
            if d is None:
                continue

            def stub(broker, comp=comp):
                calls.append(comp)
                return ("stub", dr.get_name(comp))
            d.invoke = stub
            patched.append(d)
        if case.get("via") == "insights._run":
            import insights
            broker = insights._run(dr.Broker(), dict(graph), context=C)
            if broker is None or C not in broker:
                raise Violation("insights._run(context=%s) did not evaluate under that context" % case["context"])
        else:
            broker = dr.Broker()
            broker[C] = C()
            dr.run(dict(graph), broker=broker)
    finally:
        for d in patched:
            try:
                del d.invoke
            except AttributeError:
                pass
    impls = order.get(case["point"], [])
    cs = cands_of(case["point"])
    ctx = dict(point=case["point"], context=case["context"], implementations=[dr.get_name(i) for i in impls],
               declared_for_active=[dr.get_name(i) for i in cs], executed=[dr.get_name(c) for c in calls if c in impls])
    for im in impls:
        d = _decl_ctx(im, memo)
        n = calls.count(im)
        if im in cs[:-1] and n:
            raise Violation("shipped implementation %s, registered earlier for the active context than %s, was executed"
                            % (dr.get_name(im), dr.get_name(cs[-1])), **ctx)
        if d and C not in d and (n or im in broker):
            raise Violation("shipped implementation %s is declared only for other contexts but was executed / has a value"
                            % dr.get_name(im), **ctx)
        if n > 1:
            raise Violation("shipped implementation %s was executed %d times" % (dr.get_name(im), n), **ctx)
    free = [im for im in impls if not _decl_ctx(im, memo)]
    labels = ["impls=%s" % (len(impls) if len(impls) < 3 else "3+"), "cands=%s" % (len(cs) if len(cs) < 3 else "3+")]
    if case.get("via"):
        labels.append("via=" + case["via"])
    if any(C is not x and issubclass(C, x) for im in impls for x in _decl_ctx(im, memo)):
        labels.append("active-context-extends-a-declared-one")
    if free:
        labels.append("has-context-free-impl(unasserted)")
    elif cs:
        L = cs[-1]
        want = runs(L)
        if bool(calls.count(L)) != want:
            raise Violation("latest shipped implementation for the active context, %s, %s" % (
                dr.get_name(L), "was not executed although its requirements are met" if want else
                "was executed although its requirements are not met"), **ctx)
        if want:
            if P not in broker or broker[P] != ("stub", dr.get_name(L)):
                raise Violation("spec %s does not hold the value of its latest implementation for the active context (%s): %r"
                                % (case["point"], dr.get_name(L), broker.get(P)), **ctx)
        elif P in broker:
            raise Violation("spec %s holds %r although its latest implementation for the active context yields nothing"
                            % (case["point"], broker.get(P)), **ctx)
    elif P in broker:
        raise Violation("spec %s holds %r although no implementation is declared for the active context"
                        % (case["point"], broker.get(P)), **ctx)
    via = any(not any(_is_ctx(x) for x in dr.get_delegate(im).get_dependencies()) for im in cs)
    if via:
        labels.append("context-through-another-datasource")
    if len(cs) >= 2:
        labels.append("override")
    return {"nontrivial": len(cs) >= 2 or (bool(cs) and via), "labels": labels}


# ------------------------------------------------------------------------------------------------
# histories: several evaluations in ONE process, through the public front ends
#
# The statement holds "for every spec name" in every evaluation; nothing in it depends on what the
# process evaluated before.  A case is a world plus a list of evaluation steps.  Every step evaluates the
# world through one public front end (insights.run with / without root, component list, explicit context;
# insights._run; insights.process_dir; dr.run over a private graph, the default graph, the group name;
# dr.run_all; dr.run_incremental; dr.run_components) either under one private context (a directory that
# carries the context's marker, or the context class handed over) or on a *serialized archive* written
# with the repository's own Hydration.dehydrate from an evaluation of the world (SerializedArchiveContext:
# the specs found in meta_data/ are pre-populated).  After every step under a private context the
# reference resolver is applied as in `spec_sets`; after the last step every private context is made
# active once more over the default graph.  dr.COMPONENTS[GROUPS.single] holds the generated components
# only while a case runs (its previous content is put back afterwards, same objects).

CTX_DRIVERS = ["insights.run", "insights.run", "insights.run+context", "insights.run+components",
               "insights.run-noroot", "_run", "_run-noroot", "process_dir", "dr.run(graph)", "dr.run(default)",
               "dr.run(group)", "dr.run_all(default)", "dr.run_incremental(graph)", "dr.run_components",
               "SingleEvaluator.process", "SingleEvaluator.process+incremental",
               "dr.run(own graph)", "dr.run_incremental(own graph)", "dr.run_components(own graph)",
               "SingleEvaluator.process(own graph)"]
SER_DRIVERS = ["insights.run", "insights.run", "insights.run+components", "_run", "process_dir",
               "dr.run(graph)", "dr.run_all(default)", "dr.run_incremental(graph)",
               "SingleEvaluator.process(graph)", "SingleEvaluator.process+incremental",
               "dr.run(default)", "dr.run(group)", "dr.run_incremental(default)", "SingleEvaluator.process",
               "dr.run(own graph)", "dr.run_incremental(own graph)", "SingleEvaluator.process(own graph)"]
FRONT_ENDS_SEEDING = ["insights.run", "insights.run+context", "insights.run+components", "insights.run-noroot",
                      "_run", "_run-noroot", "process_dir"]
# front ends that put the execution context into the broker themselves; the others take a broker the
# caller prepared: by hand (broker[C] = C()), or - step key "seed" - with hydration.initialize_broker
# "own graph": ONE graph object the caller built from get_dependency_graph before the first step and keeps
# handing over (callers cache their graph); "default" / "group": the process-wide graph of the single group


def check_history(case):
    import os
    import shutil
    import tempfile
    import io
    import insights
    from insights.core import dr
    from insights.core.context import SerializedArchiveContext
    from insights.core.evaluators import SingleEvaluator     # (imported before the group is emptied)
    from insights.core.hydration import initialize_broker
    from insights.core.serde import Hydration

    wcase = case["world"]
    _validate(wcase)
    steps = case["steps"]
    for stp in steps:
        if stp["kind"] == "switch":
            # an implementation is switched off / on again between two evaluations (dr.set_enabled,
            # insights.apply_configs): {"kind": "switch", "obj": n-th object of the world, "on": bool, "how": ...}
            if stp.get("how") not in ("set_enabled", "apply_configs") or not isinstance(stp.get("on"), bool):
                raise HarnessError("bad case: step %r" % (stp,))
            continue
        if stp["kind"] not in ("ctx", "ser") or stp["driver"] not in (CTX_DRIVERS if stp["kind"] == "ctx" else SER_DRIVERS):
            raise HarnessError("bad case: step %r" % (stp,))
        if stp.get("seed") not in (None, "initialize_broker", "initialize_broker+context"):
            raise HarnessError("bad case: step %r" % (stp,))
    uid = next(_counter)
    log, parsed = [], []
    labels = set()
    world = None
    tmp = None
    nontrivial = False
    hydrated_total = 0
    store_skips = bool(wcase.get("store_skips"))
    group = dr.COMPONENTS[dr.GROUPS.single]
    saved_group = list(group.items())
    group.clear()
    try:
        tmp = tempfile.mkdtemp(prefix="vp_c05_")
        world = _build(wcase, uid, log, parsed, provider=True)
        if _uses_specs(wcase):
            world["define_parsers"]()
        for si in range(len(wcase["sets"])):
            world["define_set"](si)
        if not _uses_specs(wcase):
            world["define_parsers"]()
        ctxs, points, impls, parsers = world["ctxs"], world["points"], world["impls"], world["parsers"]
        nctx = wcase["nctx"]
        # the implementations that are switched off at the moment (the world may start with some)
        off = set(tuple(o) for o in wcase.get("disabled", []))
        for o in sorted(off):
            world["switch"](o, False, wcase.get("switch", "set_enabled"))
        all_objs = sorted(_bindings(wcase)[1])

        def now():
            """the world as it is configured at the moment"""
            return dict(wcase, disabled=[list(o) for o in sorted(off)])

        def private_graph():
            g = {}
            for ps in parsers:
                g.update(dr.get_dependency_graph(ps))
            return dict((k, set(v)) for k, v in g.items())

        def new_broker(ctx_cls=None):
            b = dr.Broker()
            b.store_skips = store_skips
            if ctx_cls is not None:
                b[ctx_cls] = ctx_cls()
            return b

        def marked_dir(i):
            d = os.path.join(tmp, "ctx%d" % i)
            if not os.path.isdir(d):
                os.makedirs(d)
                open(os.path.join(d, ctxs[i].marker), "w").close()
            return d

        def unmarked_dir():
            d = os.path.join(tmp, "plain")
            if not os.path.isdir(d):
                os.makedirs(d)
                open(os.path.join(d, "some_file"), "w").close()
            return d

        def reset():
            del log[:]
            del parsed[:]

        own = private_graph()
        own_used = []

        def drive_broker(driver, b, prio):
            """the front ends that take a broker the caller prepared"""
            if driver == "dr.run(graph)":
                dr.run(private_graph(), broker=b)
            elif driver == "dr.run(own graph)":
                own_used.append(1)
                dr.run(own, broker=b)
            elif driver == "dr.run(default)":
                dr.run(broker=b)
            elif driver == "dr.run(group)":
                dr.run(dr.GROUPS.single, broker=b)
            elif driver == "dr.run_all(default)":
                dr.run_all(broker=b)
            elif driver == "dr.run_incremental(graph)":
                for _ in dr.run_incremental(private_graph(), broker=b):
                    pass
            elif driver == "dr.run_incremental(own graph)":
                own_used.append(1)
                for _ in dr.run_incremental(own, broker=b):
                    pass
            elif driver == "dr.run_incremental(default)":
                for _ in dr.run_incremental(broker=b):
                    pass
            elif driver == "dr.run_components":
                g = private_graph()
                dr.run_components(_kahn(g, prio or [0]), g, b)
            elif driver == "dr.run_components(own graph)":
                own_used.append(1)
                dr.run_components(_kahn(own, prio or [0]), own, b)
            elif driver == "SingleEvaluator.process":
                SingleEvaluator(b, stream=io.StringIO()).process()
            elif driver == "SingleEvaluator.process+incremental":
                SingleEvaluator(b, stream=io.StringIO(), incremental=True).process()
            elif driver == "SingleEvaluator.process(graph)":
                SingleEvaluator(b, stream=io.StringIO()).process(private_graph())
            elif driver == "SingleEvaluator.process(own graph)":
                own_used.append(1)
                SingleEvaluator(b, stream=io.StringIO()).process(own)
            else:
                raise HarnessError("bad case: driver %r" % (driver,))
            return b

        def designate(i):
            """how a caller designates context i for a directory: (directory carrying the context's own
            marker file, None), or - a context without a marker of its own (HostContext, JBossContext) -
            (some directory, the context class handed over)"""
            C = ctxs[i]
            if C.__dict__.get("marker"):
                return marked_dir(i), None
            return unmarked_dir(), C

        def eval_private(i, driver, prio, seed=None):
            """one evaluation with context i active -> the broker it leaves behind"""
            C = ctxs[i]
            root, carg = designate(i)
            if driver == "insights.run":
                return insights.run(root=root, context=carg, store_skips=store_skips)
            if driver == "insights.run+context":
                return insights.run(root=unmarked_dir(), context=C, store_skips=store_skips)
            if driver == "insights.run+components":
                return insights.run(component=list(parsers), root=root, context=carg, store_skips=store_skips)
            if driver == "insights.run-noroot":
                return insights.run(context=C, store_skips=store_skips)
            if driver == "_run":
                return insights._run(new_broker(), dr.COMPONENTS[dr.GROUPS.single], root=root, context=carg)
            if driver == "_run-noroot":
                return insights._run(new_broker(), dr.COMPONENTS[dr.GROUPS.single], context=C)
            if driver == "process_dir":
                return insights.process_dir(new_broker(), root, dr.COMPONENTS[dr.GROUPS.single], carg)
            if seed == "initialize_broker":
                # the repository's own way of preparing a broker for a directory (what process_dir,
                # insights-cat / insights-inspect and the shell do before they evaluate)
                _ctx, b = initialize_broker(root, context=carg, broker=new_broker())
                return drive_broker(driver, b, prio)
            if seed == "initialize_broker+context":
                _ctx, b = initialize_broker(unmarked_dir(), context=C, broker=new_broker())
                return drive_broker(driver, b, prio)
            return drive_broker(driver, new_broker(C), prio)

        def eval_serialized(root, driver):
            if driver == "insights.run":
                return insights.run(root=root, store_skips=store_skips)
            if driver == "insights.run+components":
                return insights.run(component=list(parsers), root=root, store_skips=store_skips)
            if driver == "_run":
                return insights._run(new_broker(), dr.COMPONENTS[dr.GROUPS.single], root=root)
            if driver == "process_dir":
                return insights.process_dir(new_broker(), root, dr.COMPONENTS[dr.GROUPS.single], None)
            _ctx, b = initialize_broker(root, broker=new_broker())
            return drive_broker(driver, b, None)

        def assert_private(i, broker, where):
            if broker is None or ctxs[i] not in broker:
                raise Violation("%s: the evaluation did not happen under the context the directory / the caller "
                                "designates (private context %d)" % (where, i))
            try:
                return _assert_resolution(now(), i, broker, log, parsed, world, labels)
            except Violation as v:
                raise Violation("%s: %s" % (where, v.msg), **v.details)

        def assert_serialized(broker, hydrated, where):
            """under the serialized-archive context only what the statement says about implementations
            declared for OTHER contexts is demanded (they never run, never hold a value); a spec that was
            not in the archive and has no context-free implementation is absent; the parser is handed what
            the spec holds"""
            if broker is None or SerializedArchiveContext not in broker:
                raise Violation("%s: not evaluated under SerializedArchiveContext" % where)
            calls = set((e[1], e[2]) for e in log if e[0] == "i")
            hdecl = []
            for h in wcase["helpers"]:
                hdecl.append(_declared(h, hdecl))
            per_point, creators = _bindings(wcase)
            for p, pt in enumerate(points):
                free = False
                for si, oid in per_point[p]:
                    if not _declared(creators[oid], hdecl) or _spec_refs(creators[oid]):
                        # (an implementation built on another spec runs wherever that spec holds a value -
                        # in a serialized archive the spec may have been hydrated)
                        free = True
                        continue
                    if oid in calls or impls[(si, p)] in broker:
                        raise Violation("%s: implementation of set %d for point %d is declared only for other "
                                        "contexts but was executed / holds a value under the serialized-archive "
                                        "context" % (where, si, p))
                seen = [v for (pp, v) in parsed if pp == p]
                if pt in broker:
                    if p not in hydrated and not free:
                        raise Violation("%s: point %d holds %r although it was not in the archive and no "
                                        "implementation is declared for the active context" % (where, p, _plain(broker[pt])))
                    v = _plain(broker[pt])
                    if seen != (v if isinstance(v, list) else [v]):
                        raise Violation("%s: parser on point %d was handed %r but the point holds %r" % (where, p, seen, v))
                elif seen:
                    raise Violation("%s: parser on point %d fired although the spec is absent" % (where, p), seen=seen)

        # an archive is written from an evaluation that had something to serialise (if there is one):
        # the source context of a "ser" step is taken among the contexts under which the resolver
        # expects a value for some point
        for k, stp in enumerate(steps):
            if stp["kind"] == "switch":
                if not all_objs:
                    continue
                o = all_objs[stp["obj"] % len(all_objs)]
                world["switch"](o, stp["on"], stp["how"])
                (off.discard if stp["on"] else off.add)(o)
                labels.add("switch:%s:%s" % (stp["how"], "on" if stp["on"] else "off"))
                continue
            rich = [i for i in range(nctx) if any(m["mode"] == "value" and m["value"] for m in model(now(), i))]
            i = stp["ctx"] % nctx
            if stp["kind"] == "ser" and rich:
                i = rich[stp["ctx"] % len(rich)]
            where = "step %d (%s, %s, context %d)" % (k, stp["kind"], stp["driver"], i)
            if stp["kind"] == "ctx":
                reset()
                b = eval_private(i, stp["driver"], stp.get("prio"), stp.get("seed"))
                nontrivial = assert_private(i, b, where) or nontrivial
                labels.add("ctx:" + stp["driver"])
                seeded = (stp["driver"] in FRONT_ENDS_SEEDING or stp.get("seed"))
                if seeded:
                    labels.add("context-put-into-the-broker-by-the-repository")
                for r in sorted(_related(wcase, i)):
                    labels.add("step-under-related-context:%s%s" % (r, "(broker seeded by the repository)" if seeded else ""))
            else:
                # the archive is written from an ordinary evaluation of the world under private context i
                reset()
                src = new_broker(ctxs[i])
                dr.run(private_graph(), broker=src)
                nontrivial = assert_private(i, src, where + " source evaluation") or nontrivial
                root = os.path.join(tmp, "ser%d" % k)
                os.makedirs(root)
                open(os.path.join(root, SerializedArchiveContext.marker), "w").close()
                hyd = Hydration(root, ctx=src[ctxs[i]])
                hydrated = set()
                for p, pt in enumerate(points):
                    if pt in src:
                        hyd.dehydrate(pt, src)
                        doc = os.path.join(root, "meta_data", dr.get_name(pt) + ".json")
                        if os.path.exists(doc):
                            with open(doc) as f:
                                if json.load(f).get("results"):
                                    hydrated.add(p)
                reset()
                b = eval_serialized(root, stp["driver"])
                assert_serialized(b, hydrated, where)
                hydrated_total += len(hydrated)
                labels.add("ser:" + stp["driver"])
                labels.add("ser:hydrated-points=%d" % min(len(hydrated), 2))
        # whatever happened before: every private context, once more, over the default graph
        for i in range(nctx):
            reset()
            b = new_broker(ctxs[i])
            dr.run(broker=b)
            nontrivial = assert_private(i, b, "after the history, default graph under context %d" % i) or nontrivial
            if own_used:
                reset()
                b = new_broker(ctxs[i])
                dr.run(own, broker=b)
                nontrivial = assert_private(i, b, "after the history, the caller's own graph under context %d" % i) or nontrivial
        labels.add("steps=%d" % len(steps))
        if _inner(wcase):
            labels.add("nested-registries")
        if hydrated_total:
            labels.add("history-with-hydrated-spec")
        if len(set(stp["driver"] for stp in steps if "driver" in stp)) >= 2:
            labels.add("drivers>=2")
        # non-trivial: a spec went through an archive and is resolved again afterwards, or >= 2 steps over
        # a world in which some implementation is overridden for the active context
        n_eval = sum(1 for stp in steps if stp["kind"] != "switch")
        return {"nontrivial": bool(hydrated_total or (n_eval >= 2 and "override" in labels)),
                "labels": sorted(labels)}
    finally:
        try:
            if world is not None:
                _cleanup(world["comps"], world["private_ctxs"], world["modname"], world["shipped_ctxs"])
        finally:
            # (components that something registered meanwhile - there should be none - are kept)
            extra = [(k, v) for k, v in group.items() if k not in set(world["comps"] if world else ())]
            group.clear()
            group.update(saved_group)
            group.update(extra)
            if tmp is not None:
                shutil.rmtree(tmp, ignore_errors=True)


@st.composite
def _history(draw, tier):
    w = draw(_world(tier))
    w.pop("eval_after", None)
    w.pop("prio", None)
    w.pop("driver", None)
    steps = []
    # the context of a step: any slot; slots whose class extends / is extended by another slot's class twice as
    # often (there "another context" is the closest it can be)
    slots = list(range(w["nctx"]))
    slots += [i for i in range(w["nctx"]) if _ancestors(w, i) or any(i in _ancestors(w, j) for j in range(w["nctx"]))]
    # objects worth switching off / on between evaluations: the latest of several implementations for a context
    latest_under = {}      # object -> contexts under which it is the latest of >= 2 implementations of a name
    for a in range(w["nctx"]):
        for m in model(dict(w, disabled=[]), a):
            if m["n_cands"] >= 2 and m["latest_obj"]:
                latest_under.setdefault(tuple(m["latest_obj"]), []).append(a)
    targets = sorted(latest_under)
    all_objs = sorted(_bindings(w)[1])
    off = set(tuple(o) for o in w.get("disabled", []))      # what is switched off at this point of the history
    for _ in range(draw(st.sampled_from([2, 3, 1, 4, 2, 3, 5]))):
        kind = draw(st.sampled_from(["ctx", "ctx", "ctx", "ctx", "ser", "ser", "switch"]))
        where = slots
        if kind == "switch":
            if not all_objs:
                continue
            if off and draw(st.booleans()):
                # something that is off is switched on again
                o = draw(st.sampled_from(sorted(off)))
                on = True
            else:
                o = draw(st.sampled_from(targets * 3 + all_objs))
                on = draw(st.sampled_from([False, False, False, True]))
            (off.discard if on else off.add)(o)
            steps.append({"kind": "switch", "obj": all_objs.index(o), "on": on,
                          "how": draw(st.sampled_from(["set_enabled", "set_enabled", "apply_configs"]))})
            # ... and the world is evaluated afterwards, preferably under a context for which that object is
            # the latest implementation
            kind = "ctx"
            where = latest_under.get(o, []) * 2 + slots
        stp = {"kind": kind, "ctx": draw(st.sampled_from(where)),
               "driver": draw(st.sampled_from(CTX_DRIVERS if kind == "ctx" else SER_DRIVERS))}
        if stp["driver"].startswith("dr.run_components"):
            stp["prio"] = draw(st.lists(st.integers(0, 40), min_size=1, max_size=10))
        if kind == "ctx" and stp["driver"] not in FRONT_ENDS_SEEDING:
            seed = draw(st.sampled_from([None, None, "initialize_broker", "initialize_broker+context"]))
            if seed:
                stp["seed"] = seed
        steps.append(stp)
    return {"world": w, "steps": steps}


def strat_history(tier):
    return _history(tier)


SUBS = [
    Sub("shipped", check_shipped, enumerate=shipped_cases, workers_quick=4, workers_thorough=8, budget_quick=60,
        budget_thorough=300),
    Sub("history", check_history, strategy=strat_history, quick=400, thorough=3000, workers_quick=2,
        workers_thorough=16, budget_quick=20, budget_thorough=540),
    Sub("spec_sets", check_world, strategy=strat_world, quick=2400, thorough=12000, workers_quick=2,
        workers_thorough=16, budget_quick=36, budget_thorough=540),
]


def _im(point, req=(), grp=(), out="ok"):
    return {"point": point, "req": list(req), "grp": list(grp), "out": out}


REGRESSIONS = [
    # A for [c0|c1], B for c0, C for c0 failing, D for c2: under c0 the spec is absent and A, B silent
    Reg("three-overrides-latest-fails", "spec_sets",
        {"nctx": 3, "points": [{"multi_output": False}], "helpers": [],
         "sets": [[_im(0, grp=["c0", "c1"])], [_im(0, req=["c0"])], [_im(0, req=["c0"], out="content")],
                  [_im(0, req=["c2"])]], "store_skips": False, "driver": "run"}),
    Reg("through-helper-chain", "spec_sets",
        {"nctx": 3, "points": [{"filterable": True}, {"multi_output": True, "prio": 5}],
         "helpers": [{"req": [], "grp": ["c0", "c2"], "out": "ok"}, {"req": ["h0"], "grp": [], "out": "ok"},
                     {"req": ["c1"], "grp": [], "out": "skip"}],
         "sets": [[_im(0, req=["c0"]), _im(1, req=["c1"], out="list")],
                  [_im(0, req=["h1"], out="list"), _im(1, req=["h2"])],
                  [_im(0, req=["c2", "h0"], out="crash"), _im(1, grp=["c0", "c1"], out="timeout")],
                  [_im(1, req=["c0"])]],
         "store_skips": True, "driver": "run_all"}),
    Reg("context-free-earlier", "spec_sets",
        {"nctx": 3, "points": [{}], "helpers": [{"req": [], "grp": [], "out": "ok"}],
         "sets": [[_im(0, req=["h0"])], [_im(0, req=["c1"])], [_im(0, req=["c1"], out="list")]],
         "store_skips": False, "driver": "run"}),
    # finding C05-sac-prunes-graph (fixed): dr.run under a hydrated serialized-archive broker removed every
    # implementation of the hydrated specs from the graph it was handed IN PLACE - the process-wide default
    # graph (dr.run() / dr.run(GROUPS.single) / Evaluator.process()) or the caller's own graph object - so
    # later evaluations in the same process no longer ran the latest implementation for their context
    Reg("serialized-archive-then-default-graph", "history",
        {"world": {"nctx": 3, "points": [{}], "helpers": [], "sets": [[_im(0, req=["c0"])]], "store_skips": False},
         "steps": [{"kind": "ser", "ctx": 0, "driver": "dr.run(default)"}]}),
    Reg("serialized-archive-then-own-graph", "history",
        {"world": {"nctx": 3, "points": [{}, {"multi_output": True}], "helpers": [],
                   "sets": [[_im(0, req=["c0"]), _im(1, grp=["c0", "c1"], out="list")], [_im(0, req=["c0"])]],
                   "store_skips": True},
         "steps": [{"kind": "ctx", "ctx": 0, "driver": "dr.run(own graph)"},
                   {"kind": "ser", "ctx": 0, "driver": "SingleEvaluator.process(own graph)"},
                   {"kind": "ctx", "ctx": 1, "driver": "dr.run_incremental(own graph)"}]}),
    Reg("serialized-archive-evaluator-default-graph", "history",
        {"world": {"nctx": 3, "points": [{}], "helpers": [], "sets": [[_im(0, req=["c1"])], [_im(0, req=["c1"], out="list")]],
                   "store_skips": False},
         "steps": [{"kind": "ser", "ctx": 1, "driver": "SingleEvaluator.process"},
                   {"kind": "ctx", "ctx": 1, "driver": "insights.run"}]}),
]
