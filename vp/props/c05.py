"""C05 - the latest implementation for the active context is the one that supplies a spec.

A case describes a registry class (1-3 RegistryPoints with random flags), a pool of helper
datasources and a *sequence* of 1-6 direct SpecSet subclasses.  The classes are created with
type(...) so that SpecSetMeta / _resolve_registry_points / _register_context_handler run for real.
Every implementation is a generated datasource whose body appends to a call log.  The same built
world is then evaluated once per private ExecutionContext subclass as the only active context and
compared with a reference resolver written from the statement alone:

    candidates(point, X) = implementations whose declared contexts (directly or through the
                           datasources they are bound to) contain the active context X
    L = the last registered candidate
    * no candidate but L executes, no implementation declared only for other contexts executes
    * the registry point holds L's value, or is absent when L produced none
    * the parser on top of the point is handed exactly that value (each element of it when the
      value is a list) or does not fire

Nothing in the model looks at dr.IGNORE, context_handlers or the order of the point's deps."""
import itertools
import sys
import types

from hypothesis import strategies as st

from vp.core import Sub, Reg, Violation, HarnessError

PROPERTY = "C05"
RULE = ("a registry class with 1-3 registry points (random flags) and a sequence of 1-6 direct "
        "SpecSet subclasses built with type(); every implementation is a generated datasource bound "
        "to one private context, an at-least-one list of contexts, a (chain of) context-bound helper "
        "datasource(s), a context plus a helper, or (rarely) a context-free helper; outcomes value / "
        "list value / SkipComponent / ContentException / CalledProcessError / TimeoutException / "
        "ValueError; each of the 3-4 private contexts is made the single active one in turn, through "
        "dr.run or dr.run_all. Non-trivial (per world): for some active context a point has >= 3 "
        "implementations, >= 2 of them declared for the active context, and either a declaration "
        "naming several contexts or a latest implementation that yields nothing; distinct by the "
        "whole case.")
ASSUMPTIONS = [
    "exactly one execution context is present in the broker",
    "spec sets subclass the registry class directly (as every shipped spec set does)",
    "'declared for a context' = the context class is reachable through the implementation's "
    "dependency declarations; an implementation whose declarations reach no context is declared for "
    "none: it is never required to stay silent, and the expected value is asserted only where the "
    "statement is unambiguous (see EXCLUDED)",
    "an implementation that names a context can only run when one of its named contexts is active "
    "(no at-least-one group mixing a context with a context-free datasource)",
]
EXCLUDED = [
    "value of a point when a context-free implementation with a value was registered after the "
    "latest implementation for the active context, or when that latest implementation (or no "
    "implementation at all) is declared for the active context and yields nothing while a "
    "context-free one has a value: the statement does not say whether a context-free "
    "implementation is 'overridden' (call-log assertions are still made)",
    "implementations returning None or an empty list (whether that is 'a value' is not stated)",
    "spec sets that subclass another implementing class; two contexts active at once",
]

_counter = itertools.count()

OUTS = ["ok", "ok", "ok", "list", "skip", "content", "cpe", "timeout", "crash", "empty_str", "zero", "empty_list"]
# empty_str / zero / empty_list: the implementation succeeds with a falsy value (an empty listing, "", 0)


# ------------------------------------------------------------------------------------------------
# reference model (independent of dr)

def _refs_ok(refs, nctx, nhelp):
    for r in refs:
        if r[0] == "c":
            if not 0 <= int(r[1:]) < nctx:
                return False
        elif r[0] == "h":
            if not 0 <= int(r[1:]) < nhelp:
                return False
        else:
            return False
    return True


def _validate(case):
    nctx = case["nctx"]
    if not 2 <= nctx <= 5:
        raise HarnessError("bad case: nctx")
    for j, h in enumerate(case["helpers"]):
        if not _refs_ok(h["req"] + h["grp"], nctx, j):
            raise HarnessError("bad case: helper %d refers forward" % j)
        if any(r[0] == "h" for r in h["grp"]):
            raise HarnessError("bad case: helper group may only hold contexts")
    for s in case["sets"]:
        seen = set()
        for im in s:
            if not 0 <= im["point"] < len(case["points"]) or im["point"] in seen:
                raise HarnessError("bad case: point index")
            seen.add(im["point"])
            if not _refs_ok(im["req"] + im["grp"], nctx, len(case["helpers"])):
                raise HarnessError("bad case: implementation refs")
            if any(r[0] == "h" for r in im["grp"]):
                raise HarnessError("bad case: implementation group may only hold contexts")
            if not im["req"] and not im["grp"]:
                raise HarnessError("bad case: implementation without any declaration")


def _declared(node, hdecl):
    """contexts reachable through the declarations of a helper / implementation"""
    out = set()
    for r in node["req"] + node["grp"]:
        if r[0] == "c":
            out.add(int(r[1:]))
        else:
            out |= hdecl[int(r[1:])]
    return out


def _satisfied(node, active, hval):
    def has(r):
        return (int(r[1:]) == active) if r[0] == "c" else (int(r[1:]) in hval)
    if not all(has(r) for r in node["req"]):
        return False
    if node["grp"] and not any(has(r) for r in node["grp"]):
        return False
    return True


def _value(tag, out):
    if out == "ok":
        return tag
    if out == "list":
        return [tag + "#0", tag + "#1"]
    if out == "empty_str":
        return ""
    if out == "zero":
        return 0
    if out == "empty_list":
        return []
    return None


def model(case, active):
    """-> per point: dict(expect_value | absent | unasserted, must_not_run=[impl ids],
    latest=impl id or None, latest_runs=bool)"""
    hdecl = []
    hval = {}
    for j, h in enumerate(case["helpers"]):
        hdecl.append(_declared(h, hdecl))
        if _satisfied(h, active, hval) and h["out"] == "ok":
            hval[j] = "h%d" % j
    res = []
    for p in range(len(case["points"])):
        impls = []   # (impl id, declared, runnable, value)
        for si, s in enumerate(case["sets"]):
            for im in s:
                if im["point"] != p:
                    continue
                decl = _declared(im, hdecl)
                runnable = _satisfied(im, active, hval)
                val = _value("v|s%d|p%d" % (si, p), im["out"]) if runnable else None
                impls.append({"id": [si, p], "decl": decl, "runnable": runnable, "val": val})
        cands = [k for k, im in enumerate(impls) if active in im["decl"]]
        free = [k for k, im in enumerate(impls) if not im["decl"]]
        free_val = [k for k in free if impls[k]["val"] is not None]
        must_not_run = [impls[k]["id"] + ["registered earlier for the active context"] for k in cands[:-1]]
        must_not_run += [im["id"] + ["declared only for other contexts"] for im in impls
                         if im["decl"] and active not in im["decl"]]
        r = {"point": p, "must_not_run": must_not_run, "latest": None, "latest_runs": False,
             "mode": "absent", "value": None, "n_impls": len(impls), "n_cands": len(cands),
             "mixed": any(len(impls[k]["decl"]) > 1 for k in cands), "n_free": len(free)}
        if cands:
            L = impls[cands[-1]]
            r["latest"] = L["id"]
            r["latest_runs"] = L["runnable"]
            if L["val"] is not None:
                if any(k > cands[-1] for k in free_val):
                    r["mode"] = "unasserted"
                else:
                    r["mode"] = "value"
                    r["value"] = L["val"]
            elif free_val:
                r["mode"] = "unasserted"
        elif free_val:
            r["mode"] = "unasserted"
        res.append(r)
    return res


def selftest():
    def im(point, req=(), grp=(), out="ok"):
        return {"point": point, "req": list(req), "grp": list(grp), "out": out}
    # the two-class example of the repository's documentation plus a third and a fourth class
    case = {"nctx": 3, "points": [{}], "helpers": [{"req": ["c0"], "grp": [], "out": "ok"},
                                                   {"req": [], "grp": [], "out": "ok"}],
            "sets": [[im(0, grp=["c0", "c1"])], [im(0, req=["c0"])], [im(0, req=["c0"], out="content")],
                     [im(0, req=["c2"])]]}
    _validate(case)
    m0, m1, m2 = model(case, 0)[0], model(case, 1)[0], model(case, 2)[0]
    assert m0["mode"] == "absent" and m0["latest"] == [2, 0] and m0["latest_runs"]
    assert sorted(x[:2] for x in m0["must_not_run"]) == [[0, 0], [1, 0], [3, 0]], m0
    assert m1["mode"] == "value" and m1["value"] == "v|s0|p0" and [x[:2] for x in m1["must_not_run"]] == [[1, 0], [2, 0], [3, 0]]
    assert m2["mode"] == "value" and m2["value"] == "v|s3|p0" and len(m2["must_not_run"]) == 3
    # through a helper; helper yields nothing -> absent, earlier one still silenced
    case = {"nctx": 3, "points": [{}], "helpers": [{"req": ["c0"], "grp": [], "out": "skip"}],
            "sets": [[im(0, req=["c0"])], [im(0, req=["h0"])]]}
    m = model(case, 0)[0]
    assert m["mode"] == "absent" and m["latest"] == [1, 0] and not m["latest_runs"] and [x[:2] for x in m["must_not_run"]] == [[0, 0]]
    # context-free earlier implementation: the later, declared one supplies the value
    case = {"nctx": 3, "points": [{}], "helpers": [{"req": [], "grp": [], "out": "ok"}],
            "sets": [[im(0, req=["h0"])], [im(0, req=["c1"], out="list")], [im(0, req=["h0"])]]}
    m = model(case, 1)[0]
    assert m["mode"] == "unasserted" and m["must_not_run"] == []
    case["sets"].pop()
    m = model(case, 1)[0]
    assert m["mode"] == "value" and m["value"] == ["v|s1|p0#0", "v|s1|p0#1"]
    assert model(case, 0)[0]["mode"] == "unasserted"


# ------------------------------------------------------------------------------------------------
# building the real thing

def _raise(out, name):
    from insights.core.exceptions import SkipComponent, ContentException, CalledProcessError, TimeoutException
    if out == "skip":
        raise SkipComponent(name)
    if out == "content":
        raise ContentException(name)
    if out == "cpe":
        raise CalledProcessError(1, name)
    if out == "timeout":
        raise TimeoutException(name)
    if out == "crash":
        raise ValueError(name)


def _cleanup(comps, ctxs, modname):
    from insights.core import dr
    from insights.core.context import ExecutionContextMeta
    allc = list(comps) + list(ctxs)
    for regname in ("DELEGATES", "DEPENDENCIES", "DEPENDENTS", "ENABLED", "IGNORE", "MODULE_NAMES",
                    "BASE_MODULE_NAMES"):
        reg = getattr(dr, regname)
        for c in allc:
            reg.pop(c, None)
    for grp in list(dr.COMPONENTS):
        for c in allc:
            dr.COMPONENTS[grp].pop(c, None)
    for s in dr.COMPONENTS_BY_TYPE.values():
        s.difference_update(allc)
    dr.HIDDEN.difference_update(allc)
    for obs in dr.TYPE_OBSERVERS.values():
        obs.difference_update(allc)
    for cache in (dr.COMPONENTS_BY_NAME, dr.COMPONENT_IMPORT_CACHE):
        for k in [k for k in cache if isinstance(k, str) and modname in k]:
            cache.pop(k, None)
    for c in ctxs:
        while c in ExecutionContextMeta.registry:
            ExecutionContextMeta.registry.remove(c)
    sys.modules.pop(modname, None)


def _build(case, uid, log, parsed):
    """returns (ctxs, helpers, points, impls{(si,p): comp}, parsers, all components, modname)"""
    from insights.core.context import ExecutionContext
    from insights.core.plugins import datasource, parser
    from insights.core.spec_factory import SpecSet, RegistryPoint

    modname = "vp_c05_synth_%d" % uid
    mod = types.ModuleType(modname)
    sys.modules[modname] = mod
    comps = []
    ctxs = []
    world = {"ctxs": ctxs, "comps": comps, "modname": modname, "helpers": [], "points": [],
             "impls": {}, "parsers": [], "classes": []}
    for i in range(case["nctx"]):
        c = type("Ctx%d_%d" % (uid, i), (ExecutionContext,), {"__module__": modname})
        setattr(mod, c.__name__, c)
        ctxs.append(c)

    def deps_of(node):
        def ref(r):
            return ctxs[int(r[1:])] if r[0] == "c" else world["helpers"][int(r[1:])]
        args = [ref(r) for r in node["req"]]
        if node["grp"]:
            args.append([ref(r) for r in node["grp"]])
        return args

    for j, h in enumerate(case["helpers"]):
        def hbody(broker, j=j, out=h["out"]):
            log.append(["h", j])
            _raise(out, "h%d" % j)
            return "h%d" % j
        hbody.__name__ = hbody.__qualname__ = "helper%d_%d" % (uid, j)
        hbody.__module__ = modname
        setattr(mod, hbody.__name__, hbody)
        comp = datasource(*deps_of(h))(hbody)
        world["helpers"].append(comp)
        comps.append(comp)

    rdict = {"__module__": modname}
    for p, flags in enumerate(case["points"]):
        pt = RegistryPoint(multi_output=bool(flags.get("multi_output")), raw=bool(flags.get("raw")),
                           filterable=bool(flags.get("filterable")), no_redact=bool(flags.get("no_redact")),
                           prio=int(flags.get("prio", 0)))
        rdict["sp%d_%d" % (uid, p)] = pt
        world["points"].append(pt)
        comps.append(pt)
    registry = type("Registry%d" % uid, (SpecSet,), rdict)
    setattr(mod, registry.__name__, registry)
    world["classes"].append(registry)

    def define_set(si):
        s = case["sets"][si]
        sdict = {"__module__": modname}
        for im in s:
            p = im["point"]

            def body(broker, si=si, p=p, out=im["out"]):
                log.append(["i", si, p])
                _raise(out, "impl s%d p%d" % (si, p))
                return _value("v|s%d|p%d" % (si, p), out)
            body.__name__ = body.__qualname__ = "impl%d_%d_%d" % (uid, si, p)
            body.__module__ = modname
            comp = datasource(*deps_of(im))(body)
            sdict["sp%d_%d" % (uid, p)] = comp
            world["impls"][(si, p)] = comp
            comps.append(comp)
        cls = type("Set%d_%d" % (uid, si), (registry,), sdict)
        setattr(mod, cls.__name__, cls)
        world["classes"].append(cls)

    def define_parsers():
        for p, pt in enumerate(world["points"]):
            def pbody(value, p=p):
                parsed.append([p, value])
                return ["parsed", p, value]
            pbody.__name__ = pbody.__qualname__ = "parser%d_%d" % (uid, p)
            pbody.__module__ = modname
            setattr(mod, pbody.__name__, pbody)
            comp = parser(pt)(pbody)
            world["parsers"].append(comp)
            comps.append(comp)

    world["define_set"] = define_set
    world["define_parsers"] = define_parsers
    return world


def check_world(case):
    from insights.core import dr
    _validate(case)
    uid = next(_counter)
    log = []
    parsed = []
    world = None
    labels = set()
    nontrivial = False
    try:
        world = _build(case, uid, log, parsed)
        ctxs, points, impls, parsers = world["ctxs"], world["points"], world["impls"], world["parsers"]
        # "every sequence of spec-set definitions": a spec set may be defined after an evaluation has
        # already taken place (plugins loaded later); eval_after lists the definitions after which the
        # world is evaluated before the next spec set is defined
        eval_after = sorted(set(k for k in case.get("eval_after", []) if k < len(case["sets"]) - 1))

        def evaluate(nsets):
            nontrivial_here = False
            for active in range(case["nctx"]):
                del log[:]
                del parsed[:]
                graph = {}
                for ps in parsers:
                    graph.update(dr.get_dependency_graph(ps))
                broker = dr.Broker()
                broker.store_skips = bool(case.get("store_skips"))
                broker[ctxs[active]] = ctxs[active]()
                if case.get("driver") == "run_all":
                    dr.run_all(dict(graph), broker=broker)
                else:
                    dr.run(dict(graph), broker=broker)
                calls = {}
                for e in log:
                    if e[0] == "i":
                        calls[(e[1], e[2])] = calls.get((e[1], e[2]), 0) + 1
                for m in model(dict(case, sets=case["sets"][:nsets]), active):
                    p = m["point"]
                    pt = points[p]
                    ctx = dict(active_context=active, point=p, latest=m["latest"],
                               calls=sorted([list(k), v] for k, v in calls.items()))
                    for sid in m["must_not_run"]:
                        key = (sid[0], sid[1])
                        what = sid[2]
                        if calls.get(key):
                            raise Violation("implementation of set %d for point %d (%s) was executed with "
                                            "context %d active" % (sid[0], p, what, active), **ctx)
                        if impls[key] in broker:
                            raise Violation("implementation of set %d for point %d has a value in the broker "
                                            "although it must not contribute under context %d" % (sid[0], p, active),
                                            **ctx)
                    if m["latest"] is not None:
                        n = calls.get((m["latest"][0], m["latest"][1]), 0)
                        if n != (1 if m["latest_runs"] else 0):
                            raise Violation("latest implementation for the active context (set %d, point %d) ran "
                                            "%d time(s), expected %d" % (m["latest"][0], p, n, 1 if m["latest_runs"] else 0),
                                            **ctx)
                    seen = [v for (pp, v) in parsed if pp == p]
                    if m["mode"] == "value":
                        if pt not in broker:
                            raise Violation("point %d is absent under context %d although its latest implementation "
                                            "(set %d) produced a value" % (p, active, m["latest"][0]), expected=m["value"], **ctx)
                        if broker[pt] != m["value"]:
                            raise Violation("point %d holds %r under context %d, the latest implementation for that "
                                            "context (set %d) produced %r" % (p, broker[pt], active, m["latest"][0], m["value"]),
                                            **ctx)
                        want_seen = m["value"] if isinstance(m["value"], list) else [m["value"]]
                        if seen != want_seen:
                            raise Violation("parser on point %d was handed %r, expected %r" % (p, seen, want_seen), **ctx)
                        if parsers[p] not in broker and want_seen:
                            # (an empty list hands the parser no element: it has nothing to parse)
                            raise Violation("parser on point %d has no value although the spec is present" % p, **ctx)
                    elif m["mode"] == "absent":
                        if pt in broker:
                            raise Violation("point %d holds %r under context %d although the latest implementation "
                                            "for that context yields nothing (or none is declared for it)"
                                            % (p, broker[pt], active), **ctx)
                        if seen or parsers[p] in broker:
                            raise Violation("parser on point %d fired although the spec is absent" % p, seen=seen, **ctx)
                    else:
                        labels.add("value-unasserted(context-free impl)")
                        # still: the parser sees what the point holds, nothing else
                        if pt in broker:
                            v = broker[pt]
                            if seen != (v if isinstance(v, list) else [v]):
                                raise Violation("parser on point %d was handed %r but the point holds %r" % (p, seen, v), **ctx)
                        elif seen:
                            raise Violation("parser on point %d fired although the spec is absent" % p, seen=seen, **ctx)
                    # labels / non-triviality
                    labels.add("impls=%s" % (m["n_impls"] if m["n_impls"] < 4 else "4+"))
                    labels.add("cands=%s" % (m["n_cands"] if m["n_cands"] < 3 else "3+"))
                    if m["n_cands"] >= 2:
                        labels.add("override")
                    if m["mixed"] and m["n_cands"] >= 2:
                        labels.add("override+multi-context-declaration")
                    if m["n_cands"] >= 2 and m["mode"] == "absent":
                        labels.add("override+latest-yields-nothing")
                    if m["latest"] is not None and not m["latest_runs"]:
                        labels.add("latest-unmet-deps")
                    if m["n_free"]:
                        labels.add("has-context-free-impl")
                        if m["mode"] == "value" and m["n_cands"]:
                            labels.add("declared-beats-earlier-context-free")
                    if m["n_impls"] >= 3 and m["n_cands"] >= 2 and (m["mixed"] or m["mode"] == "absent"):
                        nontrivial_here = True
            return nontrivial_here

        if eval_after:
            world["define_parsers"]()
        for si in range(len(case["sets"])):
            world["define_set"](si)
            if si in eval_after:
                nontrivial = evaluate(si + 1) or nontrivial
                labels.add("evaluated-between-definitions")
        if not eval_after:
            world["define_parsers"]()
        nontrivial = evaluate(len(case["sets"])) or nontrivial
        labels.add("driver=%s" % case.get("driver", "run"))
    finally:
        if world is not None:
            _cleanup(world["comps"], world["ctxs"], world["modname"])
    return {"nontrivial": nontrivial, "labels": sorted(labels)}


# ------------------------------------------------------------------------------------------------
# generator

@st.composite
def _world(draw, tier):
    nctx = draw(st.sampled_from([3, 3, 4]))
    focus = draw(st.integers(0, nctx - 1))
    ctx_idx = st.one_of(st.just(focus), st.integers(0, nctx - 1))

    def ctx_list():
        return draw(st.lists(ctx_idx, min_size=2, max_size=3, unique=True))

    helpers = []
    for j in range(draw(st.integers(0, 3))):
        kind = draw(st.sampled_from(["one", "one", "any", "via", "free"]))
        if kind == "via" and j == 0:
            kind = "one"
        h = {"req": [], "grp": [], "out": draw(st.sampled_from(["ok", "ok", "ok", "skip", "content"]))}
        if kind == "one":
            h["req"] = ["c%d" % draw(ctx_idx)]
        elif kind == "any":
            h["grp"] = ["c%d" % c for c in ctx_list()]
        elif kind == "via":
            h["req"] = ["h%d" % draw(st.integers(0, j - 1))]
        helpers.append(h)
    npoints = draw(st.sampled_from([1, 1, 2, 3]))
    points = [{"multi_output": draw(st.booleans()), "raw": draw(st.booleans()),
               "filterable": draw(st.booleans()), "no_redact": draw(st.booleans()),
               "prio": draw(st.sampled_from([0, 0, 1, 5]))} for _ in range(npoints)]
    kinds = ["one", "one", "one", "any", "any"]
    if helpers:
        kinds += ["via", "via", "ctx+via"]
    sets = []
    for si in range(draw(st.integers(1, 6))):
        s = []
        for p in range(npoints):
            if not draw(st.sampled_from([True, True, True, False])):
                continue
            kind = draw(st.sampled_from(kinds))
            im = {"point": p, "req": [], "grp": [], "out": draw(st.sampled_from(OUTS))}
            if kind == "one":
                im["req"] = ["c%d" % draw(ctx_idx)]
            elif kind == "any":
                im["grp"] = ["c%d" % c for c in ctx_list()]
            elif kind == "via":
                im["req"] = ["h%d" % draw(st.integers(0, len(helpers) - 1))]
            else:
                im["req"] = ["c%d" % draw(ctx_idx), "h%d" % draw(st.integers(0, len(helpers) - 1))]
            s.append(im)
        sets.append(s)
    case = {"nctx": nctx, "points": points, "helpers": helpers, "sets": sets,
            "store_skips": draw(st.booleans()), "driver": draw(st.sampled_from(["run", "run", "run_all"]))}
    if len(sets) >= 2 and draw(st.integers(0, 2)) == 0:
        # evaluate between definitions (a spec set defined after an evaluation already happened)
        case["eval_after"] = sorted(draw(st.sets(st.integers(0, len(sets) - 2), min_size=1, max_size=2)))
    return case


def strat_world(tier):
    return _world(tier)



# ------------------------------------------------------------------------------------------------
# shipped spec sets: the same rule over the repository's own registry (finite enumeration)

SHIPPED_MODULES = ["insights.specs.default", "insights.specs.insights_archive", "insights.specs.sos_archive",
                   "insights.specs.core3_archive", "insights.specs.jdr_archive"]
_shipped = {}


def _is_ctx(c):
    from insights.core.context import ExecutionContext
    try:
        return issubclass(c, ExecutionContext)
    except TypeError:
        return False


def _shipped_world():
    """imports the shipped spec modules once per process; -> dict(points, impl_of, contexts)"""
    if _shipped:
        return _shipped
    import importlib
    from insights.core import dr
    for m in SHIPPED_MODULES:
        importlib.import_module(m)
    from insights.specs import Specs
    points = dict(Specs.registry)
    order = {}     # point name -> implementations in registration order
    # registration order is taken from the order in which the spec-set classes were defined (and, as
    # a cross-check, must agree with the order of the point's dependency list)
    classes = []

    def walk(cls):
        for sub in cls.__subclasses__():
            classes.append(sub)
            walk(sub)
    walk(Specs)
    for cls in classes:
        for name in points:
            if name in cls.__dict__:
                v = cls.__dict__[name]
                v = getattr(v, "func", v)
                if dr.get_delegate(v) is not None and v is not points[name]:
                    order.setdefault(name, []).append(v)
    _shipped.update(points=points, order=order, Specs=Specs)
    return _shipped


def _deps_decl(c):
    """(required, groups) as declared, read from the delegate's declaration (not from dr's helpers)"""
    from insights.core import dr
    d = dr.get_delegate(c)
    if d is None:
        return [], []
    return list(d.requires), [list(g) for g in d.at_least_one]


def _decl_ctx(c, memo):
    if c in memo:
        return memo[c]
    memo[c] = set()
    out = set()
    from insights.core import dr
    d = dr.get_delegate(c)
    if d is not None:
        for x in d.get_dependencies():
            if _is_ctx(x):
                out.add(x)
            else:
                out |= _decl_ctx(x, memo)
    memo[c] = out
    return out


def shipped_cases(tier):
    w = _shipped_world()
    memo = {}
    ctxs = set()
    for name, impls in w["order"].items():
        for im in impls:
            ctxs |= _decl_ctx(im, memo)
    from insights.core import dr
    names = sorted(dr.get_name(c) for c in ctxs)
    for pname in sorted(w["points"]):
        for cname in names:
            yield {"point": pname, "context": cname}


def check_shipped(case):
    from insights.core import dr
    from insights.core.spec_factory import RegistryPoint
    w = _shipped_world()
    points, order = w["points"], w["order"]
    if case["point"] not in points:
        raise HarnessError("no shipped registry point %r" % case["point"])
    P = points[case["point"]]
    C = dr.get_component(case["context"])
    if C is None or not _is_ctx(C):
        raise HarnessError("no execution context %r" % case["context"])
    memo = {}
    impl_point = {}
    for name, impls in order.items():
        for im in impls:
            impl_point[im] = name
    graph = dr.get_dependency_graph(P)

    # cross-check of the harness's notion of registration order with the registry's own dependency list
    # (same members; a disagreement is a harness problem, not a violation)
    deps_now = [d for d in dr.get_delegate(P).deps]
    mine = order.get(case["point"], [])
    if set(deps_now) != set(mine):
        raise HarnessError("harness cannot reconstruct the implementations of %s" % case["point"])

    def cands_of(name):
        return [im for im in order.get(name, []) if C in _decl_ctx(im, memo)]

    has = {}

    def value(c):
        if c in has:
            return has[c]
        has[c] = False
        if _is_ctx(c):
            r = c is C
        elif isinstance(c, RegistryPoint):
            cs = cands_of(c.__name__)
            r = bool(cs) and runs(cs[-1])
        else:
            r = runs(c)
        has[c] = r
        return r

    def runs(c):
        if dr.get_delegate(c) is None:
            return False
        req, grp = _deps_decl(c)
        if not all(value(x) for x in req):
            return False
        if any(not any(value(x) for x in g) for g in grp):
            return False
        name = impl_point.get(c)
        if name is not None and C in _decl_ctx(c, memo):
            cs = cands_of(name)
            if cs and cs[-1] is not c:
                return False        # registered earlier for the active context
        return True

    # stubs: nothing of the shipped datasources' own code runs (no file is read, no command executed)
    calls = []
    patched = []
    try:
        for comp in graph:
            if _is_ctx(comp) or isinstance(comp, RegistryPoint):
                continue
            d = dr.get_delegate(comp)
            if d is None:
                continue

            def stub(broker, comp=comp):
                calls.append(comp)
                return ("stub", dr.get_name(comp))
            d.invoke = stub
            patched.append(d)
        broker = dr.Broker()
        broker[C] = C()
        dr.run(dict(graph), broker=broker)
    finally:
        for d in patched:
            try:
                del d.invoke
            except AttributeError:
                pass
    impls = order.get(case["point"], [])
    cs = cands_of(case["point"])
    ctx = dict(point=case["point"], context=case["context"], implementations=[dr.get_name(i) for i in impls],
               declared_for_active=[dr.get_name(i) for i in cs], executed=[dr.get_name(c) for c in calls if c in impls])
    for im in impls:
        d = _decl_ctx(im, memo)
        n = calls.count(im)
        if im in cs[:-1] and n:
            raise Violation("shipped implementation %s, registered earlier for the active context than %s, was executed"
                            % (dr.get_name(im), dr.get_name(cs[-1])), **ctx)
        if d and C not in d and (n or im in broker):
            raise Violation("shipped implementation %s is declared only for other contexts but was executed / has a value"
                            % dr.get_name(im), **ctx)
        if n > 1:
            raise Violation("shipped implementation %s was executed %d times" % (dr.get_name(im), n), **ctx)
    free = [im for im in impls if not _decl_ctx(im, memo)]
    labels = ["impls=%s" % (len(impls) if len(impls) < 3 else "3+"), "cands=%s" % (len(cs) if len(cs) < 3 else "3+")]
    if free:
        labels.append("has-context-free-impl(unasserted)")
    elif cs:
        L = cs[-1]
        want = runs(L)
        if bool(calls.count(L)) != want:
            raise Violation("latest shipped implementation for the active context, %s, %s" % (
                dr.get_name(L), "was not executed although its requirements are met" if want else
                "was executed although its requirements are not met"), **ctx)
        if want:
            if P not in broker or broker[P] != ("stub", dr.get_name(L)):
                raise Violation("spec %s does not hold the value of its latest implementation for the active context (%s): %r"
                                % (case["point"], dr.get_name(L), broker.get(P)), **ctx)
        elif P in broker:
            raise Violation("spec %s holds %r although its latest implementation for the active context yields nothing"
                            % (case["point"], broker.get(P)), **ctx)
    elif P in broker:
        raise Violation("spec %s holds %r although no implementation is declared for the active context"
                        % (case["point"], broker.get(P)), **ctx)
    via = any(not any(_is_ctx(x) for x in dr.get_delegate(im).get_dependencies()) for im in cs)
    if via:
        labels.append("context-through-another-datasource")
    if len(cs) >= 2:
        labels.append("override")
    return {"nontrivial": len(cs) >= 2 or (bool(cs) and via), "labels": labels}


SUBS = [
    Sub("shipped", check_shipped, enumerate=shipped_cases, workers_quick=4, workers_thorough=8, budget_quick=60,
        budget_thorough=300),
    Sub("spec_sets", check_world, strategy=strat_world, quick=3000, thorough=12000, workers_quick=2,
        workers_thorough=16, budget_quick=50, budget_thorough=540),
]


def _im(point, req=(), grp=(), out="ok"):
    return {"point": point, "req": list(req), "grp": list(grp), "out": out}


REGRESSIONS = [
    # A for [c0|c1], B for c0, C for c0 failing, D for c2: under c0 the spec is absent and A, B silent
    Reg("three-overrides-latest-fails", "spec_sets",
        {"nctx": 3, "points": [{"multi_output": False}], "helpers": [],
         "sets": [[_im(0, grp=["c0", "c1"])], [_im(0, req=["c0"])], [_im(0, req=["c0"], out="content")],
                  [_im(0, req=["c2"])]], "store_skips": False, "driver": "run"}),
    Reg("through-helper-chain", "spec_sets",
        {"nctx": 3, "points": [{"filterable": True}, {"multi_output": True, "prio": 5}],
         "helpers": [{"req": [], "grp": ["c0", "c2"], "out": "ok"}, {"req": ["h0"], "grp": [], "out": "ok"},
                     {"req": ["c1"], "grp": [], "out": "skip"}],
         "sets": [[_im(0, req=["c0"]), _im(1, req=["c1"], out="list")],
                  [_im(0, req=["h1"], out="list"), _im(1, req=["h2"])],
                  [_im(0, req=["c2", "h0"], out="crash"), _im(1, grp=["c0", "c1"], out="timeout")],
                  [_im(1, req=["c0"])]],
         "store_skips": True, "driver": "run_all"}),
    Reg("context-free-earlier", "spec_sets",
        {"nctx": 3, "points": [{}], "helpers": [{"req": [], "grp": [], "out": "ok"}],
         "sets": [[_im(0, req=["h0"])], [_im(0, req=["c1"])], [_im(0, req=["c1"], out="list")]],
         "store_skips": False, "driver": "run"}),
]
