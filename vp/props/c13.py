"""C13 - package version comparison is RPM's ordering.

Oracle: an independent, index-based transliteration of rpmvercmp.c over UTF-8 bytes (ASCII-only
character classes), validated against RPM's own table in the repository's test file before use.
Laws on the code under test: reflexive, antisymmetric, transitive (total preorder), operators of
InstalledRpm agree with the three-way result, newest/oldest return a maximum/minimum."""
import itertools
import json
import os
import re

from hypothesis import strategies as st

from vp.core import Sub, Reg, Violation, REPO

PROPERTY = "C13"
RULE = ("(a) exhaustive: every ordered pair of strings of length <= L over the alphabet "
        "{0,1,9,a,B,.,-,~,^,e-acute} (quick L=3 incl. all triples via bit-set transitivity; thorough "
        "L=4 pairs); (b) random long strings built from segments (digit runs with leading zeros, "
        "alpha runs, separators, tilde/caret, non-ASCII) and single-segment mutation pairs; "
        "(c) epoch/version/release triples through InstalledRpm operators and package lists through "
        "InstalledRpms.newest/oldest; (d) non-ASCII characters of every kind (decimal digits of other "
        "scripts, other numerics, cased letters with ASCII case mappings, marks, spaces, look-alikes of "
        ". ~ ^ -) in a second exhaustive alphabet, as look-alike substitutions in dotted-number shaped "
        "random strings and inside EVR fields; (e) comparison histories: bursts of comparisons of one "
        "package against several others where every operand is a long-lived object or a temporary built "
        "inside the expression (dict / from_package / from_json), interleaved with look-ups and builtin "
        "max/min/sorted. Non-trivial: the two strings differ and share a non-empty common "
        "prefix, or contain ~ or ^, or a digit run with a leading zero; distinct by the pair itself.")
ASSUMPTIONS = [
    "reference comparator = harness transliteration of rpmvercmp.c (validated against the RPM table "
    "rows carried by insights/tests/parsers/test_rpm_vercmp.py); no rpm binary exists in the sandbox",
    "epochs are non-negative integer strings or '(none)'",
]

ALPHA_Q = ["0", "1", "9", "a", "B", ".", "-", "~", "^", u"é"]
ALPHA_T = ["0", "1", "9", "a", "B", ".", "~", "^", u"é"]
# second exhaustive alphabet: "non-ASCII characters" are not only accented letters.  One representative of
# the kinds that Python's str methods / the re module treat like ASCII characters although rpmvercmp sees
# a mere separator: a decimal digit of another script (FULLWIDTH DIGIT ONE, ARABIC-INDIC DIGIT THREE), a
# letter whose lower() is ASCII (KELVIN SIGN), the look-alike of a marker (FULLWIDTH TILDE).
ALPHA_U = ["0", "1", ".", u"\uff11", u"\u0663", u"\u212a", u"\uff5e"]
ALPHA_U_LEN = {"quick": 3, "thorough": 4}


def ref(a, b):
    """index-based transliteration of rpmvercmp.c over utf-8 bytes"""
    if a == b:
        return 0
    A = a.encode("utf-8")
    B = b.encode("utf-8")

    def isdig(c):
        return 48 <= c <= 57

    def isalp(c):
        return 65 <= c <= 90 or 97 <= c <= 122

    def isaln(c):
        return isdig(c) or isalp(c)

    i = j = 0
    na, nb = len(A), len(B)
    while i < na or j < nb:
        while i < na and not isaln(A[i]) and A[i] not in b"~^":
            i += 1
        while j < nb and not isaln(B[j]) and B[j] not in b"~^":
            j += 1
        ca = A[i] if i < na else 0
        cb = B[j] if j < nb else 0
        if ca == 126 or cb == 126:
            if ca != 126:
                return 1
            if cb != 126:
                return -1
            i += 1
            j += 1
            continue
        if ca == 94 or cb == 94:
            if not ca:
                return -1
            if not cb:
                return 1
            if ca != 94:
                return 1
            if cb != 94:
                return -1
            i += 1
            j += 1
            continue
        if not (ca and cb):
            break
        p, q = i, j
        if isdig(A[p]):
            while p < na and isdig(A[p]):
                p += 1
            while q < nb and isdig(B[q]):
                q += 1
            isnum = True
        else:
            while p < na and isalp(A[p]):
                p += 1
            while q < nb and isalp(B[q]):
                q += 1
            isnum = False
        if p == i:
            return -1
        if q == j:
            return 1 if isnum else -1
        sa, sb = A[i:p], B[j:q]
        if isnum:
            sa = sa.lstrip(b"0")
            sb = sb.lstrip(b"0")
            if len(sa) > len(sb):
                return 1
            if len(sb) > len(sa):
                return -1
        if sa != sb:
            return -1 if sa < sb else 1
        i, j = p, q
    if i >= na and j >= nb:
        return 0
    return -1 if i >= na else 1


def selftest():
    src = open(os.path.join(REPO, "insights/tests/parsers/test_rpm_vercmp.py")).read()
    rows = re.findall(r'RPMVERCMP\(([^,]+),\s*([^,]+),\s*(-?\d)\)', src)
    if len(rows) < 80:
        # the table moved: fall back to a built-in extract of rpmvercmp.at
        rows = [("1.0", "1.0", "0"), ("1.0", "2.0", "-1"), ("2.0.1", "2.0", "1"), ("5.5p1", "5.5p2", "-1"),
                ("10xyz", "10.1xyz", "-1"), ("xyz10", "xyz10.1", "-1"), ("1.0~rc1", "1.0", "-1"),
                ("1.0^", "1.0", "1"), ("1.0^git1~pre", "1.0^git1", "-1"), ("2_0", "2.0", "0"),
                ("a", "1", "-1"), ("1.0^~", "1.0", "1"), ("1e.fc33", "1.fc33", "-1"), ("1g.fc33", "1.fc33", "1")]
    for a, b, e in rows:
        a, b = a.strip(), b.strip()
        assert ref(a, b) == int(e), ("reference comparator disagrees with RPM table", a, b, e)
    assert ref(u"1.1.α", u"1.1.β") == 0 and ref(u"1.1.αa", u"1.1.βb") == -1


def _nontrivial(a, b):
    if a == b:
        return False
    if "~" in a + b or "^" in a + b:
        return True
    if a and b and a[0] == b[0]:
        return True
    return bool(re.search(r"(?<![0-9])0[0-9]", a + " " + b))


def _sign(x):
    return (x > 0) - (x < 0)


_RE_DOTTED_ANY = re.compile(r"\d+(?:[.\uff0e]\d+)*\Z")      # \d: the decimal digits of every script


def _na_labels(a, b):
    """which kinds of non-ASCII characters the pair carries (evidence only)"""
    both = a + b
    if both.isascii():
        return []
    import unicodedata
    out = set(["non-ascii"])
    for c in both:
        if ord(c) > 127:
            cat = unicodedata.category(c)
            out.add("non-ascii:" + ("digit" if cat == "Nd" else "numeric" if cat in ("No", "Nl") else
                                    "letter" if cat[0] == "L" else "mark/format" if cat[0] in "MC" else
                                    "space" if cat[0] == "Z" else "punct/symbol"))
    if _RE_DOTTED_ANY.match(a) and _RE_DOTTED_ANY.match(b) and a != b:
        out.add("non-ascii:both-dotted-numbers-to-a-lenient-reader")
    return sorted(out)


def check_pair(case):
    from insights.parsers.rpm_vercmp import _rpm_vercmp
    if "c" in case:
        return check_triple(case)
    a, b = case["a"], case["b"]
    r = _rpm_vercmp(a, b)
    if r not in (-1, 0, 1):
        raise Violation("comparison returned %r, not one of -1/0/1" % (r,), a=a, b=b)
    e = ref(a, b)
    if r != e:
        raise Violation("vercmp(%r, %r) = %d but RPM's algorithm gives %d" % (a, b, r, e), a=a, b=b)
    r2 = _rpm_vercmp(b, a)
    if r2 != -r:
        raise Violation("antisymmetry: vercmp(a,b)=%d but vercmp(b,a)=%d" % (r, r2), a=a, b=b)
    if _rpm_vercmp(a, a) != 0 or _rpm_vercmp(b, b) != 0:
        raise Violation("reflexivity: vercmp(x,x) != 0", a=a, b=b)
    return {"nontrivial": _nontrivial(a, b),
            "labels": ["result=%d" % r] + (["tilde/caret"] if ("~" in a + b or "^" in a + b) else []) + _na_labels(a, b)}


def check_triple(case):
    from insights.parsers.rpm_vercmp import _rpm_vercmp
    a, b, c = case["a"], case["b"], case["c"]
    if _rpm_vercmp(a, b) <= 0 and _rpm_vercmp(b, c) <= 0 and not _rpm_vercmp(a, c) <= 0:
        raise Violation("transitivity: a<=b and b<=c but not a<=c", a=a, b=b, c=c)
    return {"nontrivial": len(set([a, b, c])) == 3, "labels": ["triple"]}


def _strings(alpha, L):
    return ["".join(p) for n in range(0, L + 1) for p in itertools.product(alpha, repeat=n)]


def exhaustive_pairs(tier, seed, shard, nshards, stats):
    """All ordered pairs over the bounded alphabet (rows sharded); on shard 0 additionally all
    triples over the quick alphabet via bit-set transitivity."""
    from insights.parsers.rpm_vercmp import _rpm_vercmp
    from vp.core import case_hash
    if tier == "quick":
        strs = _strings(ALPHA_Q, 3)
    else:
        strs = _strings(ALPHA_T, 4)
    n_nt = 0
    ustrs = _strings(ALPHA_U, ALPHA_U_LEN[tier])
    for tab in (strs, ustrs):
        # second pass: all ordered pairs over the non-ASCII alphabet
        for ia in range(shard, len(tab), nshards):
            a = tab[ia]
            for b in tab:
                r = _rpm_vercmp(a, b)
                if r != ref(a, b) or (r not in (-1, 0, 1)):
                    stats.evaluations += 1
                    stats.failure = ({"a": a, "b": b}, "differential mismatch", {})
                    return
                if _nontrivial(a, b):
                    n_nt += 1
            stats.evaluations += len(tab)
    stats.extra["strings_non_ascii_alphabet"] = len(ustrs)
    # distinct non-trivial pairs are counted exactly (each ordered pair is visited once); only a
    # sample of their hashes is kept so that the merge stays small
    stats.extra["exhaustive_pairs_nontrivial"] = n_nt
    for ia in range(shard, len(strs), nshards * 37):
        a = strs[ia]
        for b in strs[ia % 11::97]:
            if _nontrivial(a, b):
                stats.nontrivial.add(case_hash({"a": a, "b": b}))
                if len(stats.samples) < 2:
                    stats.samples.append({"a": a, "b": b, "cmp": _rpm_vercmp(a, b)})
    stats.extra["strings"] = len(strs)
    stats.exhaustive = True
    if shard != 0:
        return
    # antisymmetry + transitivity over the quick alphabet (whole table needed -> one shard)
    strs = _strings(ALPHA_Q, 3)
    idx = dict((s, i) for i, s in enumerate(strs))
    table = {}
    rows_le = []
    for x in strs:
        m = 0
        for y in strs:
            r = _rpm_vercmp(x, y)
            table[(x, y)] = r
            if r <= 0:
                m |= 1 << idx[y]
        rows_le.append(m)
    for x in strs:
        if table[(x, x)] != 0:
            stats.failure = ({"a": x, "b": x}, "reflexivity", {})
            return
        for y in strs:
            if table[(x, y)] != -table[(y, x)]:
                stats.failure = ({"a": x, "b": y}, "antisymmetry", {})
                return
    triples = 0
    for a, x in enumerate(strs):
        ra = rows_le[a]
        m = ra
        b = 0
        while m:
            if m & 1:
                bad = rows_le[b] & ~ra
                if bad:
                    c = bad.bit_length() - 1
                    stats.failure = ({"a": x, "b": strs[b], "c": strs[c]}, "transitivity", {})
                    return
            m >>= 1
            b += 1
        triples += len(strs) * len(strs)
    stats.extra["triples_decided"] = triples
    stats.evaluations += len(strs) * len(strs)


# ---- random long strings ---------------------------------------------------------------------

_digits = st.one_of(
    st.text("0123456789", min_size=1, max_size=4),
    st.builds(lambda z, d: "0" * z + d, st.integers(1, 3), st.text("0123456789", min_size=0, max_size=3)),
    st.text("0123456789", min_size=18, max_size=26),
)
_alpha = st.text("abzABZelrcfgit", min_size=1, max_size=5)
_sep = st.sampled_from([".", "-", "_", "+", "..", ".-", u"é", u"α", u"中", " ", ":", "/"])
_mark = st.sampled_from(["~", "^", "~~", "^^", "~^", "^~"])
# Non-ASCII characters by kind.  rpmvercmp knows the ASCII digits and letters only; every one of these is a mere
# separator, whatever Python's str.isdigit/isalpha/lower/upper, int(), the re module or a Unicode normalisation
# make of it.
NA_DIGITS = [u"\uff10", u"\uff11", u"\uff12", u"\uff19", u"\u0660", u"\u0663", u"\u06f5", u"\u096d",
             u"\u0e52", u"\U0001d7cf", u"\U0001d7d8"]                       # category Nd, several scripts
NA_NUMERIC = [u"\u00b2", u"\u00b9", u"\u00bd", u"\u2163", u"\u2460", u"\u2082", u"\u4e09", u"\u3007"]  # No / Nl / Lo
NA_LETTERS = [u"\u00e9", u"\u03b1", u"\u4e2d", u"\u00df", u"\u0130", u"\u0131", u"\u212a", u"\u017f",
              u"\uff41", u"\uff3a", u"\u00c5", u"\u212b", u"\ufb01", u"\U0001d41a"]   # incl. ASCII case mappings
NA_MARKS = [u"\u0301", u"\u200d", u"\ufe0f", u"\u00ad", u"\u200b", u"\ufeff"]
NA_SPACES = [u"\u00a0", u"\u2028", u"\u3000", u"\u0085", u"\u2009"]
NA_PUNCT = [u"\uff0e", u"\uff5e", u"\uff3e", u"\u2013", u"\uff0d", u"\u02c6", u"\u223c", u"\u00b7", u"\uff1a",
            u"\uff3f", u"\uff0b", u"\U0001f600"]                              # look-alikes of . ~ ^ - : _ +
_NA_SPLITTING = set(NA_SPACES)


def _lookalikes(c):
    """non-ASCII characters that a lenient implementation could mistake for the ASCII character `c`"""
    if "0" <= c <= "9":
        v = ord(c) - 48
        return [chr(0xff10 + v), chr(0x0660 + v), chr(0x06f0 + v), chr(0x0966 + v), chr(0x1d7ce + v)]
    if "a" <= c <= "z":
        return [chr(0xff41 + ord(c) - 97)] + ([u"\u212a"] if c == "k" else []) + ([u"\u017f"] if c == "s" else [])
    if "A" <= c <= "Z":
        return [chr(0xff21 + ord(c) - 65)] + ([u"\u212a"] if c == "K" else []) + ([u"\u212b"] if c == "A" else [])
    return {".": [u"\uff0e", u"\u00b7"], "~": [u"\uff5e", u"\u223c"], "^": [u"\uff3e", u"\u02c6"],
            "-": [u"\u2013", u"\uff0d"], "_": [u"\uff3f"], "+": [u"\uff0b"], ":": [u"\uff1a"]}.get(c, [u"\u00a0"])


_na_any = st.one_of(st.sampled_from(NA_DIGITS), st.sampled_from(NA_DIGITS + NA_NUMERIC),
                    st.sampled_from(NA_LETTERS + NA_MARKS + NA_SPACES + NA_PUNCT),
                    st.characters(min_codepoint=0x80, exclude_categories=["Cs"]))
_segment = st.one_of(_digits, _alpha, _sep, _mark, _digits, _alpha, _digits, _alpha, _na_any)
_verstr = st.lists(_segment, min_size=0, max_size=8)
_plain_num = st.one_of(st.integers(0, 30).map(str), st.integers(0, 400).map(str),
                       st.builds(lambda z, n: "0" * z + str(n), st.integers(1, 2), st.integers(0, 30)),
                       st.sampled_from(["20200609", "327", "1062"]))


@st.composite
def _dotted(draw):
    """the everyday shape of versions and releases: numbers joined by dots (as a list of segments)"""
    n = draw(st.integers(1, 4))
    out = []
    for k in range(n):
        if k:
            out.append(".")
        out.append(draw(_plain_num))
    return out


@st.composite
def _confuse(draw, text, must):
    """replace some characters of `text` by non-ASCII ones: mostly by a look-alike of the character they
    replace (same 'meaning' for a lenient reader, a separator for RPM), sometimes by any non-ASCII one"""
    if not text:
        return text
    chars = list(text)
    k = draw(st.integers(1 if must else 0, min(3, len(chars))))
    for _ in range(k):
        i = draw(st.integers(0, len(chars) - 1))
        if ord(chars[i][0]) > 127:
            continue
        chars[i] = draw(st.one_of(st.sampled_from(_lookalikes(chars[i])), st.sampled_from(_lookalikes(chars[i])),
                                  st.sampled_from(NA_DIGITS), _na_any))
    return "".join(chars)


@st.composite
def _pair(draw):
    shape = draw(st.sampled_from(["segments", "segments", "segments", "dotted", "dotted"]))
    seg = _verstr if shape == "segments" else _dotted()
    left = draw(seg)
    mode = draw(st.sampled_from(["independent", "mutate", "mutate", "equal-ish", "same"]))
    if mode == "independent":
        right = draw(seg)
    elif mode == "same":
        right = list(left)
    elif mode == "equal-ish":
        right = list(left)
        if right and draw(st.booleans()):
            i = draw(st.integers(0, len(right) - 1))
            seg = right[i]
            if seg.isdigit() and seg.isascii():
                right[i] = draw(st.sampled_from(["0" + seg, seg.lstrip("0") or "0", seg + "0"]))
            else:
                right[i] = draw(_sep) if not seg[0].isalnum() else seg.swapcase()
    else:
        right = list(left)
        op = draw(st.sampled_from(["ins", "del", "rep"]))
        new = draw(_segment if shape == "segments" else st.one_of(_plain_num, _plain_num, st.just("."), _segment))
        if op == "ins" or not right:
            right.insert(draw(st.integers(0, len(right))), new)
        elif op == "del":
            del right[draw(st.integers(0, len(right) - 1))]
        else:
            right[draw(st.integers(0, len(right) - 1))] = new
    a, b = "".join(left), "".join(right)
    # look-alike substitution: always for a copy, in every second dotted pair and every fourth segment pair
    if mode == "same" or draw(st.sampled_from([True, False] if shape == "dotted" else [True, False, False, False])):
        side = draw(st.sampled_from(["a", "b", "both"]))
        if side != "b":
            a = draw(_confuse(a, True))
        if side != "a":
            b = draw(_confuse(b, True))
    return {"a": a, "b": b}


def strat_pairs(tier):
    return st.one_of(_pair(), st.builds(lambda a, b: {"a": a, "b": b},
                                        st.text(max_size=6), st.text(max_size=6)))


# ---- EVR triples through InstalledRpm ----------------------------------------------------------

_epoch = st.sampled_from(["0", "1", "2", "10", "(none)", "00", "9", None])
# non-ASCII characters inside version / release fields: every kind except those that str.split() splits on (the
# parsers cut their input lines at white space, so such a field cannot come out of a package listing)
_na_field = st.one_of(st.sampled_from(NA_DIGITS), st.sampled_from(NA_NUMERIC + NA_LETTERS),
                      st.sampled_from(NA_PUNCT + NA_MARKS[:3]))
_ver_ascii = st.builds("".join, st.lists(st.one_of(_digits, _alpha, st.sampled_from([".", "_", "~", "^", "+"])),
                                         min_size=1, max_size=5))
_ver_seg = st.builds("".join, st.lists(st.one_of(_digits, _alpha, st.sampled_from([".", "_", "~", "^", "+"]), _na_field),
                                       min_size=1, max_size=5))


@st.composite
def _ver_dotted(draw):
    text = "".join(draw(_dotted()))
    if draw(st.booleans()):
        text += draw(st.sampled_from([".el7", ".el8_4", ".fc33", "~rc1", "^git1", "a", ".el7_9.1"]))
    if draw(st.sampled_from([True, False, False])):
        text = "".join(c for c in draw(_confuse(text, True)) if c not in _NA_SPLITTING and not c.isspace())
    return text or "0"


_ver = st.one_of(_ver_ascii, _ver_ascii, _ver_ascii, _ver_ascii, _ver_seg, _ver_dotted())


@st.composite
def _evr(draw):
    return {"epoch": draw(_epoch), "version": draw(_ver), "release": draw(_ver)}


@st.composite
def _evr_case(draw):
    base = draw(_evr())
    pk = [base]
    for _ in range(draw(st.integers(1, 5))):
        if draw(st.booleans()):
            other = dict(base)
            field = draw(st.sampled_from(["epoch", "version", "release"]))
            other[field] = draw(_epoch if field == "epoch" else _ver)
        else:
            other = draw(_evr())
        pk.append(other)
    return {"pkgs": pk, "via": draw(st.sampled_from(["dict", "json", "parser", "mixed-classes", "yumlist", "parser",
                                                     "package"]))}


def strat_evr(tier):
    return _evr_case()


def _ref_evr(x, y):
    ex = int(x["epoch"]) if x["epoch"] not in (None, "(none)") else 0
    ey = int(y["epoch"]) if y["epoch"] not in (None, "(none)") else 0
    if ex != ey:
        return -1 if ex < ey else 1
    r = ref(x["version"], y["version"])
    if r:
        return r
    return ref(x["release"], y["release"])


def _pkgstr(p):
    """`name-[epoch:]version-release.arch`, the documented argument of InstalledRpm.from_package (generated versions
    and releases carry neither '-' nor ':')"""
    return "pkg-%s%s-%s.x86_64" % ("" if p["epoch"] is None else p["epoch"] + ":", p["version"], p["release"])


def _dicts(pk):
    dicts = []
    for p in pk:
        d = {"name": "pkg", "version": p["version"], "release": p["release"], "arch": "x86_64"}
        if p["epoch"] is not None:
            d["epoch"] = p["epoch"]
        dicts.append(d)
    return dicts


def _build(via, pk):
    """the generated packages as objects of the code under test, in the generated order, through the entry
    point `via`; returns (objects, parser object or None)"""
    from insights.parsers.installed_rpms import InstalledRpm, InstalledRpms
    from insights.core.context import Context
    dicts = _dicts(pk)
    case = {"via": via}
    parser_obj = None
    if case["via"] == "mixed-classes":
        # packages from `rpm -qa` compared with the same-named packages from `yum list` (a subclass
        # with an extra attribute): the ordering is the same relation
        from insights.parsers.yum_list import YumListRpm
        objs = [(YumListRpm(dict(d, repo="r%d" % k)) if k % 2 else InstalledRpm(d)) for k, d in enumerate(dicts)]
    elif case["via"] == "dict":
        objs = [InstalledRpm(d) for d in dicts]
    elif case["via"] == "json":
        objs = [InstalledRpm.from_json(json.dumps(d)) for d in dicts]
    elif case["via"] == "package":
        objs = [InstalledRpm.from_package(_pkgstr(p)) for p in pk]
    else:
        if case["via"] == "yumlist":
            # another user of the same look-up interface: `yum list installed` rows (multilib: the same name
            # for two architectures), in the generated order
            from insights.parsers.yum_list import YumListInstalled
            rows = ["Loaded plugins: product-id, search-disabled-repos", "Installed Packages"]
            for k, p in enumerate(pk):
                ep = "" if p["epoch"] in (None, "(none)") else p["epoch"] + ":"
                rows.append("pkg.%s    %s%s-%s    @repo%d" % ("i686" if k % 3 == 2 else "x86_64", ep, p["version"],
                                                           p["release"], k))
            parser_obj = YumListInstalled(Context(content=rows, path="yum_list_installed"))
            unparsed = []
        else:
            parser_obj = InstalledRpms(Context(content=[json.dumps(d) for d in dicts], path="installed-rpms"))
            unparsed = parser_obj.unparsed
        parsed = parser_obj.packages.get("pkg", [])
        if len(parsed) != len(dicts) or unparsed:
            raise Violation("%s did not parse every package line" % type(parser_obj).__name__, lines=dicts,
                            unparsed=unparsed)
        # which generated package is which parsed object is read from the objects' own fields, not from their
        # position: the statement says nothing about the order in which a parser keeps its packages

        def ident(epoch, version, release):
            return (int(epoch) if epoch not in (None, "(none)") else 0, version, release)
        remaining = list(parsed)
        objs = []
        for p in pk:
            want = ident(p["epoch"], p["version"], p["release"])
            hit = [o for o in remaining if ident(getattr(o, "epoch", None), o.version, o.release) == want]
            if not hit:
                raise Violation("%s: no parsed package carries epoch/version/release %r" % (type(parser_obj).__name__, want),
                                lines=dicts)
            remaining.remove(hit[0])
            objs.append(hit[0])
    return objs, parser_obj


def check_evr(case):
    pk = case["pkgs"]
    objs, parser_obj = _build(case["via"], pk)
    n = len(objs)
    labels = set()
    for i in range(n):
        for j in range(n):
            x, y = objs[i], objs[j]
            e = _ref_evr(pk[i], pk[j])
            got = {"<": x < y, "==": x == y, ">": x > y, "<=": x <= y, ">=": x >= y, "!=": x != y}
            want = {"<": e < 0, "==": e == 0, ">": e > 0, "<=": e <= 0, ">=": e >= 0, "!=": e != 0}
            for op in got:
                if bool(got[op]) != want[op]:
                    raise Violation("InstalledRpm %s: %r %s %r is %r, RPM ordering says %r" % (
                        case["via"], pk[i], op, pk[j], got[op], want[op]), left=pk[i], right=pk[j], op=op)
            if sum(1 for op in ("<", "==", ">") if got[op]) != 1:
                raise Violation("not exactly one of older/equal/newer holds", left=pk[i], right=pk[j])
            labels.add("evr=%d" % e)
    if parser_obj is not None:
        mx, mn = parser_obj.newest("pkg"), parser_obj.oldest("pkg")
        if mx is not parser_obj.get_max("pkg") or mn is not parser_obj.get_min("pkg"):
            raise Violation("newest/oldest disagree with get_max/get_min")
        if parser_obj.newest("pkg") is not mx or parser_obj.oldest("pkg") is not mn:
            raise Violation("two identical newest/oldest look-ups return different objects")
        imx = [k for k in range(n) if objs[k] is mx]
        imn = [k for k in range(n) if objs[k] is mn]
        if not imx or not imn:
            raise Violation("newest/oldest returned an object that is not in the package list")
        for k in range(n):
            if _ref_evr(pk[k], pk[imx[0]]) > 0:
                raise Violation("newest() returned %r but %r is newer" % (pk[imx[0]], pk[k]), pkgs=pk)
            if _ref_evr(pk[k], pk[imn[0]]) < 0:
                raise Violation("oldest() returned %r but %r is older" % (pk[imn[0]], pk[k]), pkgs=pk)
        if parser_obj.newest("absent") is not None or parser_obj.oldest("absent") is not None:
            raise Violation("newest/oldest of an absent package is not None")
        labels.add("newest/oldest")
    distinct_epochs = len(set(int(p["epoch"]) if p["epoch"] not in (None, "(none)") else 0 for p in pk)) > 1
    nt = len(labels & set(["evr=-1", "evr=1"])) == 2 and (distinct_epochs or any(
        "~" in p["version"] + p["release"] or "^" in p["version"] + p["release"] for p in pk))
    return {"nontrivial": nt, "labels": sorted(labels) + ["via=" + case["via"]]}


# ---- comparison histories: long-lived objects, temporaries, look-ups in between ------------------------------

import operator as _operator     # noqa: E402

_OPF = {"<": _operator.lt, "<=": _operator.le, "==": _operator.eq, "!=": _operator.ne, ">=": _operator.ge,
        ">": _operator.gt}
_OPW = {"<": lambda e: e < 0, "<=": lambda e: e <= 0, "==": lambda e: e == 0, "!=": lambda e: e != 0,
        ">=": lambda e: e >= 0, ">": lambda e: e > 0}
_TEMP_HOW = ["dict", "package", "json", "yum"]


@st.composite
def _history_case(draw):
    """A rule or component holds a package object (from a parser look-up or built by itself) and tests it against
    several bounds one after the other; the bounds are objects kept in variables or temporaries written inside the
    expression (`rpm >= InstalledRpm.from_package(lo) and rpm < InstalledRpm.from_package(hi)`).  Generated as
    bursts: one fixed operand against 1-4 others with any operator, the fixed operand on either side; every operand
    is a long-lived slot or a temporary; between bursts a slot may be rebound to a new object (the old one dies),
    the parser is asked for newest/oldest, or the builtin max/min/sorted run over the live objects."""
    pk = draw(_evr_case())["pkgs"]
    n = len(pk)
    idx = st.integers(0, n - 1)
    ops_ = st.sampled_from(sorted(_OPF))

    def operand(p_live):
        return st.one_of(*([st.builds(lambda s: {"s": s}, idx)] * p_live +
                           [st.builds(lambda t, how: {"t": t, "how": how}, idx, st.sampled_from(_TEMP_HOW))] * (4 - p_live)))
    ops = []
    for _ in range(draw(st.integers(1, 6))):
        kind = draw(st.sampled_from(["burst"] * 6 + ["rebind", "lookup", "builtin"]))
        if kind == "burst":
            fixed = draw(operand(3))
            # a temporary written once per comparison is a new object each time
            side = draw(st.sampled_from(["l", "l", "r"]))
            for _ in range(draw(st.integers(1, 4))):
                other = draw(operand(1))
                ops.append({"k": "cmp", "op": draw(ops_), "l": fixed if side == "l" else other,
                            "r": other if side == "l" else fixed})
        elif kind == "rebind":
            ops.append({"k": "rebind", "s": draw(idx), "t": draw(idx), "how": draw(st.sampled_from(_TEMP_HOW))})
        elif kind == "lookup":
            ops.append({"k": draw(st.sampled_from(["newest", "oldest"]))})
        else:
            ops.append({"k": draw(st.sampled_from(["max", "min", "sorted"]))})
    return {"pkgs": pk, "live": draw(st.sampled_from(["parser", "parser", "dict", "package", "json", "mixed-classes",
                                                      "yumlist"])), "ops": ops}


def strat_history(tier):
    return _history_case()


def check_history(case):
    """every single answer in the history is RPM's answer for the two packages compared - whatever was compared
    before, whichever of the operands are long-lived and whichever died right after the previous comparison"""
    from insights.parsers.installed_rpms import InstalledRpm
    from insights.parsers.yum_list import YumListRpm
    pk = case["pkgs"]
    n = len(pk)
    slots, parser_obj = _build(case["live"], pk)
    slots = list(slots)
    held = list(range(n))                 # which generated package a slot holds now
    dicts = _dicts(pk)
    ydicts = [dict(d, repo="r") for d in dicts]
    jsons = [json.dumps(d) for d in dicts]
    strs = [_pkgstr(p) for p in pk]
    fresh = {"dict": lambda t: InstalledRpm(dicts[t]), "package": lambda t: InstalledRpm.from_package(strs[t]),
             "json": lambda t: InstalledRpm.from_json(jsons[t]), "yum": lambda t: YumListRpm(ydicts[t])}
    rel = [[_ref_evr(pk[i], pk[j]) for j in range(n)] for i in range(n)]

    def as_pk(o):
        return {"epoch": o.epoch, "version": o.version, "release": o.release}
    labels = set()
    prev = None
    for k, op in enumerate(case["ops"]):
        kind = op["k"]
        if kind == "cmp":
            lo, ro = op["l"], op["r"]
            li = held[lo["s"]] if "s" in lo else lo["t"]
            ri = held[ro["s"]] if "s" in ro else ro["t"]
            want = _OPW[op["op"]](rel[li][ri])
            # the temporaries exist only inside this expression
            got = _OPF[op["op"]](slots[lo["s"]] if "s" in lo else fresh[lo["how"]](li),
                                 slots[ro["s"]] if "s" in ro else fresh[ro["how"]](ri))
            if bool(got) is not want:
                raise Violation("step %d of a comparison history: %r %s %r is %r, RPM ordering says %r (%s operand %s "
                                "operand; live objects via %s)" % (
                                    k, pk[li], op["op"], pk[ri], got, want, "long-lived" if "s" in lo else "temporary",
                                    "long-lived" if "s" in ro else "temporary", case["live"]),
                                left=pk[li], right=pk[ri], op=op["op"], step=k)
            shape = ("L" if "s" in lo else "t") + ("L" if "s" in ro else "t")
            labels.add("cmp:" + shape)
            if prev is not None and prev[0] == (lo if "s" in lo else None) and "s" in lo and "t" in ro and prev[2] and \
                    prev[1] != ri:
                labels.add("same-long-lived-left:two-different-temporaries-in-a-row")
            if prev is not None and prev[0] == (lo if "s" in lo else None) and "s" in lo and prev[1] != ri:
                labels.add("same-long-lived-left:different-right-in-a-row")
            prev = (lo if "s" in lo else None, ri, "t" in ro)
            continue
        prev = None
        if kind == "rebind":
            slots[op["s"]] = None                      # the old object dies first, as with `x = make()` in a loop body
            slots[op["s"]] = fresh[op["how"]](op["t"])
            held[op["s"]] = op["t"]
            labels.add("rebind")
        elif kind in ("newest", "oldest"):
            if parser_obj is None:
                continue
            o = getattr(parser_obj, kind)("pkg")
            if not any(o is x for x in parser_obj.packages["pkg"]):
                raise Violation("%s returned an object that is not in the package list" % kind)
            me = as_pk(o)
            for q in pk:
                e = _ref_evr(q, me)
                if (e > 0 and kind == "newest") or (e < 0 and kind == "oldest"):
                    raise Violation("step %d of a comparison history: %s() returned %r but %r is %s" % (
                        k, kind, me, q, "newer" if kind == "newest" else "older"), pkgs=pk)
            labels.add("lookup")
        else:
            if kind == "sorted":
                out = sorted(slots)
                if sorted(id(x) for x in out) != sorted(id(x) for x in slots):
                    raise Violation("sorted() lost or duplicated a package")
                for x, y in zip(out, out[1:]):
                    if _ref_evr(as_pk(x), as_pk(y)) > 0:
                        raise Violation("step %d of a comparison history: sorted() puts %r before %r, which is older" % (
                            k, as_pk(x), as_pk(y)), pkgs=[pk[h] for h in held])
            else:
                o = (max if kind == "max" else min)(slots)
                me = as_pk(o)
                for h in held:
                    e = _ref_evr(pk[h], me)
                    if (e > 0 and kind == "max") or (e < 0 and kind == "min"):
                        raise Violation("step %d of a comparison history: builtin %s() over the packages returned %r "
                                        "but %r is %s" % (k, kind, me, pk[h], "newer" if kind == "max" else "older"),
                                        pkgs=[pk[x] for x in held])
            labels.add("builtin-" + kind)
    ncmp = sum(1 for op in case["ops"] if op["k"] == "cmp")
    labels.add("live=" + case["live"])
    return {"nontrivial": "same-long-lived-left:different-right-in-a-row" in labels or
            ("cmp:Lt" in labels and ncmp >= 3), "labels": sorted(labels)}


# ---- coverage-guided fuzzing (Atheris) over the same differential oracle -------------------------

_FUZZ_ALPHABET = list(u"0123456789abzABZrcelp.-_+~^ :/") + [u"\u00e9", u"\u03b1", u"\u4e2d", "00", "~~", "^~", "..",
                                                                 u"\uff11", u"\u0663", u"\u096d", u"\u00b2", u"\u212a",
                                                                 u"\uff5e", u"\uff3e", u"\uff0e"]


def fuzz_decode(fdp):
    n = fdp.ConsumeIntInRange(0, 20)
    a = "".join(_FUZZ_ALPHABET[fdp.ConsumeIntInRange(0, len(_FUZZ_ALPHABET) - 1)] for _ in range(n))
    mode = fdp.ConsumeIntInRange(0, 3)
    if mode == 0:
        m = fdp.ConsumeIntInRange(0, 20)
        b = "".join(_FUZZ_ALPHABET[fdp.ConsumeIntInRange(0, len(_FUZZ_ALPHABET) - 1)] for _ in range(m))
    else:
        # mutate a: splice / delete / insert at a position
        i = fdp.ConsumeIntInRange(0, len(a))
        j = fdp.ConsumeIntInRange(i, len(a))
        ins = "".join(_FUZZ_ALPHABET[fdp.ConsumeIntInRange(0, len(_FUZZ_ALPHABET) - 1)]
                      for _ in range(fdp.ConsumeIntInRange(0, 4)))
        b = a[:i] + ins + a[j:]
    return {"a": a, "b": b}


from vp import fuzz as _fuzz   # noqa: E402

SUBS = [
    Sub("exhaustive", check_pair, custom=exhaustive_pairs, workers_quick=4, workers_thorough=16,
        budget_quick=120, budget_thorough=1800),
    Sub("random_pairs", check_pair, strategy=strat_pairs, quick=2500, thorough=60000, workers_quick=4),
    Sub("evr", check_evr, strategy=strat_evr, quick=650, thorough=20000, workers_quick=4),
    Sub("history", check_history, strategy=strat_history, quick=350, thorough=15000, workers_quick=4),
    Sub("atheris", check_pair, custom=_fuzz.campaign(PROPERTY, "atheris", "fuzz_decode", ["insights.parsers.rpm_vercmp"],
                                                      runs_quick=60000, runs_thorough=1500000, max_len=64),
        workers_quick=2, workers_thorough=16, budget_quick=60, budget_thorough=1500),
]

REGRESSIONS = [
    Reg("tilde-vs-end", "exhaustive", {"a": "1.0~rc1", "b": "1.0"}),
    Reg("caret-vs-end", "exhaustive", {"a": "1.0^", "b": "1.0"}),
    Reg("leading-zeros", "exhaustive", {"a": "1.001", "b": "1.1"}),
    Reg("non-ascii", "exhaustive", {"a": u"1.1.αa", "b": u"1.1.βb"}),
    Reg("long-digits", "exhaustive", {"a": "12345678901234567890123", "b": "2345678901234567890123"}),
    Reg("non-ascii-digit-is-a-separator", "random_pairs", {"a": u"3.\u0663.1", "b": "3.3.1"}),
    Reg("history-temporaries", "history", {
        "live": "parser", "pkgs": [{"epoch": "0", "version": "1.5", "release": "2.el8"},
                                   {"epoch": "0", "version": "1.4", "release": "9.el8"},
                                   {"epoch": None, "version": "1.10", "release": "1.el8"}],
        "ops": [{"k": "newest"}, {"k": "cmp", "op": ">=", "l": {"s": 0}, "r": {"t": 1, "how": "package"}},
                {"k": "cmp", "op": "<", "l": {"s": 0}, "r": {"t": 2, "how": "package"}},
                {"k": "rebind", "s": 1, "t": 2, "how": "dict"},
                {"k": "cmp", "op": "==", "l": {"t": 2, "how": "json"}, "r": {"s": 1}}, {"k": "sorted"}]}),
    Reg("epoch-none", "evr", {"via": "parser", "pkgs": [{"epoch": "(none)", "version": "2", "release": "1"},
                                                      {"epoch": "1", "version": "1", "release": "1"},
                                                      {"epoch": None, "version": "2", "release": "1~a"}]}),
]
