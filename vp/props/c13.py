"""C13 - package version comparison is RPM's ordering.

Oracle: an independent, index-based transliteration of rpmvercmp.c over UTF-8 bytes (ASCII-only
character classes), validated against RPM's own table in the repository's test file before use.
Laws on the code under test: reflexive, antisymmetric, transitive (total preorder), operators of
InstalledRpm agree with the three-way result, newest/oldest return a maximum/minimum."""
import itertools
import json
import os
import re

from hypothesis import strategies as st

from vp.core import Sub, Reg, Violation, REPO

PROPERTY = "C13"
RULE = ("(a) exhaustive: every ordered pair of strings of length <= L over the alphabet "
        "{0,1,9,a,B,.,-,~,^,e-acute} (quick L=3 incl. all triples via bit-set transitivity; thorough "
        "L=4 pairs); (b) random long strings built from segments (digit runs with leading zeros, "
        "alpha runs, separators, tilde/caret, non-ASCII) and single-segment mutation pairs; "
        "(c) epoch/version/release triples through InstalledRpm operators and package lists through "
        "InstalledRpms.newest/oldest. Non-trivial: the two strings differ and share a non-empty common "
        "prefix, or contain ~ or ^, or a digit run with a leading zero; distinct by the pair itself.")
ASSUMPTIONS = [
    "reference comparator = harness transliteration of rpmvercmp.c (validated against the RPM table "
    "rows carried by insights/tests/parsers/test_rpm_vercmp.py); no rpm binary exists in the sandbox",
    "epochs are non-negative integer strings or '(none)'",
]

ALPHA_Q = ["0", "1", "9", "a", "B", ".", "-", "~", "^", u"é"]
ALPHA_T = ["0", "1", "9", "a", "B", ".", "~", "^", u"é"]


def ref(a, b):
    """index-based transliteration of rpmvercmp.c over utf-8 bytes"""
    if a == b:
        return 0
    A = a.encode("utf-8")
    B = b.encode("utf-8")

    def isdig(c):
        return 48 <= c <= 57

    def isalp(c):
        return 65 <= c <= 90 or 97 <= c <= 122

    def isaln(c):
        return isdig(c) or isalp(c)

    i = j = 0
    na, nb = len(A), len(B)
    while i < na or j < nb:
        while i < na and not isaln(A[i]) and A[i] not in b"~^":
            i += 1
        while j < nb and not isaln(B[j]) and B[j] not in b"~^":
            j += 1
        ca = A[i] if i < na else 0
        cb = B[j] if j < nb else 0
        if ca == 126 or cb == 126:
            if ca != 126:
                return 1
            if cb != 126:
                return -1
            i += 1
            j += 1
            continue
        if ca == 94 or cb == 94:
            if not ca:
                return -1
            if not cb:
                return 1
            if ca != 94:
                return 1
            if cb != 94:
                return -1
            i += 1
            j += 1
            continue
        if not (ca and cb):
            break
        p, q = i, j
        if isdig(A[p]):
            while p < na and isdig(A[p]):
                p += 1
            while q < nb and isdig(B[q]):
                q += 1
            isnum = True
        else:
            while p < na and isalp(A[p]):
                p += 1
            while q < nb and isalp(B[q]):
                q += 1
            isnum = False
        if p == i:
            return -1
        if q == j:
            return 1 if isnum else -1
        sa, sb = A[i:p], B[j:q]
        if isnum:
            sa = sa.lstrip(b"0")
            sb = sb.lstrip(b"0")
            if len(sa) > len(sb):
                return 1
            if len(sb) > len(sa):
                return -1
        if sa != sb:
            return -1 if sa < sb else 1
        i, j = p, q
    if i >= na and j >= nb:
        return 0
    return -1 if i >= na else 1


def selftest():
    src = open(os.path.join(REPO, "insights/tests/parsers/test_rpm_vercmp.py")).read()
    rows = re.findall(r'RPMVERCMP\(([^,]+),\s*([^,]+),\s*(-?\d)\)', src)
    if len(rows) < 80:
        # the table moved: fall back to a built-in extract of rpmvercmp.at
        rows = [("1.0", "1.0", "0"), ("1.0", "2.0", "-1"), ("2.0.1", "2.0", "1"), ("5.5p1", "5.5p2", "-1"),
                ("10xyz", "10.1xyz", "-1"), ("xyz10", "xyz10.1", "-1"), ("1.0~rc1", "1.0", "-1"),
                ("1.0^", "1.0", "1"), ("1.0^git1~pre", "1.0^git1", "-1"), ("2_0", "2.0", "0"),
                ("a", "1", "-1"), ("1.0^~", "1.0", "1"), ("1e.fc33", "1.fc33", "-1"), ("1g.fc33", "1.fc33", "1")]
    for a, b, e in rows:
        a, b = a.strip(), b.strip()
        assert ref(a, b) == int(e), ("reference comparator disagrees with RPM table", a, b, e)
    assert ref(u"1.1.α", u"1.1.β") == 0 and ref(u"1.1.αa", u"1.1.βb") == -1


def _nontrivial(a, b):
    if a == b:
        return False
    if "~" in a + b or "^" in a + b:
        return True
    if a and b and a[0] == b[0]:
        return True
    return bool(re.search(r"(?<![0-9])0[0-9]", a + " " + b))


def _sign(x):
    return (x > 0) - (x < 0)


def check_pair(case):
    from insights.parsers.rpm_vercmp import _rpm_vercmp
    if "c" in case:
        return check_triple(case)
    a, b = case["a"], case["b"]
    r = _rpm_vercmp(a, b)
    if r not in (-1, 0, 1):
        raise Violation("comparison returned %r, not one of -1/0/1" % (r,), a=a, b=b)
    e = ref(a, b)
    if r != e:
        raise Violation("vercmp(%r, %r) = %d but RPM's algorithm gives %d" % (a, b, r, e), a=a, b=b)
    r2 = _rpm_vercmp(b, a)
    if r2 != -r:
        raise Violation("antisymmetry: vercmp(a,b)=%d but vercmp(b,a)=%d" % (r, r2), a=a, b=b)
    if _rpm_vercmp(a, a) != 0 or _rpm_vercmp(b, b) != 0:
        raise Violation("reflexivity: vercmp(x,x) != 0", a=a, b=b)
    return {"nontrivial": _nontrivial(a, b),
            "labels": ["result=%d" % r] + (["tilde/caret"] if ("~" in a + b or "^" in a + b) else [])}


def check_triple(case):
    from insights.parsers.rpm_vercmp import _rpm_vercmp
    a, b, c = case["a"], case["b"], case["c"]
    if _rpm_vercmp(a, b) <= 0 and _rpm_vercmp(b, c) <= 0 and not _rpm_vercmp(a, c) <= 0:
        raise Violation("transitivity: a<=b and b<=c but not a<=c", a=a, b=b, c=c)
    return {"nontrivial": len(set([a, b, c])) == 3, "labels": ["triple"]}


def _strings(alpha, L):
    return ["".join(p) for n in range(0, L + 1) for p in itertools.product(alpha, repeat=n)]


def exhaustive_pairs(tier, seed, shard, nshards, stats):
    """All ordered pairs over the bounded alphabet (rows sharded); on shard 0 additionally all
    triples over the quick alphabet via bit-set transitivity."""
    from insights.parsers.rpm_vercmp import _rpm_vercmp
    from vp.core import case_hash
    if tier == "quick":
        strs = _strings(ALPHA_Q, 3)
    else:
        strs = _strings(ALPHA_T, 4)
    n_nt = 0
    for ia in range(shard, len(strs), nshards):
        a = strs[ia]
        for b in strs:
            r = _rpm_vercmp(a, b)
            if r != ref(a, b) or (r not in (-1, 0, 1)):
                stats.evaluations += 1
                stats.failure = ({"a": a, "b": b}, "differential mismatch", {})
                return
            if _nontrivial(a, b):
                n_nt += 1
        stats.evaluations += len(strs)
    # distinct non-trivial pairs are counted exactly (each ordered pair is visited once); only a
    # sample of their hashes is kept so that the merge stays small
    stats.extra["exhaustive_pairs_nontrivial"] = n_nt
    for ia in range(shard, len(strs), nshards * 37):
        a = strs[ia]
        for b in strs[ia % 11::97]:
            if _nontrivial(a, b):
                stats.nontrivial.add(case_hash({"a": a, "b": b}))
                if len(stats.samples) < 2:
                    stats.samples.append({"a": a, "b": b, "cmp": _rpm_vercmp(a, b)})
    stats.extra["strings"] = len(strs)
    stats.exhaustive = True
    if shard != 0:
        return
    # antisymmetry + transitivity over the quick alphabet (whole table needed -> one shard)
    strs = _strings(ALPHA_Q, 3)
    idx = dict((s, i) for i, s in enumerate(strs))
    table = {}
    rows_le = []
    for x in strs:
        m = 0
        for y in strs:
            r = _rpm_vercmp(x, y)
            table[(x, y)] = r
            if r <= 0:
                m |= 1 << idx[y]
        rows_le.append(m)
    for x in strs:
        if table[(x, x)] != 0:
            stats.failure = ({"a": x, "b": x}, "reflexivity", {})
            return
        for y in strs:
            if table[(x, y)] != -table[(y, x)]:
                stats.failure = ({"a": x, "b": y}, "antisymmetry", {})
                return
    triples = 0
    for a, x in enumerate(strs):
        ra = rows_le[a]
        m = ra
        b = 0
        while m:
            if m & 1:
                bad = rows_le[b] & ~ra
                if bad:
                    c = bad.bit_length() - 1
                    stats.failure = ({"a": x, "b": strs[b], "c": strs[c]}, "transitivity", {})
                    return
            m >>= 1
            b += 1
        triples += len(strs) * len(strs)
    stats.extra["triples_decided"] = triples
    stats.evaluations += len(strs) * len(strs)


# ---- random long strings ---------------------------------------------------------------------

_digits = st.one_of(
    st.text("0123456789", min_size=1, max_size=4),
    st.builds(lambda z, d: "0" * z + d, st.integers(1, 3), st.text("0123456789", min_size=0, max_size=3)),
    st.text("0123456789", min_size=18, max_size=26),
)
_alpha = st.text("abzABZelrcfgit", min_size=1, max_size=5)
_sep = st.sampled_from([".", "-", "_", "+", "..", ".-", u"é", u"α", u"中", " ", ":", "/"])
_mark = st.sampled_from(["~", "^", "~~", "^^", "~^", "^~"])
_segment = st.one_of(_digits, _alpha, _sep, _mark, _digits, _alpha)
_verstr = st.lists(_segment, min_size=0, max_size=8)


@st.composite
def _pair(draw):
    left = draw(_verstr)
    mode = draw(st.sampled_from(["independent", "mutate", "mutate", "equal-ish"]))
    if mode == "independent":
        right = draw(_verstr)
    elif mode == "equal-ish":
        right = list(left)
        if right and draw(st.booleans()):
            i = draw(st.integers(0, len(right) - 1))
            seg = right[i]
            if seg.isdigit():
                right[i] = draw(st.sampled_from(["0" + seg, seg.lstrip("0") or "0", seg + "0"]))
            else:
                right[i] = draw(_sep) if not seg[0].isalnum() else seg.swapcase()
    else:
        right = list(left)
        op = draw(st.sampled_from(["ins", "del", "rep"]))
        if op == "ins" or not right:
            right.insert(draw(st.integers(0, len(right))), draw(_segment))
        elif op == "del":
            del right[draw(st.integers(0, len(right) - 1))]
        else:
            right[draw(st.integers(0, len(right) - 1))] = draw(_segment)
    return {"a": "".join(left), "b": "".join(right)}


def strat_pairs(tier):
    return st.one_of(_pair(), st.builds(lambda a, b: {"a": a, "b": b},
                                        st.text(max_size=6), st.text(max_size=6)))


# ---- EVR triples through InstalledRpm ----------------------------------------------------------

_epoch = st.sampled_from(["0", "1", "2", "10", "(none)", "00", "9", None])
_ver = st.builds("".join, st.lists(st.one_of(_digits, _alpha, st.sampled_from([".", "_", "~", "^", "+"])),
                                   min_size=1, max_size=5))


@st.composite
def _evr(draw):
    return {"epoch": draw(_epoch), "version": draw(_ver), "release": draw(_ver)}


@st.composite
def _evr_case(draw):
    base = draw(_evr())
    pk = [base]
    for _ in range(draw(st.integers(1, 5))):
        if draw(st.booleans()):
            other = dict(base)
            field = draw(st.sampled_from(["epoch", "version", "release"]))
            other[field] = draw(_epoch if field == "epoch" else _ver)
        else:
            other = draw(_evr())
        pk.append(other)
    return {"pkgs": pk, "via": draw(st.sampled_from(["dict", "json", "parser", "mixed-classes", "yumlist", "parser"]))}


def strat_evr(tier):
    return _evr_case()


def _ref_evr(x, y):
    ex = int(x["epoch"]) if x["epoch"] not in (None, "(none)") else 0
    ey = int(y["epoch"]) if y["epoch"] not in (None, "(none)") else 0
    if ex != ey:
        return -1 if ex < ey else 1
    r = ref(x["version"], y["version"])
    if r:
        return r
    return ref(x["release"], y["release"])


def check_evr(case):
    from insights.parsers.installed_rpms import InstalledRpm, InstalledRpms
    from insights.core.context import Context
    pk = case["pkgs"]
    dicts = []
    for p in pk:
        d = {"name": "pkg", "version": p["version"], "release": p["release"], "arch": "x86_64"}
        if p["epoch"] is not None:
            d["epoch"] = p["epoch"]
        dicts.append(d)
    parser_obj = None
    if case["via"] == "mixed-classes":
        # packages from `rpm -qa` compared with the same-named packages from `yum list` (a subclass
        # with an extra attribute): the ordering is the same relation
        from insights.parsers.yum_list import YumListRpm
        objs = [(YumListRpm(dict(d, repo="r%d" % k)) if k % 2 else InstalledRpm(d)) for k, d in enumerate(dicts)]
    elif case["via"] == "dict":
        objs = [InstalledRpm(d) for d in dicts]
    elif case["via"] == "json":
        objs = [InstalledRpm.from_json(json.dumps(d)) for d in dicts]
    else:
        if case["via"] == "yumlist":
            # another user of the same look-up interface: `yum list installed` rows (multilib: the same name
            # for two architectures), in the generated order
            from insights.parsers.yum_list import YumListInstalled
            rows = ["Loaded plugins: product-id, search-disabled-repos", "Installed Packages"]
            for k, p in enumerate(pk):
                ep = "" if p["epoch"] in (None, "(none)") else p["epoch"] + ":"
                rows.append("pkg.%s    %s%s-%s    @repo%d" % ("i686" if k % 3 == 2 else "x86_64", ep, p["version"],
                                                           p["release"], k))
            parser_obj = YumListInstalled(Context(content=rows, path="yum_list_installed"))
            unparsed = []
        else:
            parser_obj = InstalledRpms(Context(content=[json.dumps(d) for d in dicts], path="installed-rpms"))
            unparsed = parser_obj.unparsed
        parsed = parser_obj.packages.get("pkg", [])
        if len(parsed) != len(dicts) or unparsed:
            raise Violation("%s did not parse every package line" % type(parser_obj).__name__, lines=dicts,
                            unparsed=unparsed)
        # which generated package is which parsed object is read from the objects' own fields, not from their
        # position: the statement says nothing about the order in which a parser keeps its packages

        def ident(epoch, version, release):
            return (int(epoch) if epoch not in (None, "(none)") else 0, version, release)
        remaining = list(parsed)
        objs = []
        for p in pk:
            want = ident(p["epoch"], p["version"], p["release"])
            hit = [o for o in remaining if ident(getattr(o, "epoch", None), o.version, o.release) == want]
            if not hit:
                raise Violation("%s: no parsed package carries epoch/version/release %r" % (type(parser_obj).__name__, want),
                                lines=dicts)
            remaining.remove(hit[0])
            objs.append(hit[0])
    n = len(objs)
    labels = set()
    for i in range(n):
        for j in range(n):
            x, y = objs[i], objs[j]
            e = _ref_evr(pk[i], pk[j])
            got = {"<": x < y, "==": x == y, ">": x > y, "<=": x <= y, ">=": x >= y, "!=": x != y}
            want = {"<": e < 0, "==": e == 0, ">": e > 0, "<=": e <= 0, ">=": e >= 0, "!=": e != 0}
            for op in got:
                if bool(got[op]) != want[op]:
                    raise Violation("InstalledRpm %s: %r %s %r is %r, RPM ordering says %r" % (
                        case["via"], pk[i], op, pk[j], got[op], want[op]), left=pk[i], right=pk[j], op=op)
            if sum(1 for op in ("<", "==", ">") if got[op]) != 1:
                raise Violation("not exactly one of older/equal/newer holds", left=pk[i], right=pk[j])
            labels.add("evr=%d" % e)
    if parser_obj is not None:
        mx, mn = parser_obj.newest("pkg"), parser_obj.oldest("pkg")
        if mx is not parser_obj.get_max("pkg") or mn is not parser_obj.get_min("pkg"):
            raise Violation("newest/oldest disagree with get_max/get_min")
        if parser_obj.newest("pkg") is not mx or parser_obj.oldest("pkg") is not mn:
            raise Violation("two identical newest/oldest look-ups return different objects")
        imx = [k for k in range(n) if objs[k] is mx]
        imn = [k for k in range(n) if objs[k] is mn]
        if not imx or not imn:
            raise Violation("newest/oldest returned an object that is not in the package list")
        for k in range(n):
            if _ref_evr(pk[k], pk[imx[0]]) > 0:
                raise Violation("newest() returned %r but %r is newer" % (pk[imx[0]], pk[k]), pkgs=pk)
            if _ref_evr(pk[k], pk[imn[0]]) < 0:
                raise Violation("oldest() returned %r but %r is older" % (pk[imn[0]], pk[k]), pkgs=pk)
        if parser_obj.newest("absent") is not None or parser_obj.oldest("absent") is not None:
            raise Violation("newest/oldest of an absent package is not None")
        labels.add("newest/oldest")
    distinct_epochs = len(set(int(p["epoch"]) if p["epoch"] not in (None, "(none)") else 0 for p in pk)) > 1
    nt = len(labels & set(["evr=-1", "evr=1"])) == 2 and (distinct_epochs or any(
        "~" in p["version"] + p["release"] or "^" in p["version"] + p["release"] for p in pk))
    return {"nontrivial": nt, "labels": sorted(labels) + ["via=" + case["via"]]}


# ---- coverage-guided fuzzing (Atheris) over the same differential oracle -------------------------

_FUZZ_ALPHABET = list(u"0123456789abzABZrcelp.-_+~^ :/") + [u"\u00e9", u"\u03b1", u"\u4e2d", "00", "~~", "^~", ".."]


def fuzz_decode(fdp):
    n = fdp.ConsumeIntInRange(0, 20)
    a = "".join(_FUZZ_ALPHABET[fdp.ConsumeIntInRange(0, len(_FUZZ_ALPHABET) - 1)] for _ in range(n))
    mode = fdp.ConsumeIntInRange(0, 3)
    if mode == 0:
        m = fdp.ConsumeIntInRange(0, 20)
        b = "".join(_FUZZ_ALPHABET[fdp.ConsumeIntInRange(0, len(_FUZZ_ALPHABET) - 1)] for _ in range(m))
    else:
        # mutate a: splice / delete / insert at a position
        i = fdp.ConsumeIntInRange(0, len(a))
        j = fdp.ConsumeIntInRange(i, len(a))
        ins = "".join(_FUZZ_ALPHABET[fdp.ConsumeIntInRange(0, len(_FUZZ_ALPHABET) - 1)]
                      for _ in range(fdp.ConsumeIntInRange(0, 4)))
        b = a[:i] + ins + a[j:]
    return {"a": a, "b": b}


from vp import fuzz as _fuzz   # noqa: E402

SUBS = [
    Sub("exhaustive", check_pair, custom=exhaustive_pairs, workers_quick=4, workers_thorough=16,
        budget_quick=120, budget_thorough=1800),
    Sub("random_pairs", check_pair, strategy=strat_pairs, quick=6000, thorough=60000, workers_quick=2),
    Sub("evr", check_evr, strategy=strat_evr, quick=1500, thorough=20000, workers_quick=2),
    Sub("atheris", check_pair, custom=_fuzz.campaign(PROPERTY, "atheris", "fuzz_decode", ["insights.parsers.rpm_vercmp"],
                                                      runs_quick=60000, runs_thorough=1500000, max_len=64),
        workers_quick=2, workers_thorough=16, budget_quick=60, budget_thorough=1500),
]

REGRESSIONS = [
    Reg("tilde-vs-end", "exhaustive", {"a": "1.0~rc1", "b": "1.0"}),
    Reg("caret-vs-end", "exhaustive", {"a": "1.0^", "b": "1.0"}),
    Reg("leading-zeros", "exhaustive", {"a": "1.001", "b": "1.1"}),
    Reg("non-ascii", "exhaustive", {"a": u"1.1.αa", "b": u"1.1.βb"}),
    Reg("long-digits", "exhaustive", {"a": "12345678901234567890123", "b": "2345678901234567890123"}),
    Reg("epoch-none", "evr", {"via": "parser", "pkgs": [{"epoch": "(none)", "version": "2", "release": "1"},
                                                      {"epoch": "1", "version": "1", "release": "1"},
                                                      {"epoch": None, "version": "2", "release": "1~a"}]}),
]
