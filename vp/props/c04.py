"""C04 - evaluation results do not depend on scheduling."""
import json
import os
import re
import subprocess
import sys

from hypothesis import strategies as st

from vp import dyn
from vp.core import Sub, Reg, Violation, REPO, VERIF

PROPERTY = "C04"
RULE = ("random component graphs made of 1-4 disconnected parts with deterministic bodies and faults, "
        "evaluated (i) by dr.run, (ii) through k harness-chosen linear extensions (run_components), "
        "(iii) by run_incremental / run_all with a shared broker and with one broker per sub-graph, "
        "(iv) by run_all on ThreadPoolExecutor(n), n in {1,2,4,8}, (v) in child interpreters under "
        "several PYTHONHASHSEED values. Oracle: the normalised final state (values, recorded exception "
        "classes+messages per component, missing-dependency reports) is identical for all schedules and "
        "hash seeds, equals the reference evaluator's values/reports, every body ran exactly as often as "
        "in the serial run, and get_subgraphs yields a partition closed under edges. Non-trivial: >= 2 "
        "sub-graphs and >= 2 distinct linear extensions tried, or a fault whose dependents span >= 2 "
        "topological levels. Report-rich shapes: about every second graph gets 1-2 extra sink nodes (rules twice as "
        "likely as component / combiner / condition) with 2-5 required entries drawn with replacement from one "
        "connected part (+ sometimes an at-least-one list / an optional entry), about every third graph gets a "
        "required entry of 1-2 nodes repeated; besides the projection the reference evaluator predicts, the complete "
        "content of every rule response (all dict fields, e.g. the rendered `details` of a skip response, with the "
        "per-case serial number taken out of component names) and the missing reports as stored (order, repetitions) "
        "are compared between schedules and between hash seeds. Sub-check providers: 1-4 specs built with the real spec_factory factories "
        "(simple_file text/raw, glob_file, first_file, simple_command +/- keep_rc) over a sandbox directory whose "
        "files are healthy, empty, missing, a directory, or vanish right after the datasource evaluated (so the "
        "datasource succeeds and the lazy load of the shared ContentProvider fails), under 1-2 private archive- "
        "or host-like contexts, each spec read by 1-4 generated readers (Parser, StreamParser, component / "
        "combiner / condition / datasource functions reading .content and .rc, spec_factory.find; through the "
        "registry point or the implementation; some catching the read error into their value; gated on other "
        "specs) with 0-2 combiners on top; evaluated by dr.run, 3-4 linear extensions incl. index and reverse "
        "index order, run_incremental, run_all, run_all on a pool. Oracle: every schedule ends with the same "
        "values, failures (class+message per component), missing reports and body call counts as dr.run. "
        "Non-trivial there: some provider has >= 2 readers that were evaluated in >= 2 different relative orders.")
ASSUMPTIONS = [
    "thread interleavings inside the pool are sampled, not enumerated (bodies are deterministic, "
    "sub-graphs disjoint; the harness owns which linear extension and which partition is used)",
    "exec_times and log output are not part of the compared state; no HostContext in pooled runs",
    "providers: the file system of the sandbox is put back before every schedule; a vanishing file is removed by a "
    "broker observer right after its datasource evaluated (the outside world, not a component); host-like contexts "
    "are private HostContext subclasses (no SIGALRM timeout, default deny lists, no filters)",
]


def _add_reporters(draw, case):
    """Report-rich shapes. The statement names the missing-dependency reports (and a rule's value *is* such a
    report when its requirements are not met), but in the graphs of vp/dyn.py a report that lists more than one
    component is rare (1 % of the cases) and one that lists a component twice practically absent. Two generated
    dimensions, both written the way a user writes them:

    * about every second case gets 1-2 extra sink nodes (rule twice as likely as component / combiner / condition)
      on top of one connected part, with 2-5 required entries drawn *with replacement* from that part plus now
      and then an at-least-one list and an optional entry - many requirements over a part in which about half of
      the nodes have no value;
    * in about every third case 1-2 existing nodes get one of their required entries repeated at a generated
      position (what a component type with type-level `requires` gets when the decorator names the same component
      again: ComponentType concatenates the two lists as they are)."""
    nodes = case["nodes"]
    if draw(st.integers(0, 1)) == 0:
        for _ in range(draw(st.integers(1, 2))):
            n = len(nodes)
            comp = list(range(n))        # connected part of every node (edges = declared dependencies)
            for i, nd in enumerate(nodes):
                for j in dyn.dep_set(nd):
                    a, b = comp[i], comp[j]
                    if a != b:
                        comp = [a if x == b else x for x in comp]
            usable = [j for j in range(n) if nodes[j]["t"] != "rule"]
            if not usable:
                break
            root = draw(st.sampled_from(usable))
            cand = [j for j in usable if comp[j] == comp[root]]
            t = draw(st.sampled_from(["rule", "rule", "component", "combiner", "condition"]))
            decl = [["req", j] for j in draw(st.lists(st.sampled_from(cand), min_size=2, max_size=5))]
            if draw(st.integers(0, 2)) == 0:
                decl.insert(draw(st.integers(0, len(decl))),
                            ["grp", draw(st.lists(st.sampled_from(cand), min_size=1, max_size=3, unique=True))])
            if draw(st.integers(0, 3)) == 0:
                decl.append(["opt", draw(st.sampled_from(cand))])
            node = {"t": t, "decl": decl, "fault": draw(st.sampled_from(["ok"] * 5 + ["boom", "skip"])), "multi": 0,
                    "efaults": ["ok"], "coe": True}
            if t != "rule":
                node["val"] = "t"
            nodes.append(node)
    if draw(st.integers(0, 2)) == 0:
        cand = [i for i, nd in enumerate(nodes) if nd["t"] not in ("parser", "regpoint")
                and any(d[0] == "req" for d in nd["decl"])]
        for i in (draw(st.lists(st.sampled_from(cand), min_size=1, max_size=2, unique=True)) if cand else []):
            decl = nodes[i]["decl"]
            pos = [d for d in decl if d[0] != "opt"]
            again = draw(st.sampled_from([d for d in pos if d[0] == "req"]))
            pos.insert(draw(st.integers(0, len(pos))), list(again))
            nodes[i]["decl"] = pos + [d for d in decl if d[0] == "opt"]


@st.composite
def cases(draw, tier="quick"):
    parts = draw(st.sampled_from([1, 2, 2, 3, 4]))
    case = draw(dyn.graphs(min_nodes=3, max_nodes=12 if tier == "quick" else 16, parts=parts))
    _add_reporters(draw, case)
    n = len(case["nodes"])
    pick = draw(st.integers(0, 5))
    if pick == 0:
        case["graph"] = {"kind": "targets", "targets": sorted(draw(st.sets(st.integers(0, n - 1), min_size=1, max_size=min(3, n))))}
    elif pick == 1:
        # a graph dict that is not closed under dependencies (as process_dir / get_subgraphs build them)
        case["graph"] = {"kind": "subset", "subset": sorted(draw(st.sets(st.integers(0, n - 1), min_size=1, max_size=n)))}
    else:
        case["graph"] = {"kind": "full"}
    case["prios"] = draw(st.lists(st.lists(st.integers(0, 30), min_size=n, max_size=n), min_size=2, max_size=4))
    case["pools"] = sorted(draw(st.sets(st.sampled_from([1, 2, 4, 8]), min_size=1, max_size=2)))
    case["sac"] = bool(case["seeded"]) and draw(st.integers(0, 3)) == 0
    return case


def _graph(case, b):
    nodes = case["nodes"]
    comps = b.comps
    g = case.get("graph", {"kind": "full"})
    if g["kind"] == "full":
        active = set(range(len(nodes)))
    elif g["kind"] == "subset":
        active = set(g["subset"])
    else:
        active = dyn.closure(case, g["targets"])
    graph = dict((comps[i], set(comps[j] for j in dyn.dep_set(nodes[i]))) for i in sorted(active))
    return graph, active


def _canon_missing(m):
    return [sorted(set(m[0])), sorted(set(tuple(sorted(set(g))) for g in m[1]))]


_GEN_NAME = re.compile(r"\b(?:(n|rp)\d+_(?=\d+\b)|(Reg|Impl)\d+\b)")


def _scrub(v):
    """JSON form of a value with the per-case serial number taken out of generated component names
    (n<serial>_<i> -> n<i>), so that the text a value carries can be compared between processes."""
    if isinstance(v, str):
        return _GEN_NAME.sub(lambda m: m.group(1) or m.group(2), v)
    if isinstance(v, (list, tuple)):
        return [_scrub(x) for x in v]
    if isinstance(v, dict):
        return sorted([_scrub(str(k)), _scrub(x)] for k, x in v.items())
    if v is None or isinstance(v, (bool, int, float)):
        return v
    return _scrub(repr(v))


def _whole_value(v):
    """Everything a rule response carries. norm_value() keeps of a response only what the reference evaluator
    predicts (type, key, the digest; for a skip the missing components); the response is a dict with further
    fields - for a skip the rendered report of the missing requirements (`details`), `reason`, `rule_fqdn` -
    and that dict *is* the component's value in the broker. It is compared between schedules and hash seeds
    (not with the reference evaluator, which says nothing about the wording)."""
    from insights.core.plugins import Response
    if isinstance(v, Response):
        return [type(v).__name__, _scrub(dict(v))]
    return None


def state_of(b, brokers, shared):
    """Normalised final state over one or several brokers."""
    vals, excs, miss = {}, {}, {}
    whole, miss_raw = {}, {}
    seen = set()
    for br in brokers:
        if id(br) in seen:
            continue
        seen.add(id(br))
        for c, v in br.instances.items():
            i = b.index.get(c)
            if i is None and getattr(c, "__name__", "") == "SerializedArchiveContext":
                continue        # the context object the harness itself put there
            if i is None:
                raise Violation("value stored for a component outside the graph: %r" % (c,))
            if i in vals and not shared:
                raise Violation("node %d has a value in two sub-graph brokers (duplicated by the split)" % i)
            vals[i] = dyn.to_json(dyn.norm_value(b, v))
            wv = _whole_value(v)
            if wv is not None:
                whole[i] = wv
        for c, lst in br.exceptions.items():
            if not lst:
                continue
            i = b.index.get(c)
            if i is None:
                raise Violation("an exception is recorded for a component outside the graph: %r" % (c,))
            excs.setdefault(i, []).extend((type(e).__name__, str(e)) for e in lst)
        for c, m in br.missing_requirements.items():
            i = b.index.get(c)
            if i is None:
                raise Violation("missing dependencies are reported for a component outside the graph: %r" % (c,))
            miss[i] = _canon_missing(([b.index.get(x, repr(x)) for x in m[0]],
                                      [[b.index.get(x, repr(x)) for x in g] for g in m[1]]))
            # the report as it is stored (entries as listed, repetitions kept); compared between schedules only
            miss_raw[i] = [[b.index.get(x, repr(x)) for x in m[0]], [[b.index.get(x, repr(x)) for x in g] for g in m[1]]]
    excs = dict((k, sorted(v)) for k, v in excs.items())
    return {"values": vals, "exceptions": excs, "missing": miss, "responses": whole, "missing_as_stored": miss_raw}


def _report_labels(state):
    """What the reports of a final state exercise: a report (a rule's skip response or a stored missing report)
    that lists several different components, and one that lists a component more than once."""
    labels = set()
    reports = [v[1:3] for v in state["values"].values() if isinstance(v, list) and v and v[0] == "SKIPRESP"]
    for kind, reps in (("skip-response", reports), ("missing-report", list(state["missing_as_stored"].values()))):
        for req, groups in reps:
            for names in [req] + list(groups):
                if len(set(names)) >= 2:
                    labels.add(kind + "-lists-several")
                    if len(set(names)) < len(names):
                        labels.add(kind + "-repeats-an-entry-among-several")
    return labels


def _calls(b):
    out = {}
    for ev in b.log:
        if ev[0] == "call":
            out[ev[1]] = out.get(ev[1], 0) + 1
    return out


def _fresh_broker(case, b):
    from insights.core import dr
    broker = dr.Broker()
    broker.store_skips = case["store_skips"]
    for i in case["seeded"]:
        broker[b.comps[i]] = dyn.seed_value(case, i)
    if case.get("sac"):
        # a broker hydrated from a serialized archive: dr.run() then leaves out the direct dependencies of
        # everything the archive already supplied
        from insights.core.context import SerializedArchiveContext
        broker[SerializedArchiveContext] = SerializedArchiveContext()
    return broker


def run_schedules(case, b, which=None):
    """Runs the case under every schedule; returns [(label, state, calls)]."""
    from concurrent.futures import ThreadPoolExecutor
    from insights.core import dr
    comps = b.comps
    for i in case["disabled"]:
        dr.set_enabled(comps[i], False)
    graph, active = _graph(case, b)
    results = []

    def fresh_graph():
        return dict((k, set(v)) for k, v in graph.items())

    def record(label, brokers, shared=True):
        results.append((label, state_of(b, brokers, shared), _calls(b)))
        b.log[:] = []
        b.raised.clear()

    # (i) single pass
    br = _fresh_broker(case, b)
    dr.run(fresh_graph(), broker=br)
    record("run", [br])
    # (ii) linear extensions chosen by the harness (not with a serialized-archive broker: the pruning of
    # already supplied components' dependencies is done by dr.run, which run_components bypasses)
    orders = set()
    for k, prio in enumerate([] if case.get("sac") else case["prios"]):
        order = dyn.linear_extension(case, active, prio)
        orders.add(tuple(order))
        br = _fresh_broker(case, b)
        dr.run_components([comps[i] for i in order], fresh_graph(), br)
        record("linear-extension-%d" % k, [br])
    for name, prio in (() if case.get("sac") else (("reverse-index", None),)):
        order = dyn.linear_extension(case, active, [len(comps) - i for i in range(len(comps))])
        orders.add(tuple(order))
        br = _fresh_broker(case, b)
        dr.run_components([comps[i] for i in order], fresh_graph(), br)
        record(name, [br])
    # (iii) one sub-graph at a time
    br = _fresh_broker(case, b)
    got = list(dr.run_incremental(fresh_graph(), broker=br))
    record("incremental-shared", got or [br])
    br = _fresh_broker(case, b)
    got = dr.run_all(fresh_graph(), broker=br)
    record("run_all-shared", got or [br])
    plain = not case["seeded"] and not case["store_skips"] and not case.get("sac")
    if plain:
        got = list(dr.run_incremental(fresh_graph()))
        record("incremental-separate", got, shared=False)
    # (iv) thread pool
    for n in case["pools"]:
        br = _fresh_broker(case, b)
        with ThreadPoolExecutor(n) as pool:
            got = dr.run_all(fresh_graph(), broker=br, pool=pool)
        record("pool-%d-shared" % n, got or [br])
        if plain:
            with ThreadPoolExecutor(n) as pool:
                got = dr.run_all(fresh_graph(), pool=pool)
            record("pool-%d-separate" % n, got, shared=False)
    return results, active, len(orders)


def check_partition(case, b):
    from insights.core import dr
    graph, active = _graph(case, b)
    subs = list(dr.get_subgraphs(dict((k, set(v)) for k, v in graph.items())))
    seen = {}
    for k, sg in enumerate(subs):
        for c in sg:
            i = b.index.get(c)
            if i is None or i not in active:
                raise Violation("get_subgraphs yielded a component that is not in the graph: %r" % (c,))
            if i in seen:
                raise Violation("node %d appears in two sub-graphs" % i)
            seen[i] = k
            if set(b.index.get(d) for d in sg[c]) != dyn.dep_set(case["nodes"][i]):
                raise Violation("sub-graph lists wrong dependencies for node %d" % i)
    if set(seen) != active:
        raise Violation("sub-graphs lose components: %r missing" % (sorted(active - set(seen)),))
    for i in active:
        for j in dyn.dep_set(case["nodes"][i]):
            if j in active and seen[i] != seen[j]:
                raise Violation("edge %d -> %d crosses two sub-graphs" % (i, j))
    return len(subs)


def check(case):
    b = dyn.build(case)
    try:
        nsub = check_partition(case, b)
        results, active, norders = run_schedules(case, b)
        if case.get("sac"):
            pruned = set()
            for i in case["seeded"]:
                if i in active:
                    pruned |= dyn.dep_set(case["nodes"][i])
            active = set(active) - pruned
        ex = dyn.model(case, active)
        want_vals = dict((i, dyn.to_json(v)) for i, v in ex.val.items())
        want_miss = dict((i, _canon_missing(m)) for i, m in ex.missing.items())
        base_label, base, base_calls = results[0]
        for label, state, calls in results:
            if state["values"] != want_vals:
                diff = sorted(i for i in set(state["values"]) | set(want_vals) if state["values"].get(i) != want_vals.get(i))
                raise Violation("schedule %s: values at nodes %r are %r, the dependency semantics give %r" % (
                    label, diff, [state["values"].get(i) for i in diff], [want_vals.get(i) for i in diff]))
            if state["missing"] != want_miss:
                raise Violation("schedule %s: missing-dependency reports %r, expected %r" % (label, state["missing"], want_miss))
            if state != base:
                parts = [k for k in sorted(state) if state[k] != base[k]]
                raise Violation("schedule %s ends in a different state than %s (%s differ): %r vs %r" % (
                    label, base_label, "/".join(parts), dict((k, state[k]) for k in parts),
                    dict((k, base[k]) for k in parts)))
            if calls != base_calls:
                raise Violation("schedule %s invoked bodies %r, the serial run %r (lost or duplicated work)" % (
                    label, calls, base_calls))
        nodes = case["nodes"]
        levels = {}
        for i, nd in enumerate(nodes):
            levels[i] = 1 + max([levels[j] for j in dyn.dep_set(nd)] or [0])
        spread = False
        for i in ex.faults:
            deps_levels = set(levels[k] for k, nd in enumerate(nodes) if i in dyn.closure(case, [k]) and k != i)
            if len(deps_levels) >= 2:
                spread = True
        nontrivial = (nsub >= 2 and norders >= 2) or spread
        labels = ["subgraphs=%d" % min(nsub, 5), "graph=" + case.get("graph", {"kind": "full"})["kind"],
                  "schedules=%d" % len(results)]
        if spread:
            labels.append("fault-spread")
        labels.extend(sorted(_report_labels(base)))
        if nontrivial:
            labels.append("nontrivial")
        return {"nontrivial": nontrivial, "labels": labels}
    finally:
        dyn.cleanup(b)


# ---- hash seeds in child interpreters ------------------------------------------------------------

def child_main():
    import logging
    logging.disable(logging.CRITICAL)
    doc = json.load(sys.stdin)
    out = []
    for case in doc["cases"]:
        b = dyn.build(case)
        try:
            case = dict(case, prios=case["prios"][:1], pools=[2])
            try:
                results, active, _ = run_schedules(case, b)
                out.append({"ok": True, "results": [[lab, st_, sorted(calls.items())] for lab, st_, calls in results]})
            except Violation as v:
                out.append({"ok": False, "violation": v.msg})
        finally:
            dyn.cleanup(b)
    json.dump(out, sys.stdout, sort_keys=True)


def hash_seeds(tier, seed):
    k = 6 if tier == "quick" else 48
    seeds = [0, 1, 2]
    x = seed * 7919 + 13
    while len(seeds) < k:
        x = (x * 1103515245 + 12345) % (2 ** 31)
        s = x % 4294967295
        if s not in seeds:
            seeds.append(s)
    return seeds


def run_children(cases_, seeds):
    outs = {}
    procs = []
    payload = json.dumps({"cases": cases_})
    for hs in seeds:
        env = dict(os.environ, PYTHONHASHSEED=str(hs), PYTHONPATH=REPO + os.pathsep + VERIF,
                   PYTHONDONTWRITEBYTECODE="1")
        p = subprocess.Popen([sys.executable, "-m", "vp.props.c04", "child"], stdin=subprocess.PIPE,
                             stdout=subprocess.PIPE, stderr=subprocess.PIPE, env=env, cwd=VERIF, text=True)
        procs.append((hs, p))
        p.stdin.write(payload)
        p.stdin.close()
    for hs, p in procs:
        text = p.stdout.read()
        err = p.stderr.read()
        p.wait()
        if p.returncode != 0:
            raise RuntimeError("child interpreter (PYTHONHASHSEED=%s) failed:\n%s" % (hs, err[-3000:]))
        outs[hs] = json.loads(text)
    return outs


def check_hashseeds(case):
    batch = case["batch"]
    seeds = case["hash_seeds"]
    outs = run_children(batch, seeds)
    nontrivial = False
    hs_labels = set()
    for k, c in enumerate(batch):
        ref = outs[seeds[0]][k]
        for hs in seeds:
            got = outs[hs][k]
            if not got["ok"]:
                raise Violation("under PYTHONHASHSEED=%s: %s" % (hs, got["violation"]), case=c, hash_seed=hs)
            if got != ref:
                where = "the set of schedules"
                for r_got, r_ref in zip(got["results"], ref["results"]):
                    parts = [p for p in sorted(r_ref[1]) if r_got[1].get(p) != r_ref[1][p]]
                    if r_got[0] == r_ref[0] and parts:
                        part = parts[0]
                        at = sorted(x for x in set(r_got[1][part]) | set(r_ref[1][part])
                                    if r_got[1][part].get(x) != r_ref[1][part].get(x))
                        where = "schedule %s, %s of node %s: %r vs %r" % (
                            r_got[0], part, at[0], r_got[1][part].get(at[0]), r_ref[1][part].get(at[0]))
                        break
                    if r_got[2] != r_ref[2]:
                        where = "schedule %s, body invocations" % r_got[0]
                        break
                raise Violation("final state under PYTHONHASHSEED=%s differs from PYTHONHASHSEED=%s (%s)" % (
                    hs, seeds[0], where), case=c, got=got, ref=ref)
            states = [r[1] for r in got["results"]]
            if any(s != states[0] for s in states):
                raise Violation("schedules disagree under PYTHONHASHSEED=%s" % hs, case=c)
        if len(c["nodes"]) >= 4:
            nontrivial = True
        hs_labels.update(_report_labels(dict((k, dict((int(i), v) for i, v in d.items()))
                                             for k, d in ref["results"][0][1].items())))
    return {"nontrivial": nontrivial, "labels": ["batch=%d" % len(batch), "hash_seeds=%d" % len(seeds)] + sorted(hs_labels),
            "key": [dyn.digest(json.dumps(c, sort_keys=True)) for c in batch]}


# ---- overriding spec implementations under every schedule ---------------------------------------------

def check_override(case):
    """Spec sets with several implementations of one spec for the same context (no dependency edge
    between the sibling implementations): which of the siblings the schedule happens to run first must
    not change any value, recorded failure, missing report or which bodies ran."""
    from insights.core import dr
    from vp.props import c05
    wcase = case["world"]
    c05._validate(wcase)
    uid = next(c05._counter)
    log, parsed = [], []
    world = None
    try:
        world = c05._build(wcase, uid, log, parsed)
        # implementations built on another spec of the world (its parser / a combiner on it; c05 round 7) need the
        # parsers to exist before the spec sets are defined - the order c05's own checks use
        parsers_first = bool(getattr(c05, "_uses_specs", lambda c: False)(wcase))
        if parsers_first:
            world["define_parsers"]()
        for si in range(len(wcase["sets"])):
            world["define_set"](si)
        if not parsers_first:
            world["define_parsers"]()
        graph = {}
        for ps in world["parsers"]:
            graph.update(dr.get_dependency_graph(ps))
        comps = sorted(graph, key=lambda c: dr.get_name(c))
        idx = dict((c, k) for k, c in enumerate(comps))
        active = case["active"] % wcase["nctx"]
        ctx_cls = world["ctxs"][active]

        def kahn(prio):
            remaining = set(comps)
            out = []
            while remaining:
                ready = [c for c in remaining if not (set(graph[c]) & remaining)]
                ready.sort(key=lambda c: (prio[idx[c] % len(prio)], idx[c]))
                out.append(ready[0])
                remaining.discard(ready[0])
            return out

        def state(broker):
            vals = dict((dr.get_name(c), repr(v) if c not in world["ctxs"] else "ctx") for c, v in broker.instances.items())
            excs = dict((dr.get_name(c), sorted(type(e).__name__ for e in lst)) for c, lst in broker.exceptions.items() if lst)
            miss = sorted(dr.get_name(c) for c in broker.missing_requirements)
            calls = sorted(repr(e) for e in log)
            return {"values": vals, "exceptions": excs, "missing": miss, "calls": calls}

        results = []

        def fresh():
            del log[:]
            del parsed[:]
            br = dr.Broker()
            br.store_skips = bool(wcase.get("store_skips"))
            br[ctx_cls] = ctx_cls()
            return br
        br = fresh()
        dr.run(dict((k, set(v)) for k, v in graph.items()), broker=br)
        results.append(("run", state(br)))
        orders = set()
        for k, prio in enumerate(case["prios"] + [[len(comps) - i for i in range(len(comps))]]):
            order = kahn(prio)
            orders.add(tuple(idx[c] for c in order))
            br = fresh()
            dr.run_components(order, dict((k2, set(v)) for k2, v in graph.items()), br)
            results.append(("linear-extension-%d" % k, state(br)))
        br = fresh()
        dr.run_all(dict((k, set(v)) for k, v in graph.items()), broker=br)
        results.append(("run_all", state(br)))
        base = results[0]
        for label, st_ in results[1:]:
            if st_ != base[1]:
                diff = [k for k in ("values", "exceptions", "missing", "calls") if st_[k] != base[1][k]]
                raise Violation("schedule %s ends in a different state than %s (%s differ): %r vs %r" % (
                    label, base[0], "/".join(diff), dict((k, st_[k]) for k in diff), dict((k, base[1][k]) for k in diff)))
        overrides = sum(1 for p in range(len(wcase["points"]))
                        if sum(1 for s_ in wcase["sets"] for im in s_ if im["point"] == p) >= 2)
        return {"nontrivial": overrides >= 1 and len(orders) >= 2,
                "labels": ["overridden-points=%d" % min(overrides, 3), "orders=%d" % min(len(orders), 4)]}
    finally:
        if world is not None:
            c05._cleanup(world["comps"], world["ctxs"], world["modname"])


@st.composite
def override_cases(draw, tier="quick"):
    from vp.props import c05
    w = draw(c05._world(tier))
    w.pop("eval_after", None)
    return {"world": w, "active": draw(st.integers(0, 3)),
            "prios": draw(st.lists(st.lists(st.integers(0, 40), min_size=4, max_size=12), min_size=2, max_size=4))}


def strat_override(tier):
    return override_cases(tier)


# ---- real spec_factory providers shared by several readers ---------------------------------------
#
# What a spec hands to its consumers is one *lazy* ContentProvider object: the datasource only creates
# it, the first consumer that reads it loads the file / runs the command, every later consumer gets what
# the object remembered (content, return code, or the failure).  Which consumer is "the first" is a pure
# scheduling matter, so whatever the object carries from one reader to the next is observable through
# the final state.  The synthetic bodies of the `schedules` sub-check return plain values and never
# exercise that; this sub-check puts the real factories under generated readers.

EXCLUDED = [
    "providers: a spec_factory.find() reader of a provider that has >= 2 readers and a faulty file (directory, "
    "vanished, missing, empty). find() reads `d.content if d.loaded else d.stream()`, and the two ways disagree: "
    "simple_file('etc/x') with etc/x a directory, read by a Parser A and find(spec, 'x'): [.., A, find] records "
    "find=[IsADirectoryError] (and a second failure on the registry point), [.., find, A] records "
    "find=[ContentException]; with an empty etc/x under a host context [.., A, find] records "
    "find=[ContentException('Empty (after filtering) ..')], [.., find, A] nothing. Genuine order dependence of "
    "the tree, known finding C04-find-mode-switch (pinned in REGRESSIONS); such a reader is generated as a plain "
    "component reading .content; label excluded:find-sharing-a-faulty-provider.",
    "providers: a StreamParser sharing a simple_command provider whose command exits non-zero with >= 1 other "
    "reader. stream() of a command ignores the exit status and runs the which()-resolved argv[0], .content "
    "raises CalledProcessError / runs the bare name, and what a .content reader left behind replaces the "
    "stream: simple_command('cat <root>/etc/nothing'), Parser P + StreamParser S: [.., P, S] records "
    "S=[ContentException], [.., S, P] gives S the value ['/usr/bin/cat: ..: No such file or directory'] and no "
    "failure; with keep_rc=True S's lines start with 'cat:' or with '/usr/bin/cat:' depending on the order. "
    "Genuine order dependence of the tree, known finding C04-command-stream-vs-content (pinned in REGRESSIONS); "
    "such a reader is generated as a Parser; label excluded:stream-reader-sharing-a-failing-command.",
]

_pv_counter = __import__("itertools").count()

PV_FACTORIES = ["simple_file", "simple_file", "simple_file", "raw_file", "glob_file", "glob_file", "first_file",
                "simple_command", "simple_command"]
PV_KINDS = ["parser", "parser", "parser", "stream", "component", "combiner", "condition", "datasource", "find"]
PV_HARD = ("dir", "vanish", "missing")      # the provider cannot be created or its load raises


def factory_is_cmd(sp):
    return sp["factory"] == "simple_command"


def _pv_multi(sp):
    return sp["factory"] == "glob_file"


@st.composite
def provider_cases(draw, tier="quick"):
    big = tier != "quick"
    nctx = draw(st.sampled_from([1, 2]))
    ctx_kinds = [draw(st.sampled_from(["archive", "archive", "host"])) for _ in range(nctx)]
    word = st.text(alphabet="abcxyz 019=", min_size=0, max_size=8)
    specs = []
    for s in range(draw(st.integers(nctx, 4 if big else 3))):
        factory = draw(st.sampled_from(PV_FACTORIES))
        nfiles = draw(st.integers(2, 3)) if factory in ("glob_file", "first_file") else 1
        # roughly every second spec gets a fault in one of its files
        faulty = draw(st.integers(0, nfiles * 2 - 1))
        files = []
        for f in range(nfiles):
            if f == faulty:
                opts = ["dir", "vanish", "vanish", "empty", "missing"]
                if factory == "glob_file":
                    opts = ["vanish", "vanish", "empty", "missing"]     # glob_file leaves directories out itself
                fault = draw(st.sampled_from(opts))
            else:
                fault = "ok"
            files.append({"lines": draw(st.lists(word, min_size=1, max_size=4)), "fault": fault})
        # every context carries a spec (two contexts = at least two sub-graphs unless a reader joins them)
        specs.append({"ctx": s if s < nctx else draw(st.integers(0, nctx - 1)), "factory": factory, "files": files,
                      "point": draw(st.integers(0, 3)) > 0,
                      "keep_rc": factory == "simple_command" and draw(st.integers(0, 4)) == 0})
    # half of the two-context cases keep the contexts' specs apart (several sub-graphs for run_all / the pool)
    apart = nctx == 2 and draw(st.booleans())
    consumers = []
    for s, sp in enumerate(specs):
        nread = draw(st.sampled_from([1, 2, 2, 3, 3, 4]))
        hard = any(f["fault"] in PV_HARD for f in sp["files"])
        empty = any(f["fault"] == "empty" for f in sp["files"])
        for _ in range(nread):
            kind = draw(st.sampled_from(PV_KINDS))
            if kind in ("stream", "find") and sp["factory"] == "raw_file":
                kind = "parser"          # raw providers have no stream(); find() refuses raw specs
            was = None
            if kind == "find" and nread >= 2 and (hard or empty):
                kind, was = "component", "find"       # EXCLUDED: known finding C04-find-mode-switch
            if kind == "stream" and nread >= 2 and hard and factory_is_cmd(sp):
                kind, was = "parser", "stream"        # EXCLUDED: known finding C04-command-stream-vs-content
            gate = []
            others = [o for o in range(len(specs)) if o != s and (not apart or specs[o]["ctx"] == sp["ctx"])]
            if others and draw(st.integers(0, 3)) == 0:
                gate = [[draw(st.sampled_from(["req", "opt"])), draw(st.sampled_from(others))]]
            consumers.append({"kind": kind, "spec": s, "via": draw(st.sampled_from(["point", "point", "point", "impl"])),
                              "catch": draw(st.integers(0, 4)) == 0, "coe": draw(st.booleans()), "gate": gate,
                              "pattern": draw(st.sampled_from(["a", "x", "0", " ", "="])), "was": was})
    # the order in which readers were declared carries no meaning: shuffle, so that index order does not
    # group the readers of one spec
    consumers = draw(st.permutations(consumers))
    tops = []
    for _ in range(draw(st.integers(0, 2))):
        pool = list(range(len(consumers)))
        if apart:
            side = draw(st.integers(0, nctx - 1))
            pool = [i for i in pool if specs[consumers[i]["spec"]]["ctx"] == side]
        ids = draw(st.lists(st.sampled_from(pool), min_size=1, max_size=3, unique=True))
        k = draw(st.integers(0, len(ids)))
        tops.append({"kind": draw(st.sampled_from(["combiner", "condition"])), "req": ids[:k], "opt": ids[k:]})
    n = nctx + 2 * len(specs) + len(consumers) + len(tops)
    return {"ctx_kinds": ctx_kinds, "specs": specs, "consumers": list(consumers), "tops": tops,
            "store_skips": draw(st.booleans()),
            "prios": draw(st.lists(st.lists(st.integers(0, 40), min_size=n, max_size=n), min_size=1, max_size=2)),
            "pools": sorted(draw(st.sets(st.sampled_from([1, 2, 4]), min_size=1, max_size=1)))}


def _pv_path(s, f):
    return "etc/s%d_f%d.conf" % (s, f)


def _pv_populate(case, root, again=False):
    """Creates the sandbox; again=True only puts back what a schedule may have removed, so that every
    schedule starts from the same file system."""
    etc = os.path.join(root, "etc")
    if not again:
        os.makedirs(etc)
    for s, sp in enumerate(case["specs"]):
        for f, fl in enumerate(sp["files"]):
            path = os.path.join(root, _pv_path(s, f))
            if fl["fault"] == "missing" or (again and fl["fault"] != "vanish"):
                continue
            if fl["fault"] == "dir":
                os.makedirs(path)
                continue
            with open(path, "w") as fh:
                if fl["fault"] != "empty":
                    fh.write("".join(l + "\n" for l in fl["lines"]))


def _pv_plain(v):
    if isinstance(v, bytes):
        return ["bytes", v.decode("latin-1")]
    if isinstance(v, str):
        return v
    return [_pv_plain(x) for x in v]


def _pv_build(case, uid, root, log, w):
    import types
    from insights.core import Parser, StreamParser
    from insights.core.context import ExecutionContext, HostContext
    from insights.core.plugins import combiner, component, condition, datasource, parser
    from insights.core import spec_factory as sf

    modname = "vp_c04_prov_%d" % uid
    mod = types.ModuleType(modname)
    sys.modules[modname] = mod
    w.update({"modname": modname, "ctxs": [], "comps": [], "label": {}, "impls": [], "consumers": [], "tops": [],
              "vanish": {}})

    def reg(c, label):
        w["comps"].append(c)
        w["label"][c] = label
        return c

    for i, kind in enumerate(case["ctx_kinds"]):
        c = type("PCtx%d_%d" % (uid, i), (HostContext if kind == "host" else ExecutionContext,), {"__module__": modname})
        setattr(mod, c.__name__, c)
        w["ctxs"].append(c)
        w["label"][c] = "ctx%d" % i

    rdict = {"__module__": modname}
    idict = {"__module__": modname}
    points = []
    for s, sp in enumerate(case["specs"]):
        ctx = w["ctxs"][sp["ctx"]]
        fac = sp["factory"]
        if fac == "simple_file":
            impl = sf.simple_file(_pv_path(s, 0), context=ctx)
        elif fac == "raw_file":
            impl = sf.simple_file(_pv_path(s, 0), context=ctx, kind=sf.RawFileProvider)
        elif fac == "glob_file":
            impl = sf.glob_file("etc/s%d_f*.conf" % s, context=ctx)
        elif fac == "first_file":
            impl = sf.first_file([_pv_path(s, f) for f in range(len(sp["files"]))], context=ctx)
        else:
            impl = sf.simple_command("cat %s" % os.path.join(root, _pv_path(s, 0)), context=ctx, keep_rc=sp["keep_rc"])
        reg(impl, "impl%d" % s)
        w["impls"].append(impl)
        gone = [os.path.join(root, _pv_path(s, f)) for f, fl in enumerate(sp["files"]) if fl["fault"] == "vanish"]
        if gone:
            w["vanish"][impl] = gone
        if sp["point"]:
            pt = sf.RegistryPoint(multi_output=_pv_multi(sp), raw=fac == "raw_file")
            rdict["sp%d_%d" % (uid, s)] = pt
            idict["sp%d_%d" % (uid, s)] = impl
            reg(pt, "spec%d" % s)
            points.append(pt)
        else:
            idict["free%d_%d" % (uid, s)] = impl
            points.append(None)
    registry = type("PReg%d" % uid, (sf.SpecSet,), rdict)
    setattr(mod, registry.__name__, registry)
    impls_cls = type("PImpl%d" % uid, (registry,), idict)
    setattr(mod, impls_cls.__name__, impls_cls)

    def dep_of(s, via):
        return points[s] if (via == "point" and points[s] is not None) else w["impls"][s]

    def failed(e):
        return ["failed", type(e).__name__, str(e).replace(root, "<root>")]

    for ci, c in enumerate(case["consumers"]):
        name = "c%d" % ci
        dep = dep_of(c["spec"], c["via"])
        req = [dep_of(g[1], "point") for g in c["gate"] if g[0] == "req"]
        opt = [dep_of(g[1], "point") for g in c["gate"] if g[0] == "opt"]
        kw = {"optional": opt} if opt else {}
        kind = c["kind"]
        if kind in ("parser", "stream"):
            base = StreamParser if kind == "stream" else Parser

            def parse_content(self, content, name=name):
                log.append(["call", name])
                self.v = ["v", name, _pv_plain(content)]
            body = {"__module__": modname, "parse_content": parse_content}
            cls = type("C%d_%d" % (uid, ci), (base,), body)
            if c["catch"]:
                # a parser that copes with unreadable content itself (what it saw ends up in its value)
                def _handle_content(self, context, cls=cls, name=name):
                    try:
                        super(cls, self)._handle_content(context)
                    except Exception as e:     # noqa
                        self.v = ["v", name, failed(e)]
                cls._handle_content = _handle_content
            setattr(mod, cls.__name__, cls)
            if _pv_multi(case["specs"][c["spec"]]):
                kw["continue_on_error"] = c["coe"]
            comp = parser(dep, *req, **kw)(cls)
        elif kind == "find":
            comp = sf.find(dep, c["pattern"])
        else:
            def body(*args, name=name, catch=c["catch"], dep=dep, kind=kind):
                log.append(["call", name])
                p = args[0][dep] if kind == "datasource" else args[0]

                def read(x):
                    try:
                        return [_pv_plain(x.content), x.rc]
                    except Exception as e:     # noqa
                        if not catch:
                            raise
                        return failed(e)
                return ["v", name, [read(x) for x in p] if isinstance(p, list) else read(p)]
            body.__name__ = body.__qualname__ = "c%d_%d" % (uid, ci)
            body.__module__ = modname
            setattr(mod, body.__name__, body)
            deco = {"component": component, "combiner": combiner, "condition": condition, "datasource": datasource}[kind]
            comp = deco(dep, *req, **kw)(body)
        reg(comp, name)
        w["consumers"].append(comp)

    for ti, t in enumerate(case["tops"]):
        name = "t%d" % ti

        def tbody(*args, name=name):
            log.append(["call", name])
            return ["t", name, [_pv_norm(a) for a in args]]
        tbody.__name__ = tbody.__qualname__ = "t%d_%d" % (uid, ti)
        tbody.__module__ = modname
        setattr(mod, tbody.__name__, tbody)
        deco = combiner if t["kind"] == "combiner" else condition
        kw = {"optional": [w["consumers"][i] for i in t["opt"]]} if t["opt"] else {}
        comp = deco(*[w["consumers"][i] for i in t["req"]], **kw)(tbody)
        reg(comp, name)
        w["tops"].append(comp)


def _pv_norm(v):
    from insights.core import Parser
    from insights.core.context import ExecutionContext
    from insights.core.spec_factory import ContentProvider
    if v is None or isinstance(v, (bool, int, str)):
        return v
    if isinstance(v, bytes):
        return _pv_plain(v)
    if isinstance(v, ContentProvider):
        return ["provider", type(v).__name__, v.relative_path]
    if isinstance(v, ExecutionContext):
        return "ctx"
    if isinstance(v, Parser):
        return getattr(v, "v", ["parser-without-value"])
    if isinstance(v, dict):
        return dict((str(k), _pv_norm(x)) for k, x in sorted(v.items()))
    if isinstance(v, (list, tuple)):
        return [_pv_norm(x) for x in v]
    return repr(v)


def _pv_cleanup(w):
    from insights.core import filters
    from vp.props import c05
    for c in w["comps"]:
        filters._CACHE.pop(c, None)
        filters.FILTERS.pop(c, None)
    c05._cleanup(w["comps"], w["ctxs"], w["modname"])


def check_providers(case):
    """Real spec_factory providers (lazy file / command content) read by several generated consumers:
    whichever reader the schedule runs first, every component ends with the same value, the same recorded
    failures (class and message) and the same missing-dependency report, and every body ran as often as
    in the single pass."""
    import shutil
    import tempfile
    from concurrent.futures import ThreadPoolExecutor
    from insights.core import dr
    from insights.core.plugins import datasource
    uid = next(_pv_counter)
    log = []
    root = tempfile.mkdtemp(prefix="vp_c04_")
    w = {"modname": "vp_c04_prov_%d" % uid, "ctxs": [], "comps": []}
    try:
        _pv_populate(case, root)
        _pv_build(case, uid, root, log, w)
        label = w["label"]
        graph = {}
        for c in w["consumers"] + w["tops"]:
            graph.update(dr.get_dependency_graph(c))
        for c in graph:
            if c not in label:
                raise Violation("the dependency graph of the generated readers contains a foreign component %r" % (c,))
        comps = list(w["ctxs"]) + w["comps"]
        comps = [c for c in comps if c in graph]
        idx = dict((c, k) for k, c in enumerate(comps))

        def fresh_graph():
            return dict((k, set(v)) for k, v in graph.items())

        def vanish(comp, broker):
            # the outside world: a file the spec pointed at is gone by the time somebody reads it
            if comp in broker:
                for path in w["vanish"].get(comp, ()):
                    try:
                        os.remove(path)
                    except OSError:
                        pass

        def fresh():
            del log[:]
            _pv_populate(case, root, again=True)
            br = dr.Broker()
            br.store_skips = bool(case["store_skips"])
            for c in w["ctxs"]:
                br[c] = c(root=root)
            if w["vanish"]:
                br.add_observer(vanish, datasource)
            return br

        def state(brokers):
            vals, excs, miss = {}, {}, {}
            seen = set()
            for br in brokers:
                if id(br) in seen:
                    continue
                seen.add(id(br))
                for c, v in br.instances.items():
                    if c not in label:
                        raise Violation("value stored for a component outside the graph: %r" % (c,))
                    vals[label[c]] = _pv_norm(v)
                for c, lst in br.exceptions.items():
                    if not lst:
                        continue
                    if c not in label:
                        raise Violation("a failure is recorded for a component outside the graph: %r" % (c,))
                    excs.setdefault(label[c], []).extend([type(e).__name__, str(e).replace(root, "<root>")] for e in lst)
                for c, m in br.missing_requirements.items():
                    if c not in label:
                        raise Violation("missing dependencies are reported for a component outside the graph: %r" % (c,))
                    miss[label[c]] = [sorted(label.get(x, repr(x)) for x in m[0]),
                                      sorted(sorted(label.get(x, repr(x)) for x in g) for g in m[1])]
            calls = {}
            for ev in log:
                calls[ev[1]] = calls.get(ev[1], 0) + 1
            return {"values": vals, "failures": dict((k, sorted(v)) for k, v in excs.items()), "missing": miss,
                    "calls": calls}

        def kahn(prio):
            remaining = set(comps)
            out = []
            while remaining:
                ready = [c for c in remaining if not (set(graph[c]) & remaining)]
                ready.sort(key=lambda c: (prio[idx[c] % len(prio)], idx[c]))
                out.append(ready[0])
                remaining.discard(ready[0])
            return out

        results = []
        br = fresh()
        dr.run(fresh_graph(), broker=br)
        results.append(("run", state([br])))
        orders = []
        n = len(comps)
        for k, prio in enumerate(case["prios"] + [list(range(n)), list(range(n, 0, -1))]):
            order = kahn(prio)
            orders.append(order)
            br = fresh()
            dr.run_components(order, fresh_graph(), br)
            results.append(("linear-extension-%d" % k, state([br])))
        br = fresh()
        got = list(dr.run_incremental(fresh_graph(), broker=br))
        results.append(("incremental", state(got or [br])))
        br = fresh()
        got = dr.run_all(fresh_graph(), broker=br)
        results.append(("run_all", state(got or [br])))
        for npool in case["pools"]:
            br = fresh()
            with ThreadPoolExecutor(npool) as pool:
                got = dr.run_all(fresh_graph(), broker=br, pool=pool)
            results.append(("pool-%d" % npool, state(got or [br])))

        base_label, base = results[0]
        for lab, st_ in results[1:]:
            if st_ != base:
                parts = [k for k in ("values", "failures", "missing", "calls") if st_[k] != base[k]]
                names = sorted(set(x for k in parts for x in set(st_[k]) | set(base[k]) if st_[k].get(x) != base[k].get(x)))
                raise Violation("schedule %s ends in a different state than %s (%s differ at %s): %r vs %r" % (
                    lab, base_label, "/".join(parts), ", ".join(names),
                    dict((k, dict((x, st_[k].get(x)) for x in names if x in st_[k])) for k in parts),
                    dict((k, dict((x, base[k].get(x)) for x in names if x in base[k])) for k in parts)))

        # what the case exercised
        labels = set()
        flipped_failing = False
        flipped = False
        for s, sp in enumerate(case["specs"]):
            readers = [w["consumers"][ci] for ci, c in enumerate(case["consumers"]) if c["spec"] == s]
            seqs = set(tuple(idx[c] for c in order if c in readers) for order in orders)
            loadfail = any(f["fault"] in ("dir", "vanish") for f in sp["files"]) or (
                sp["factory"] == "simple_command" and sp["files"][0]["fault"] == "missing")
            labels.add("factory=" + sp["factory"])
            labels.update("fault=" + f["fault"] for f in sp["files"])
            if len(readers) >= 2 and len(seqs) >= 2:
                flipped = True
                labels.add("shared-provider-readers-reordered")
                if loadfail and not sp["keep_rc"]:
                    flipped_failing = True
                    labels.add("failing-load-readers-reordered")
        labels.update("reader=" + c["kind"] + ("+catch" if c["catch"] else "") for c in case["consumers"])
        labels.update("ctx=" + k for k in case["ctx_kinds"])
        for c in case["consumers"]:
            if c.get("was") == "find":
                labels.add("excluded:find-sharing-a-faulty-provider")
            if c.get("was") == "stream":
                labels.add("excluded:stream-reader-sharing-a-failing-command")
        labels.add("subgraphs=%d" % len(list(dr.get_subgraphs(fresh_graph()))))
        if any(base["failures"].get(label[c]) for c in w["consumers"]):
            labels.add("reader-failure-recorded")
        if base["missing"]:
            labels.add("missing-reported")
        if flipped:
            labels.add("nontrivial")
        return {"nontrivial": flipped, "labels": sorted(labels)}
    finally:
        _pv_cleanup(w)
        shutil.rmtree(root, ignore_errors=True)


def strat_providers(tier):
    return provider_cases(tier)


def strat(tier):
    return cases(tier)


def strat_hs(tier):
    # the hash-seed list is part of the case so that a replay is self-contained; it is derived from
    # VERIF_SEED through the runner's per-worker seed (see hash_seeds)
    base = int(os.environ.get("VERIF_SEED", "1") or "1")
    seeds = hash_seeds(tier, base)
    size = 25 if tier == "quick" else 60
    return st.fixed_dictionaries({"batch": st.lists(cases(tier), min_size=size // 2, max_size=size),
                                  "hash_seeds": st.just(seeds)})


SUBS = [
    Sub("providers", check_providers, strategy=strat_providers, quick=110, thorough=2500, workers_quick=3),
    Sub("override", check_override, strategy=strat_override, quick=1100, thorough=6000, workers_quick=3),
    Sub("schedules", check, strategy=strat, quick=950, thorough=5000, workers_quick=4),
    Sub("hashseeds", check_hashseeds, strategy=strat_hs, quick=6, thorough=12, workers_quick=2, workers_thorough=4,
        budget_quick=90, budget_thorough=900),
]

_N = {"multi": 0, "efaults": ["ok"], "coe": True, "decl": [], "fault": "ok"}


def _R(kind, spec=0, **kw):
    return dict({"kind": kind, "spec": spec, "via": "point", "catch": False, "coe": True, "gate": [], "pattern": "a"}, **kw)


REGRESSIONS = [
    # finding C04-stream-reader-error-order (fixed, be19ac3): the first streaming reader of a provider whose load
    # fails got a ContentException, every later one (and a streaming reader that came after a .content
    # reader) the raw error - who recorded what, and how many failures the registry point collected,
    # depended on the evaluation order
    Reg("stream-and-content-readers-of-a-failing-load", "providers", {
        "ctx_kinds": ["archive"], "store_skips": False, "pools": [2], "tops": [],
        "specs": [{"ctx": 0, "factory": "simple_file", "point": True, "keep_rc": False,
                   "files": [{"lines": ["a"], "fault": "dir"}]}],
        "consumers": [_R("parser"), _R("stream")], "prios": [[0, 0, 0, 1, 0]]}),
    Reg("two-stream-readers-of-a-vanished-file", "providers", {
        "ctx_kinds": ["host"], "store_skips": True, "pools": [1], "tops": [{"kind": "combiner", "req": [], "opt": [0, 1]}],
        "specs": [{"ctx": 0, "factory": "first_file", "point": True, "keep_rc": False,
                   "files": [{"lines": ["a"], "fault": "vanish"}, {"lines": ["b"], "fault": "ok"}]}],
        "consumers": [_R("stream"), _R("stream", via="impl")], "prios": [[0, 0, 0, 0, 0, 0]]}),
    # pinned known finding C04-find-mode-switch (class kept out of generation): find() reads .content or stream()
    # depending on whether somebody loaded the provider before
    Reg("find-and-parser-on-a-directory", "providers", {
        "ctx_kinds": ["archive"], "store_skips": False, "pools": [2], "tops": [],
        "specs": [{"ctx": 0, "factory": "simple_file", "point": True, "keep_rc": False,
                   "files": [{"lines": ["a"], "fault": "dir"}]}],
        "consumers": [_R("parser"), _R("find")], "prios": [[0, 0, 0, 1, 0]]},
        expect="known", finding="C04-find-mode-switch"),
    Reg("find-and-parser-on-an-empty-file-host", "providers", {
        "ctx_kinds": ["host"], "store_skips": False, "pools": [2], "tops": [],
        "specs": [{"ctx": 0, "factory": "simple_file", "point": True, "keep_rc": False,
                   "files": [{"lines": ["a"], "fault": "empty"}]}],
        "consumers": [_R("parser"), _R("find")], "prios": [[0, 0, 0, 1, 0]]},
        expect="known", finding="C04-find-mode-switch"),
    # pinned known finding C04-command-stream-vs-content (class kept out of generation): stream() of a command
    # ignores the exit status and spells argv[0] differently than .content
    Reg("stream-and-parser-on-a-failing-command", "providers", {
        "ctx_kinds": ["archive"], "store_skips": False, "pools": [2], "tops": [],
        "specs": [{"ctx": 0, "factory": "simple_command", "point": True, "keep_rc": False,
                   "files": [{"lines": ["a"], "fault": "missing"}]}],
        "consumers": [_R("parser"), _R("stream")], "prios": [[0, 0, 0, 1, 0]]},
        expect="known", finding="C04-command-stream-vs-content"),
    Reg("stream-and-parser-on-a-failing-command-keep-rc", "providers", {
        "ctx_kinds": ["archive"], "store_skips": False, "pools": [2], "tops": [],
        "specs": [{"ctx": 0, "factory": "simple_command", "point": True, "keep_rc": True,
                   "files": [{"lines": ["a"], "fault": "missing"}]}],
        "consumers": [_R("parser"), _R("stream")], "prios": [[0, 0, 0, 1, 0]]},
        expect="known", finding="C04-command-stream-vs-content"),
    # finding C04-sac-keyerror (fixed): a pre-populated component that is a dependency of another
    # pre-populated one made dr.run raise KeyError for some dict orders under a serialized-archive broker
    Reg("serialized-archive-nested-seeds", "schedules", {
        "seeded": [0, 1, 3], "seed_vals": {}, "disabled": [], "store_skips": False, "graph": {"kind": "full"}, "sac": True,
        "prios": [[0, 1, 2, 3, 4]], "pools": [2],
        "nodes": [dict(_N, t="component"), dict(_N, t="component", decl=[["req", 0]]),
                  dict(_N, t="combiner", decl=[["req", 1], ["opt", 0]]), dict(_N, t="component", decl=[["grp", [1, 0]]]),
                  dict(_N, t="rule", decl=[["req", 3], ["opt", 2]])]}),
    Reg("two-parts-with-fault", "schedules", {
        "seeded": [], "disabled": [], "store_skips": False, "graph": {"kind": "full"},
        "prios": [[0, 1, 2, 3, 4, 5], [5, 4, 3, 2, 1, 0]], "pools": [2, 4],
        "nodes": [dict(_N, t="datasource", fault="content"), dict(_N, t="regpoint", decl=[["grp", [0]]]),
                  dict(_N, t="parser", decl=[["req", 1]]), dict(_N, t="component"),
                  dict(_N, t="combiner", decl=[["req", 3], ["opt", 3]]), dict(_N, t="rule", decl=[["grp", [4, 3]]])]}),
]

if __name__ == "__main__":
    if sys.argv[1:] == ["child"]:
        child_main()
