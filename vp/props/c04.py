"""C04 - evaluation results do not depend on scheduling."""
import json
import os
import subprocess
import sys

from hypothesis import strategies as st

from vp import dyn
from vp.core import Sub, Reg, Violation, REPO, VERIF

PROPERTY = "C04"
RULE = ("random component graphs made of 1-4 disconnected parts with deterministic bodies and faults, "
        "evaluated (i) by dr.run, (ii) through k harness-chosen linear extensions (run_components), "
        "(iii) by run_incremental / run_all with a shared broker and with one broker per sub-graph, "
        "(iv) by run_all on ThreadPoolExecutor(n), n in {1,2,4,8}, (v) in child interpreters under "
        "several PYTHONHASHSEED values. Oracle: the normalised final state (values, recorded exception "
        "classes+messages per component, missing-dependency reports) is identical for all schedules and "
        "hash seeds, equals the reference evaluator's values/reports, every body ran exactly as often as "
        "in the serial run, and get_subgraphs yields a partition closed under edges. Non-trivial: >= 2 "
        "sub-graphs and >= 2 distinct linear extensions tried, or a fault whose dependents span >= 2 "
        "topological levels.")
ASSUMPTIONS = [
    "thread interleavings inside the pool are sampled, not enumerated (bodies are deterministic, "
    "sub-graphs disjoint; the harness owns which linear extension and which partition is used)",
    "exec_times and log output are not part of the compared state; no HostContext in pooled runs",
]


@st.composite
def cases(draw, tier="quick"):
    parts = draw(st.sampled_from([1, 2, 2, 3, 4]))
    case = draw(dyn.graphs(min_nodes=3, max_nodes=12 if tier == "quick" else 16, parts=parts))
    n = len(case["nodes"])
    pick = draw(st.integers(0, 5))
    if pick == 0:
        case["graph"] = {"kind": "targets", "targets": sorted(draw(st.sets(st.integers(0, n - 1), min_size=1, max_size=min(3, n))))}
    elif pick == 1:
        # a graph dict that is not closed under dependencies (as process_dir / get_subgraphs build them)
        case["graph"] = {"kind": "subset", "subset": sorted(draw(st.sets(st.integers(0, n - 1), min_size=1, max_size=n)))}
    else:
        case["graph"] = {"kind": "full"}
    case["prios"] = draw(st.lists(st.lists(st.integers(0, 30), min_size=n, max_size=n), min_size=2, max_size=4))
    case["pools"] = sorted(draw(st.sets(st.sampled_from([1, 2, 4, 8]), min_size=1, max_size=2)))
    case["sac"] = bool(case["seeded"]) and draw(st.integers(0, 3)) == 0
    return case


def _graph(case, b):
    nodes = case["nodes"]
    comps = b.comps
    g = case.get("graph", {"kind": "full"})
    if g["kind"] == "full":
        active = set(range(len(nodes)))
    elif g["kind"] == "subset":
        active = set(g["subset"])
    else:
        active = dyn.closure(case, g["targets"])
    graph = dict((comps[i], set(comps[j] for j in dyn.dep_set(nodes[i]))) for i in sorted(active))
    return graph, active


def _canon_missing(m):
    return [sorted(set(m[0])), sorted(set(tuple(sorted(set(g))) for g in m[1]))]


def state_of(b, brokers, shared):
    """Normalised final state over one or several brokers."""
    vals, excs, miss = {}, {}, {}
    seen = set()
    for br in brokers:
        if id(br) in seen:
            continue
        seen.add(id(br))
        for c, v in br.instances.items():
            i = b.index.get(c)
            if i is None and getattr(c, "__name__", "") == "SerializedArchiveContext":
                continue        # the context object the harness itself put there
            if i is None:
                raise Violation("value stored for a component outside the graph: %r" % (c,))
            if i in vals and not shared:
                raise Violation("node %d has a value in two sub-graph brokers (duplicated by the split)" % i)
            vals[i] = dyn.to_json(dyn.norm_value(b, v))
        for c, lst in br.exceptions.items():
            if not lst:
                continue
            i = b.index.get(c)
            if i is None:
                raise Violation("an exception is recorded for a component outside the graph: %r" % (c,))
            excs.setdefault(i, []).extend((type(e).__name__, str(e)) for e in lst)
        for c, m in br.missing_requirements.items():
            i = b.index.get(c)
            if i is None:
                raise Violation("missing dependencies are reported for a component outside the graph: %r" % (c,))
            miss[i] = _canon_missing(([b.index.get(x, repr(x)) for x in m[0]],
                                      [[b.index.get(x, repr(x)) for x in g] for g in m[1]]))
    excs = dict((k, sorted(v)) for k, v in excs.items())
    return {"values": vals, "exceptions": excs, "missing": miss}


def _calls(b):
    out = {}
    for ev in b.log:
        if ev[0] == "call":
            out[ev[1]] = out.get(ev[1], 0) + 1
    return out


def _fresh_broker(case, b):
    from insights.core import dr
    broker = dr.Broker()
    broker.store_skips = case["store_skips"]
    for i in case["seeded"]:
        broker[b.comps[i]] = dyn.seed_value(case, i)
    if case.get("sac"):
        # a broker hydrated from a serialized archive: dr.run() then leaves out the direct dependencies of
        # everything the archive already supplied
        from insights.core.context import SerializedArchiveContext
        broker[SerializedArchiveContext] = SerializedArchiveContext()
    return broker


def run_schedules(case, b, which=None):
    """Runs the case under every schedule; returns [(label, state, calls)]."""
    from concurrent.futures import ThreadPoolExecutor
    from insights.core import dr
    comps = b.comps
    for i in case["disabled"]:
        dr.set_enabled(comps[i], False)
    graph, active = _graph(case, b)
    results = []

    def fresh_graph():
        return dict((k, set(v)) for k, v in graph.items())

    def record(label, brokers, shared=True):
        results.append((label, state_of(b, brokers, shared), _calls(b)))
        b.log[:] = []
        b.raised.clear()

    # (i) single pass
    br = _fresh_broker(case, b)
    dr.run(fresh_graph(), broker=br)
    record("run", [br])
    # (ii) linear extensions chosen by the harness (not with a serialized-archive broker: the pruning of
    # already supplied components' dependencies is done by dr.run, which run_components bypasses)
    orders = set()
    for k, prio in enumerate([] if case.get("sac") else case["prios"]):
        order = dyn.linear_extension(case, active, prio)
        orders.add(tuple(order))
        br = _fresh_broker(case, b)
        dr.run_components([comps[i] for i in order], fresh_graph(), br)
        record("linear-extension-%d" % k, [br])
    for name, prio in (() if case.get("sac") else (("reverse-index", None),)):
        order = dyn.linear_extension(case, active, [len(comps) - i for i in range(len(comps))])
        orders.add(tuple(order))
        br = _fresh_broker(case, b)
        dr.run_components([comps[i] for i in order], fresh_graph(), br)
        record(name, [br])
    # (iii) one sub-graph at a time
    br = _fresh_broker(case, b)
    got = list(dr.run_incremental(fresh_graph(), broker=br))
    record("incremental-shared", got or [br])
    br = _fresh_broker(case, b)
    got = dr.run_all(fresh_graph(), broker=br)
    record("run_all-shared", got or [br])
    plain = not case["seeded"] and not case["store_skips"] and not case.get("sac")
    if plain:
        got = list(dr.run_incremental(fresh_graph()))
        record("incremental-separate", got, shared=False)
    # (iv) thread pool
    for n in case["pools"]:
        br = _fresh_broker(case, b)
        with ThreadPoolExecutor(n) as pool:
            got = dr.run_all(fresh_graph(), broker=br, pool=pool)
        record("pool-%d-shared" % n, got or [br])
        if plain:
            with ThreadPoolExecutor(n) as pool:
                got = dr.run_all(fresh_graph(), pool=pool)
            record("pool-%d-separate" % n, got, shared=False)
    return results, active, len(orders)


def check_partition(case, b):
    from insights.core import dr
    graph, active = _graph(case, b)
    subs = list(dr.get_subgraphs(dict((k, set(v)) for k, v in graph.items())))
    seen = {}
    for k, sg in enumerate(subs):
        for c in sg:
            i = b.index.get(c)
            if i is None or i not in active:
                raise Violation("get_subgraphs yielded a component that is not in the graph: %r" % (c,))
            if i in seen:
                raise Violation("node %d appears in two sub-graphs" % i)
            seen[i] = k
            if set(b.index.get(d) for d in sg[c]) != dyn.dep_set(case["nodes"][i]):
                raise Violation("sub-graph lists wrong dependencies for node %d" % i)
    if set(seen) != active:
        raise Violation("sub-graphs lose components: %r missing" % (sorted(active - set(seen)),))
    for i in active:
        for j in dyn.dep_set(case["nodes"][i]):
            if j in active and seen[i] != seen[j]:
                raise Violation("edge %d -> %d crosses two sub-graphs" % (i, j))
    return len(subs)


def check(case):
    b = dyn.build(case)
    try:
        nsub = check_partition(case, b)
        results, active, norders = run_schedules(case, b)
        if case.get("sac"):
            pruned = set()
            for i in case["seeded"]:
                if i in active:
                    pruned |= dyn.dep_set(case["nodes"][i])
            active = set(active) - pruned
        ex = dyn.model(case, active)
        want_vals = dict((i, dyn.to_json(v)) for i, v in ex.val.items())
        want_miss = dict((i, _canon_missing(m)) for i, m in ex.missing.items())
        base_label, base, base_calls = results[0]
        for label, state, calls in results:
            if state["values"] != want_vals:
                diff = sorted(i for i in set(state["values"]) | set(want_vals) if state["values"].get(i) != want_vals.get(i))
                raise Violation("schedule %s: values at nodes %r are %r, the dependency semantics give %r" % (
                    label, diff, [state["values"].get(i) for i in diff], [want_vals.get(i) for i in diff]))
            if state["missing"] != want_miss:
                raise Violation("schedule %s: missing-dependency reports %r, expected %r" % (label, state["missing"], want_miss))
            if state != base:
                raise Violation("schedule %s ends in a different state than %s: %r vs %r" % (
                    label, base_label, state["exceptions"], base["exceptions"]))
            if calls != base_calls:
                raise Violation("schedule %s invoked bodies %r, the serial run %r (lost or duplicated work)" % (
                    label, calls, base_calls))
        nodes = case["nodes"]
        levels = {}
        for i, nd in enumerate(nodes):
            levels[i] = 1 + max([levels[j] for j in dyn.dep_set(nd)] or [0])
        spread = False
        for i in ex.faults:
            deps_levels = set(levels[k] for k, nd in enumerate(nodes) if i in dyn.closure(case, [k]) and k != i)
            if len(deps_levels) >= 2:
                spread = True
        nontrivial = (nsub >= 2 and norders >= 2) or spread
        labels = ["subgraphs=%d" % min(nsub, 5), "graph=" + case.get("graph", {"kind": "full"})["kind"],
                  "schedules=%d" % len(results)]
        if spread:
            labels.append("fault-spread")
        if nontrivial:
            labels.append("nontrivial")
        return {"nontrivial": nontrivial, "labels": labels}
    finally:
        dyn.cleanup(b)


# ---- hash seeds in child interpreters ------------------------------------------------------------

def child_main():
    import logging
    logging.disable(logging.CRITICAL)
    doc = json.load(sys.stdin)
    out = []
    for case in doc["cases"]:
        b = dyn.build(case)
        try:
            case = dict(case, prios=case["prios"][:1], pools=[2])
            try:
                results, active, _ = run_schedules(case, b)
                out.append({"ok": True, "results": [[lab, st_, sorted(calls.items())] for lab, st_, calls in results]})
            except Violation as v:
                out.append({"ok": False, "violation": v.msg})
        finally:
            dyn.cleanup(b)
    json.dump(out, sys.stdout, sort_keys=True)


def hash_seeds(tier, seed):
    k = 6 if tier == "quick" else 48
    seeds = [0, 1, 2]
    x = seed * 7919 + 13
    while len(seeds) < k:
        x = (x * 1103515245 + 12345) % (2 ** 31)
        s = x % 4294967295
        if s not in seeds:
            seeds.append(s)
    return seeds


def run_children(cases_, seeds):
    outs = {}
    procs = []
    payload = json.dumps({"cases": cases_})
    for hs in seeds:
        env = dict(os.environ, PYTHONHASHSEED=str(hs), PYTHONPATH=REPO + os.pathsep + VERIF,
                   PYTHONDONTWRITEBYTECODE="1")
        p = subprocess.Popen([sys.executable, "-m", "vp.props.c04", "child"], stdin=subprocess.PIPE,
                             stdout=subprocess.PIPE, stderr=subprocess.PIPE, env=env, cwd=VERIF, text=True)
        procs.append((hs, p))
        p.stdin.write(payload)
        p.stdin.close()
    for hs, p in procs:
        text = p.stdout.read()
        err = p.stderr.read()
        p.wait()
        if p.returncode != 0:
            raise RuntimeError("child interpreter (PYTHONHASHSEED=%s) failed:\n%s" % (hs, err[-3000:]))
        outs[hs] = json.loads(text)
    return outs


def check_hashseeds(case):
    batch = case["batch"]
    seeds = case["hash_seeds"]
    outs = run_children(batch, seeds)
    nontrivial = False
    for k, c in enumerate(batch):
        ref = outs[seeds[0]][k]
        for hs in seeds:
            got = outs[hs][k]
            if not got["ok"]:
                raise Violation("under PYTHONHASHSEED=%s: %s" % (hs, got["violation"]), case=c, hash_seed=hs)
            if got != ref:
                raise Violation("final state under PYTHONHASHSEED=%s differs from PYTHONHASHSEED=%s" % (hs, seeds[0]),
                                case=c, got=got, ref=ref)
            states = [r[1] for r in got["results"]]
            if any(s != states[0] for s in states):
                raise Violation("schedules disagree under PYTHONHASHSEED=%s" % hs, case=c)
        if len(c["nodes"]) >= 4:
            nontrivial = True
    return {"nontrivial": nontrivial, "labels": ["batch=%d" % len(batch), "hash_seeds=%d" % len(seeds)],
            "key": [dyn.digest(json.dumps(c, sort_keys=True)) for c in batch]}


# ---- overriding spec implementations under every schedule ---------------------------------------------

def check_override(case):
    """Spec sets with several implementations of one spec for the same context (no dependency edge
    between the sibling implementations): which of the siblings the schedule happens to run first must
    not change any value, recorded failure, missing report or which bodies ran."""
    from insights.core import dr
    from vp.props import c05
    wcase = case["world"]
    c05._validate(wcase)
    uid = next(c05._counter)
    log, parsed = [], []
    world = None
    try:
        world = c05._build(wcase, uid, log, parsed)
        for si in range(len(wcase["sets"])):
            world["define_set"](si)
        world["define_parsers"]()
        graph = {}
        for ps in world["parsers"]:
            graph.update(dr.get_dependency_graph(ps))
        comps = sorted(graph, key=lambda c: dr.get_name(c))
        idx = dict((c, k) for k, c in enumerate(comps))
        active = case["active"] % wcase["nctx"]
        ctx_cls = world["ctxs"][active]

        def kahn(prio):
            remaining = set(comps)
            out = []
            while remaining:
                ready = [c for c in remaining if not (set(graph[c]) & remaining)]
                ready.sort(key=lambda c: (prio[idx[c] % len(prio)], idx[c]))
                out.append(ready[0])
                remaining.discard(ready[0])
            return out

        def state(broker):
            vals = dict((dr.get_name(c), repr(v) if c not in world["ctxs"] else "ctx") for c, v in broker.instances.items())
            excs = dict((dr.get_name(c), sorted(type(e).__name__ for e in lst)) for c, lst in broker.exceptions.items() if lst)
            miss = sorted(dr.get_name(c) for c in broker.missing_requirements)
            calls = sorted(repr(e) for e in log)
            return {"values": vals, "exceptions": excs, "missing": miss, "calls": calls}

        results = []

        def fresh():
            del log[:]
            del parsed[:]
            br = dr.Broker()
            br.store_skips = bool(wcase.get("store_skips"))
            br[ctx_cls] = ctx_cls()
            return br
        br = fresh()
        dr.run(dict((k, set(v)) for k, v in graph.items()), broker=br)
        results.append(("run", state(br)))
        orders = set()
        for k, prio in enumerate(case["prios"] + [[len(comps) - i for i in range(len(comps))]]):
            order = kahn(prio)
            orders.add(tuple(idx[c] for c in order))
            br = fresh()
            dr.run_components(order, dict((k2, set(v)) for k2, v in graph.items()), br)
            results.append(("linear-extension-%d" % k, state(br)))
        br = fresh()
        dr.run_all(dict((k, set(v)) for k, v in graph.items()), broker=br)
        results.append(("run_all", state(br)))
        base = results[0]
        for label, st_ in results[1:]:
            if st_ != base[1]:
                diff = [k for k in ("values", "exceptions", "missing", "calls") if st_[k] != base[1][k]]
                raise Violation("schedule %s ends in a different state than %s (%s differ): %r vs %r" % (
                    label, base[0], "/".join(diff), dict((k, st_[k]) for k in diff), dict((k, base[1][k]) for k in diff)))
        overrides = sum(1 for p in range(len(wcase["points"]))
                        if sum(1 for s_ in wcase["sets"] for im in s_ if im["point"] == p) >= 2)
        return {"nontrivial": overrides >= 1 and len(orders) >= 2,
                "labels": ["overridden-points=%d" % min(overrides, 3), "orders=%d" % min(len(orders), 4)]}
    finally:
        if world is not None:
            c05._cleanup(world["comps"], world["ctxs"], world["modname"])


@st.composite
def override_cases(draw, tier="quick"):
    from vp.props import c05
    w = draw(c05._world(tier))
    w.pop("eval_after", None)
    return {"world": w, "active": draw(st.integers(0, 3)),
            "prios": draw(st.lists(st.lists(st.integers(0, 40), min_size=4, max_size=12), min_size=2, max_size=4))}


def strat_override(tier):
    return override_cases(tier)


def strat(tier):
    return cases(tier)


def strat_hs(tier):
    # the hash-seed list is part of the case so that a replay is self-contained; it is derived from
    # VERIF_SEED through the runner's per-worker seed (see hash_seeds)
    base = int(os.environ.get("VERIF_SEED", "1") or "1")
    seeds = hash_seeds(tier, base)
    size = 25 if tier == "quick" else 60
    return st.fixed_dictionaries({"batch": st.lists(cases(tier), min_size=1, max_size=size),
                                  "hash_seeds": st.just(seeds)})


SUBS = [
    Sub("override", check_override, strategy=strat_override, quick=1200, thorough=6000, workers_quick=3),
    Sub("schedules", check, strategy=strat, quick=1000, thorough=5000, workers_quick=4),
    Sub("hashseeds", check_hashseeds, strategy=strat_hs, quick=6, thorough=12, workers_quick=2, workers_thorough=4,
        budget_quick=90, budget_thorough=900),
]

_N = {"multi": 0, "efaults": ["ok"], "coe": True, "decl": [], "fault": "ok"}
REGRESSIONS = [
    # finding C04-sac-keyerror (fixed): a pre-populated component that is a dependency of another
    # pre-populated one made dr.run raise KeyError for some dict orders under a serialized-archive broker
    Reg("serialized-archive-nested-seeds", "schedules", {
        "seeded": [0, 1, 3], "seed_vals": {}, "disabled": [], "store_skips": False, "graph": {"kind": "full"}, "sac": True,
        "prios": [[0, 1, 2, 3, 4]], "pools": [2],
        "nodes": [dict(_N, t="component"), dict(_N, t="component", decl=[["req", 0]]),
                  dict(_N, t="combiner", decl=[["req", 1], ["opt", 0]]), dict(_N, t="component", decl=[["grp", [1, 0]]]),
                  dict(_N, t="rule", decl=[["req", 3], ["opt", 2]])]}),
    Reg("two-parts-with-fault", "schedules", {
        "seeded": [], "disabled": [], "store_skips": False, "graph": {"kind": "full"},
        "prios": [[0, 1, 2, 3, 4, 5], [5, 4, 3, 2, 1, 0]], "pools": [2, 4],
        "nodes": [dict(_N, t="datasource", fault="content"), dict(_N, t="regpoint", decl=[["grp", [0]]]),
                  dict(_N, t="parser", decl=[["req", 1]]), dict(_N, t="component"),
                  dict(_N, t="combiner", decl=[["req", 3], ["opt", 3]]), dict(_N, t="rule", decl=[["grp", [4, 3]]])]}),
]

if __name__ == "__main__":
    if sys.argv[1:] == ["child"]:
        child_main()
