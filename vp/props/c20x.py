from vp.props.c20 import *  # noqa  (temporary: generated search only, no regression cases)
from vp.props.c20 import selftest, SUBS, RULE, ASSUMPTIONS  # noqa
PROPERTY = "C20X"
REGRESSIONS = []
