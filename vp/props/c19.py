"""C19 - parser combinators implement ordered-choice PEG semantics.

Three sub-checks:

terms    generated grammar terms over the parsr combinators x inputs, decided by a reference PEG
         interpreter over the same term AST (pure function (term, input, pos) -> (pos', value) | FAIL).
         The consumed length is made observable through the public call by parsing with
         Sequence([term, Many(AnyChar)]).  Per term: *all* inputs up to a bound over a 3-letter alphabet
         plus a few generated longer ones.
json     JSON values of the documented subset (no non-ASCII, no backslash escapes other than \\", no
         exponent numbers) rendered with generated whitespace; json_parser.loads == json.loads == value
         with a type-strict comparison.
taglang  tag expressions (token chains with ! & | , parentheses, quoted tags, /regex atoms, random
         whitespace) against an independent tokenizer-free precedence-climbing evaluator, for every
         subset of the tag universe.
"""
import itertools
import json
import re

from hypothesis import strategies as st

from vp.core import Sub, Reg, Violation

PROPERTY = "C19"
RULE = ("terms: recursive strategy over Char/InSet/String/Literal/AnyChar/EOF/Sequence/Choice/Many/Until/Opt/"
        "KeepLeft/KeepRight/FollowedBy/NotFollowedBy/Map(+Backtrack)/Lift(+Backtrack)/Wrapper/Forward, built "
        "with constructors or with the operators (+ | << >> & / % .map .until, incl. +/| accumulation); "
        "repetition bodies are made consuming and recursion guarded by construction; every term is run on ALL "
        "inputs of length <= 3 (quick) / <= 5 (thorough) over a 3-letter alphabet plus generated longer inputs. "
        "Non-trivial term: has a look-ahead or choice nested under repetition or sequence AND on some input a "
        "sub-term failed after input had been consumed (real backtracking) AND it both accepted and rejected "
        "inputs; distinct by (term, build mode). json: non-trivial = nesting depth >= 2; distinct by rendered "
        "text. taglang: non-trivial = some chain mixes >= 2 operator levels without parentheses; distinct by "
        "rendered text; each expression is evaluated on every subset of the 7-tag universe.")
ASSUMPTIONS = [
    "reference PEG interpreter, reference tag-expression evaluator and JSON renderer are harness code "
    "(self-tested on fixed cases before every run); Python's json and re modules are trusted",
    "a parse 'fails' iff calling the built parser raises; values are compared type-strictly",
    "checked against a tree with fixes/C19-1..3 applied (sep_by falsy first element, empty JSON string, "
    "JSON whitespace before ':' and inside empty containers); the reproducers are regression cases",
]
EXCLUDED = [
    "context-stack combinators StartTagName/EndTagName/WithIndent/HangingString/PosMarker (outside the listed set)",
    "Map/Lift functions raising anything but Backtrack (documented hard error, not backtracking)",
    "String(echars=...) escape handling and JSON strings with backslash escapes other than \\\" or with "
    "characters outside string.printable (the grammar's documented 'primitive' subset)",
    "JSON numbers with exponent and non-ASCII text (documented as unsupported); single-quoted strings and "
    "leading-zero numbers (parsr accepts more than JSON: claim is one-directional from values)",
    "tag expressions outside the documented syntax (!!x, '! x', bare tags containing ( ! / or quotes, "
    "bare regex not followed by whitespace); rejection of ill-formed expressions is not demanded",
    "Parser.sep_by inside generated terms (covered through the JSON grammar)",
]

class _Fail(object):
    def __repr__(self):
        return "FAIL"


FAIL = _Fail()


# =================================================================================================
# 1. grammar terms
# =================================================================================================
# term AST (JSON lists):
#   ["char", c] ["inset", chars] ["string", chars, min] ["lit", text, ignore_case, value|None]
#   ["any"] ["eof"] ["ref"]
#   ["seq", [t..]] ["choice", [t..]] ["many", t, lower] ["until", t, pred] ["opt", t, default]
#   ["kl", a, b] ["kr", a, b] ["fb", a, b] ["nfb", a, b]
#   ["map", t, tag, reject] ["lift", [t..], tag, reject] ["wrap", t] ["rec", body]
#   ["withindent", t]   WithIndent: pushes the current column for the duration of t (also when t fails)
#   ["hang", chars]     HangingString(chars): reads the indentation stack; never fails

def nullable(t):
    """may succeed without consuming (conservative: ref counts as nullable)"""
    k = t[0]
    if k in ("char", "inset", "any"):
        return False
    if k == "string":
        return t[2] == 0
    if k == "lit":
        return len(t[1]) == 0
    if k in ("eof", "opt", "until", "ref", "hang"):
        return True
    if k == "withindent":
        return nullable(t[1])
    if k in ("seq", "lift"):
        return all(nullable(c) for c in t[1])
    if k == "choice":
        return any(nullable(c) for c in t[1])
    if k == "many":
        return t[2] == 0 or nullable(t[1])
    if k in ("kl", "kr"):
        return nullable(t[1]) and nullable(t[2])
    if k in ("fb", "nfb", "map", "wrap", "rec"):
        return nullable(t[1])
    raise ValueError(k)


def leftreach(t):
    """can the term invoke ["ref"] of the enclosing rec before consuming anything?"""
    k = t[0]
    if k == "ref":
        return True
    if k in ("char", "inset", "any", "string", "lit", "eof", "hang"):
        return False
    if k == "withindent":
        return leftreach(t[1])
    if k in ("seq", "lift"):
        for c in t[1]:
            if leftreach(c):
                return True
            if not nullable(c):
                return False
        return False
    if k == "choice":
        return any(leftreach(c) for c in t[1])
    if k in ("many", "opt", "map", "wrap"):
        return leftreach(t[1])
    if k == "until":
        return leftreach(t[1]) or leftreach(t[2])
    if k in ("kl", "kr", "fb", "nfb"):
        return leftreach(t[1]) or (nullable(t[1]) and leftreach(t[2]))
    if k == "rec":
        return False      # refs below belong to the inner rec
    raise ValueError(k)


def normalise(t, in_rec=False, guard="a"):
    """Put a generated term into the property's domain *by construction*: repetition bodies consume,
    recursion is guarded, refs only occur inside a rec.  Idempotent."""
    k = t[0]
    if k in ("char", "inset", "string", "lit", "any", "eof", "hang"):
        return list(t)
    if k == "withindent":
        return [k, normalise(t[1], in_rec, guard)]
    if k == "ref":
        return ["ref"] if in_rec else ["char", guard]
    if k in ("seq", "choice"):
        return [k, [normalise(c, in_rec, guard) for c in t[1]]]
    if k == "lift":
        return [k, [normalise(c, in_rec, guard) for c in t[1]], t[2], t[3]]
    if k == "many":
        body = normalise(t[1], in_rec, guard)
        if nullable(body):
            body = ["kr", ["char", guard], body]
        return [k, body, t[2]]
    if k == "until":
        body = normalise(t[1], in_rec, guard)
        if nullable(body):
            body = ["kr", ["char", guard], body]
        return [k, body, normalise(t[2], in_rec, guard)]
    if k == "opt":
        return [k, normalise(t[1], in_rec, guard), t[2]]
    if k in ("kl", "kr", "fb", "nfb"):
        return [k, normalise(t[1], in_rec, guard), normalise(t[2], in_rec, guard)]
    if k == "map":
        return [k, normalise(t[1], in_rec, guard), t[2], t[3]]
    if k == "wrap":
        return [k, normalise(t[1], in_rec, guard)]
    if k == "rec":
        body = normalise(t[1], True, guard)
        if leftreach(body):
            body = ["kr", ["char", guard], body]
        return [k, body]
    raise ValueError(k)


def effective(t, mode):
    """the term the built parser object *means*: in operator mode `x + y` accumulates onto x when x is
    already a Sequence (documented), which flattens the value list"""
    k = t[0]
    if k in ("char", "inset", "string", "lit", "any", "eof", "ref", "hang"):
        return t
    if k == "withindent":
        return [k, effective(t[1], mode)]
    if k in ("seq", "choice"):
        ch = [effective(c, mode) for c in t[1]]
        if mode == "ops" and len(ch) >= 2 and ch[0][0] == k:
            ch = list(ch[0][1]) + ch[1:]
        return [k, ch]
    if k == "lift":
        return [k, [effective(c, mode) for c in t[1]], t[2], t[3]]
    if k in ("many", "opt"):
        return [k, effective(t[1], mode), t[2]]
    if k in ("until", "kl", "kr", "fb", "nfb"):
        return [k, effective(t[1], mode), effective(t[2], mode)]
    if k == "map":
        return [k, effective(t[1], mode), t[2], t[3]]
    if k in ("wrap", "rec"):
        return [k, effective(t[1], mode)]
    raise ValueError(k)


def _mapfn(P, tag, reject):
    def fn(v, tag=tag, reject=reject):
        if v in reject:
            raise P.Backtrack("rejected by map %r" % (tag,))
        return ["m", tag, v]
    return fn


def _liftfn(P, tag, reject):
    def fn(*a):
        if list(a) in reject:
            raise P.Backtrack("rejected by lift %r" % (tag,))
        return ["l", tag, list(a)]
    return fn


def build(P, t, mode, fwd=None):
    k = t[0]
    ops = mode == "ops"
    if k == "char":
        return P.Char(t[1])
    if k == "inset":
        return P.InSet(t[1])
    if k == "string":
        return P.String(t[1], min_length=t[2])
    if k == "lit":
        if t[3] is None:
            return P.Literal(t[1], ignore_case=t[2])
        return P.Literal(t[1], value=t[3], ignore_case=t[2])
    if k == "any":
        # grammars use the module's AnyChar / EOF objects directly; the operator spelling wraps them
        return P.Wrapper(P.AnyChar) if ops else P.AnyChar
    if k == "eof":
        return P.Wrapper(P.EOF) if ops else P.EOF
    if k == "ref":
        return fwd
    if k in ("seq", "choice"):
        ch = [build(P, c, mode, fwd) for c in t[1]]
        if ops and len(ch) >= 2:
            r = ch[0]
            for c in ch[1:]:
                r = (r + c) if k == "seq" else (r | c)
            return r % ("named-%s" % k)
        return P.Sequence(ch) if k == "seq" else P.Choice(ch)
    if k == "many":
        return P.Many(build(P, t[1], mode, fwd), lower=t[2])
    if k == "until":
        a, b = build(P, t[1], mode, fwd), build(P, t[2], mode, fwd)
        return a.until(b) if ops else P.Until(a, b)
    if k == "opt":
        if t[2] is None and ops:
            return P.Opt(build(P, t[1], mode, fwd))
        return P.Opt(build(P, t[1], mode, fwd), default=t[2])
    if k in ("kl", "kr", "fb", "nfb"):
        a, b = build(P, t[1], mode, fwd), build(P, t[2], mode, fwd)
        if ops:
            return {"kl": lambda: a << b, "kr": lambda: a >> b, "fb": lambda: a & b, "nfb": lambda: a / b}[k]()
        return {"kl": P.KeepLeft, "kr": P.KeepRight, "fb": P.FollowedBy, "nfb": P.NotFollowedBy}[k](a, b)
    if k == "map":
        a = build(P, t[1], mode, fwd)
        f = _mapfn(P, t[2], t[3])
        return a.map(f) if ops else P.Map(a, f)
    if k == "lift":
        r = P.Lift(_liftfn(P, t[2], t[3]))
        for c in t[1]:
            r = r * build(P, c, mode, fwd)
        return r
    if k == "wrap":
        return P.Wrapper(build(P, t[1], mode, fwd))
    if k == "withindent":
        return P.WithIndent(build(P, t[1], mode, fwd))
    if k == "hang":
        return P.HangingString(t[1])
    if k == "rec":
        f = P.Forward()
        body = build(P, t[1], mode, f)
        f <= body      # noqa  (Forward's definition operator)
        return f
    raise ValueError(k)


class Trace(object):
    def __init__(self):
        self.backtracked = False   # a sub-term failed after input had been consumed by an earlier part
        self.rejected = False      # a Map/Lift function raised Backtrack
        self.recursed = False      # a Forward reference was followed
        self.indents = []          # indentation stack (WithIndent / HangingString)
        self.hang_read = False     # a HangingString consulted a non-empty indentation stack


def ev(t, s, pos, env, tr):
    """reference PEG semantics"""
    k = t[0]
    c = s[pos] if pos < len(s) else None
    if k == "char":
        return (pos + 1, c) if c == t[1] else FAIL
    if k == "inset":
        return (pos + 1, c) if (c is not None and c in t[1]) else FAIL
    if k == "string":
        p = pos
        while p < len(s) and s[p] in t[1]:
            p += 1
        return (p, s[pos:p]) if p - pos >= t[2] else FAIL
    if k == "lit":
        seg = s[pos:pos + len(t[1])]
        if len(seg) != len(t[1]):
            return FAIL
        if t[2]:
            if seg.lower() != t[1].lower():
                return FAIL
        elif seg != t[1]:
            return FAIL
        return (pos + len(seg), seg if t[3] is None else t[3])
    if k == "any":
        return (pos + 1, c) if c is not None else FAIL
    if k == "eof":
        return (pos, None) if c is None else FAIL
    if k == "ref":
        tr.recursed = True
        return ev(env, s, pos, env, tr)
    if k == "rec":
        return ev(t[1], s, pos, t[1], tr)
    if k in ("seq", "lift"):
        vals = []
        start = pos
        for ch in t[1]:
            r = ev(ch, s, pos, env, tr)
            if r is FAIL:
                if pos > start:
                    tr.backtracked = True
                return FAIL
            pos, v = r
            vals.append(v)
        if k == "seq":
            return (pos, vals)
        if vals in t[3]:
            tr.rejected = True
            if pos > start:
                tr.backtracked = True
            return FAIL
        return (pos, ["l", t[2], vals])
    if k == "choice":
        for ch in t[1]:
            r = ev(ch, s, pos, env, tr)
            if r is not FAIL:
                return r
        return FAIL
    if k == "many":
        vals = []
        start = pos
        while True:
            r = ev(t[1], s, pos, env, tr)
            if r is FAIL:
                break
            pos, v = r
            vals.append(v)
        if len(vals) < t[2]:
            if pos > start:
                tr.backtracked = True
            return FAIL
        return (pos, vals)
    if k == "until":
        vals = []
        while True:
            if ev(t[2], s, pos, env, tr) is not FAIL:
                break
            r = ev(t[1], s, pos, env, tr)
            if r is FAIL:
                break
            pos, v = r
            vals.append(v)
        return (pos, vals)
    if k == "opt":
        r = ev(t[1], s, pos, env, tr)
        return r if r is not FAIL else (pos, t[2])
    if k in ("kl", "kr"):
        r1 = ev(t[1], s, pos, env, tr)
        if r1 is FAIL:
            return FAIL
        r2 = ev(t[2], s, r1[0], env, tr)
        if r2 is FAIL:
            if r1[0] > pos:
                tr.backtracked = True
            return FAIL
        return (r2[0], r1[1] if k == "kl" else r2[1])
    if k in ("fb", "nfb"):
        r1 = ev(t[1], s, pos, env, tr)
        if r1 is FAIL:
            return FAIL
        r2 = ev(t[2], s, r1[0], env, tr)
        if (r2 is FAIL) == (k == "fb"):
            if r1[0] > pos:
                tr.backtracked = True
            return FAIL
        return r1
    if k == "map":
        r = ev(t[1], s, pos, env, tr)
        if r is FAIL:
            return FAIL
        if r[1] in t[3]:
            tr.rejected = True
            if r[0] > pos:
                tr.backtracked = True
            return FAIL
        return (r[0], ["m", t[2], r[1]])
    if k == "wrap":
        return ev(t[1], s, pos, env, tr)
    if k == "withindent":
        # no whitespace in the alphabet: the column is the position; the entry lives exactly as long as
        # the wrapped term is being matched, whether it succeeds or fails
        tr.indents.append(pos)
        try:
            return ev(t[1], s, pos, env, tr)
        finally:
            tr.indents.pop()
    if k == "hang":
        # one line, no continuation lines in this alphabet: the rest of the input if it is made of the
        # given characters and lies right of the innermost indentation; otherwise the empty string
        if not tr.indents:
            return (pos, "")
        tr.hang_read = True
        if pos > tr.indents[-1] and pos < len(s) and all(ch in t[1] for ch in s[pos:]):
            return (len(s), s[pos:])
        return (pos, "")
    raise ValueError(k)


def same(a, b):
    """type-strict structural equality (True != 1, 1 != 1.0, tuple != list)"""
    if type(a) is not type(b):
        return False
    if isinstance(a, list):
        return len(a) == len(b) and all(same(x, y) for x, y in zip(a, b))
    if isinstance(a, dict):
        return sorted(a) == sorted(b) and all(same(a[k], b[k]) for k in a)
    if isinstance(a, float):
        return a == b or (a != a and b != b)
    return a == b


def _kinds(t, out, under=False, flags=None):
    """collect combinator kinds; flags['nested'] = look-ahead/choice below a repetition or sequence"""
    k = t[0]
    out.add(k)
    if k in ("fb", "nfb", "choice", "until") and under:
        flags["nested"] = True
    sub_under = under or k in ("many", "until", "seq", "lift", "kl", "kr")
    for x in t[1:]:
        if isinstance(x, list) and x and isinstance(x[0], str) and x[0] in _KINDS:
            _kinds(x, out, sub_under, flags)
        elif isinstance(x, list):
            for y in x:
                if isinstance(y, list) and y and isinstance(y[0], str) and y[0] in _KINDS:
                    _kinds(y, out, sub_under, flags)


_KINDS = set(["char", "inset", "string", "lit", "any", "eof", "ref", "seq", "choice", "many", "until", "opt",
              "kl", "kr", "fb", "nfb", "map", "lift", "wrap", "rec", "withindent", "hang"])


def _all_inputs(alpha, maxlen):
    for n in range(0, maxlen + 1):
        for p in itertools.product(alpha, repeat=n):
            yield "".join(p)


def _literals_of(t, out):
    if t[0] == "lit" and isinstance(t[1], str) and t[1]:
        out.append(t[1])
    elif t[0] in ("char", "hang") and isinstance(t[1], str):
        out.append(t[1])
    for x in _subterms(t):
        _literals_of(x, out)
    return out


def _literal_inputs(term):
    """inputs derived from the term's own literals (a pure function of the term): a literal preceded by a
    partial match of itself, doubled, interleaved with the other literals - the texts on which scanning to a
    terminator, greedy repetition and backtracking after a partial match are decided"""
    lits = []
    for x in _literals_of(term, []):
        if x not in lits:
            lits.append(x)
    lits = lits[:4]
    out = []
    for x in lits:
        for k in range(1, len(x) + 1):
            out.append(x[:k] + x)             # 'aab' for 'ab', '**/' for '*/'
            out.append("c" + x[:k] + x + "c")
            out.append(x[:k] * 2 + x + x[:k])
        out.append(x + x)
        for y in lits:
            if y != x:
                out.append(x + y)
                out.append(y[:1] + x + y)
    seen = []
    for o in out:
        if o not in seen and len(o) <= 12:
            seen.append(o)
    return seen[:40]


def check_terms(case):
    from insights import parsr as P
    mode = case["mode"]
    term = normalise(case["term"])
    eff = effective(term, mode)
    parser = P.Sequence([build(P, term, mode), P.Many(P.AnyChar)])
    n_ok = n_fail = 0
    tr = Trace()
    inputs = list(_all_inputs(case["alpha"], case["maxlen"])) + list(case["extra"]) + _literal_inputs(eff)
    for s in inputs:
        exp = ev(eff, s, 0, None, tr)
        try:
            got = parser(s)
            ok = True
        except Exception:   # the public call reports a failed parse by raising Exception
            got = None
            ok = False
        if exp is FAIL:
            n_fail += 1
            if ok:
                raise Violation("grammar accepts %r (value %r) but PEG semantics reject it" % (s, got),
                                term=eff, mode=mode, input=s, got=got)
        else:
            n_ok += 1
            want = [exp[1], list(s[exp[0]:])]
            if not ok:
                raise Violation("grammar rejects %r but PEG semantics accept it with value %r consuming %d"
                                % (s, exp[1], exp[0]), term=eff, mode=mode, input=s, expected=want)
            if not same(got, want):
                raise Violation("on %r the grammar returns %r, PEG semantics prescribe %r "
                                "[value, unconsumed rest]" % (s, got, want), term=eff, mode=mode, input=s,
                                got=got, expected=want)
    kinds = set()
    flags = {"nested": False}
    _kinds(eff, kinds, False, flags)
    labels = ["has:" + k for k in sorted(kinds) if k not in ("char", "inset", "any")]
    labels.append("mode=" + mode)
    if flags["nested"]:
        labels.append("lookahead/choice-under-rep/seq")
    if tr.backtracked:
        labels.append("backtracked-after-consuming")
    if tr.rejected:
        labels.append("map/lift-raised-Backtrack")
    if tr.recursed:
        labels.append("recursion-followed")
    if n_ok and n_fail:
        labels.append("accepts-and-rejects")
    elif n_ok:
        labels.append("accepts-all")
    else:
        labels.append("rejects-all")
    nt = flags["nested"] and tr.backtracked and n_ok > 0 and n_fail > 0
    return {"nontrivial": nt, "labels": labels, "key": [eff, mode]}


# ---- strategy -----------------------------------------------------------------------------------

_AB = "abc"
_values = st.sampled_from(["a", "b", "ab", "", [], None, ["a"], ["a", "b"], "dflt", 0])


_rejectable = st.sampled_from(["a", "b", "c", "a", "b", "ab", "aa", "", [], None, ["a"], ["b"], ["a", "b"], ["a", "a"]])


def _leaf():
    return st.one_of(
        st.tuples(st.just("char"), st.sampled_from(_AB)).map(list),
        st.tuples(st.just("inset"), st.text(_AB, min_size=1, max_size=2)).map(list),
        st.tuples(st.just("string"), st.text(_AB, min_size=1, max_size=2), st.integers(0, 2)).map(list),
        st.tuples(st.just("lit"), st.text("abAB", min_size=0, max_size=2), st.booleans(),
                  st.one_of(st.none(), st.integers(0, 3))).map(list),
        st.just(["any"]), st.just(["eof"]), st.just(["ref"]),
        st.tuples(st.just("char"), st.sampled_from(_AB)).map(list),
        st.tuples(st.just("hang"), st.sampled_from(["a", "ab", "abc", "bc"])).map(list),
    )


def _ext(ch):
    rej = st.one_of(st.just([]), st.lists(_rejectable, min_size=1, max_size=4))
    return st.one_of(
        st.tuples(st.just("seq"), st.lists(ch, min_size=1, max_size=3)).map(list),
        st.tuples(st.just("choice"), st.lists(ch, min_size=1, max_size=3)).map(list),
        st.tuples(st.just("many"), ch, st.integers(0, 2)).map(list),
        st.tuples(st.just("until"), ch, ch).map(list),
        st.tuples(st.just("opt"), ch, st.one_of(st.none(), st.just("dflt"), st.just(0))).map(list),
        st.tuples(st.just("kl"), ch, ch).map(list), st.tuples(st.just("kr"), ch, ch).map(list),
        st.tuples(st.just("fb"), ch, ch).map(list), st.tuples(st.just("nfb"), ch, ch).map(list),
        st.tuples(st.just("map"), ch, st.integers(0, 2), rej).map(list),
        st.tuples(st.just("lift"), st.lists(ch, min_size=1, max_size=3), st.integers(0, 2),
                  st.lists(st.lists(_rejectable, min_size=1, max_size=2), max_size=3)).map(list),
        st.tuples(st.just("wrap"), ch).map(list),
        st.tuples(st.just("withindent"), ch).map(list),
        # an indentation scope whose first alternative (itself a scope) fails before a HangingString reads it
        st.tuples(ch, ch, st.sampled_from(["a", "ab", "abc"])).map(
            lambda p: ["withindent", ["seq", [p[0], ["choice", [["withindent", p[1]], ["hang", p[2]]]]]]]),
        st.tuples(st.just("rec"), ch).map(list),
        # guarded recursion that really recurses:  R <- x R y / z   and   R <- x R?
        st.tuples(ch, ch, ch).map(lambda p: ["rec", ["choice", [["seq", [p[0], ["ref"], p[1]]], p[2]]]]),
        st.tuples(ch, st.sampled_from(["seq", "kr", "kl"])).map(
            lambda p: ["rec", ([p[1], [p[0], ["opt", ["ref"], None]]] if p[1] == "seq" else
                               [p[1], p[0], ["opt", ["ref"], None]])]),
        # scanners: repetition up to a (multi-character) terminator, as in the shipped comment / quoted-string /
        # heredoc grammars; the terminator can be preceded by a partial match of itself
        st.tuples(st.sampled_from([["any"], ["any"], ["inset", "ab"], ["inset", "abc"], ["char", "a"]]),
                  st.one_of(st.tuples(st.just("lit"), st.sampled_from(["ab", "ba", "aab", "abb", "aba", "aa", "abc", "b"]),
                                      st.booleans(), st.none()).map(list),
                            st.tuples(st.just("inset"), st.sampled_from(["a", "ab", "bc"])).map(list),
                            st.tuples(st.just("char"), st.sampled_from(_AB)).map(list), ch)
                  ).map(lambda p: ["until", p[0], p[1]]),
        st.tuples(st.tuples(st.just("lit"), st.sampled_from(["ab", "a", "aab"]), st.booleans(), st.none()).map(list),
                  st.sampled_from(["ab", "ba", "aab", "abb", "b"])).map(
            lambda p: ["seq", [p[0], ["until", ["any"], ["lit", p[1], False, None]], ["lit", p[1], False, None]]]),
        st.tuples(st.just("many"), st.tuples(st.just("kr"), st.tuples(st.just("nfb"), st.just(["lit", "ab", False, None]),
                                                                       st.just(["any"])).map(list), st.just(["any"])).map(list),
                  st.integers(0, 1)).map(list),
        # shapes the property names: look-ahead inside repetition, choice under sequence
        st.tuples(st.just("many"), st.tuples(st.sampled_from(["fb", "nfb"]), ch, ch).map(list),
                  st.integers(0, 1)).map(list),
        st.tuples(st.just("seq"), st.tuples(st.tuples(st.just("choice"), st.lists(ch, min_size=2, max_size=3)).map(list),
                                            ch).map(list)).map(list),
    )


def _has_case(t):
    if t[0] == "lit":
        return t[2] or t[1] != t[1].lower()
    return any(_has_case(x) for x in _subterms(t))


def _subterms(t):
    for x in t[1:]:
        if isinstance(x, list) and x and isinstance(x[0], str) and x[0] in _KINDS:
            yield x
        elif isinstance(x, list):
            for y in x:
                if isinstance(y, list) and y and isinstance(y[0], str) and y[0] in _KINDS:
                    yield y


@st.composite
def _term_case(draw, tier):
    t = normalise(draw(st.recursive(_leaf(), _ext, max_leaves=8)))
    mode = draw(st.sampled_from(["ctor", "ops"]))
    if _has_case(t):
        alpha = draw(st.sampled_from(["abA", "aAB", "abc"]))
    else:
        alpha = "abc"
    extra = draw(st.lists(st.text("abcAB", min_size=4, max_size=9), max_size=8))
    return {"term": t, "mode": mode, "alpha": alpha, "maxlen": 3 if tier == "quick" else 5, "extra": extra}


def strat_terms(tier):
    return _term_case(tier)


# =================================================================================================
# 2. JSON example grammar vs json
# =================================================================================================

_WS = ["", " ", "\n", "\t", "  ", "\r\n", "\n    ", " \t "]
_JCHARS = "".join(chr(i) for i in range(0x20, 0x7f) if chr(i) != "\\")


class _WsSource(object):
    def __init__(self, seq):
        self.seq = seq or [0]
        self.i = 0
        self.used = set()

    def next(self, slot):
        w = _WS[self.seq[self.i % len(self.seq)] % len(_WS)]
        self.i += 1
        if w:
            self.used.add(slot)
        return w


def _render_str(s):
    return '"' + s.replace('"', '\\"') + '"'


def _render_num(v):
    r = repr(v)
    if isinstance(v, float) and ("e" in r or "E" in r or "n" in r):
        raise ValueError("float outside the documented subset: %r" % (v,))
    return r


def render(v, ws):
    """JSON text of v with generated whitespace at every position where RFC 8259 allows it"""
    if v is None:
        return "null"
    if v is True:
        return "true"
    if v is False:
        return "false"
    if isinstance(v, (int, float)):
        return _render_num(v)
    if isinstance(v, str):
        return _render_str(v)
    if isinstance(v, list):
        if not v:
            return "[" + ws.next("empty-container") + "]"
        parts = [ws.next("before-item") + render(x, ws) + ws.next("after-item") for x in v]
        return "[" + ",".join(parts) + "]"
    if isinstance(v, dict):
        if not v:
            return "{" + ws.next("empty-container") + "}"
        parts = []
        for k in sorted(v):
            parts.append(ws.next("before-key") + _render_str(k) + ws.next("before-colon") + ":" +
                         ws.next("after-colon") + render(v[k], ws) + ws.next("after-item"))
        return "{" + ",".join(parts) + "}"
    raise ValueError(type(v))


def _depth(v):
    if isinstance(v, list):
        return 1 + max([_depth(x) for x in v] or [0])
    if isinstance(v, dict):
        return 1 + max([_depth(x) for x in v.values()] or [0])
    return 0


def _walk(v):
    yield v
    if isinstance(v, list):
        for x in v:
            for y in _walk(x):
                yield y
    elif isinstance(v, dict):
        for k in sorted(v):
            yield k
            for y in _walk(v[k]):
                yield y


def check_json(case):
    from insights.parsr.examples import json_parser
    value = case["value"]
    if case.get("dumps") is not None:
        d = case["dumps"]
        text = json.dumps(value, indent=d["indent"], separators=tuple(d["separators"]) if d["separators"] else None,
                          sort_keys=True)
        if "\\" in text.replace('\\"', ""):
            raise ValueError("generated value needs escapes outside the documented subset")
        used = set()
    else:
        ws = _WsSource(case.get("ws"))
        text = ws.next("lead") + render(value, ws) + ws.next("trail")
        used = ws.used
    ref = json.loads(text)
    if not same(ref, value):
        raise ValueError("harness renderer is wrong: %r -> %r" % (value, text))
    try:
        got = json_parser.loads(text)
    except Exception as e:   # parsr reports parse errors as plain Exception
        raise Violation("JSON grammar rejects %r which json.loads decodes to %r" % (text, ref), text=text,
                        error=str(e)[:300])
    if not same(got, ref):
        raise Violation("JSON grammar decodes %r to %r, json.loads to %r" % (text, got, ref), text=text,
                        got=repr(got), expected=repr(ref))
    labels = ["depth=%d" % min(_depth(value), 4)]
    nodes = list(_walk(value))
    if any(isinstance(x, list) and x and not x[0] for x in nodes):
        labels.append("falsy-first-array-element")
    if any(isinstance(x, str) and x == "" for x in nodes):
        labels.append("empty-string")
    if any(isinstance(x, str) and '"' in x for x in nodes):
        labels.append("escaped-quote")
    if any(isinstance(x, float) for x in nodes):
        labels.append("float")
    if any(isinstance(x, (list, dict)) and not x for x in nodes):
        labels.append("empty-container")
    for u in sorted(used):
        if u in ("empty-container", "before-colon"):
            labels.append("ws:" + u)
    labels.append("render=dumps" if case.get("dumps") is not None else "render=slots")
    return {"nontrivial": _depth(value) >= 2, "labels": labels, "key": text}


def _float_from(parts):
    neg, ip, fp = parts
    v = float(("-" if neg else "") + ip + "." + fp)
    r = repr(v)
    if "e" in r or "E" in r:
        v = float(("-" if neg else "") + ip + ".5")
        if "e" in repr(v):
            v = 0.5
    return v


_jfloat = st.tuples(st.booleans(), st.text("0123456789", min_size=1, max_size=12).map(lambda s: str(int(s))),
                    st.text("0123456789", min_size=1, max_size=6)).map(_float_from)
_jint = st.one_of(st.integers(-3, 3), st.integers(-10 ** 6, 10 ** 6), st.integers(-10 ** 30, 10 ** 30))
_jstr = st.one_of(st.text(_JCHARS, max_size=6), st.sampled_from(["", "a", " ", "'", '"', "a b", "[1]", "{", ",", ":"]),
                  st.text("ab\"' ,:[]{}0", max_size=8))
_jscalar = st.one_of(st.none(), st.booleans(), _jint, _jfloat, _jstr, st.sampled_from([0, False, None, "", 0.0]))
_jvalue = st.recursive(_jscalar, lambda ch: st.one_of(st.lists(ch, max_size=4),
                                                      st.dictionaries(_jstr, ch, max_size=4)), max_leaves=14)


@st.composite
def _json_case(draw):
    value = draw(_jvalue)
    if draw(st.integers(0, 3)) == 0:
        seps = draw(st.sampled_from([None, [",", ":"], [", ", ": "], [" , ", " : "], [",\n", ":\t"], [" ,", " :"]]))
        indent = draw(st.sampled_from([None, 0, 1, 2, 4, "\t"]))
        return {"value": value, "dumps": {"indent": indent, "separators": seps}}
    return {"value": value, "ws": draw(st.lists(st.integers(0, len(_WS) - 1), min_size=1, max_size=12)), "dumps": None}


def strat_json(tier):
    return _json_case()


# =================================================================================================
# 3. tag expressions
# =================================================================================================
# chain  := {"items": [factor, ...], "ops": [op, ...]}      len(ops) == len(items) - 1, op in & | ,
# factor := {"neg": bool, "atom": atom, "pre": int, "post": int}
# atom   := {"tag": str, "q": 0|1|2} | {"re": str, "q": 0|1|2} | {"group": chain}

UNIVERSE = ["a", "b", "c", "ab", "a-b", "a b", "x&y"]
_BARE_TAGS = ["a", "b", "c", "ab", "a-b", "d"]
_QUOTED_ONLY_TAGS = ["a b", "x&y", "a|b", "(a)", "!a"]
_BARE_RE = ["a", "^a", "b$", "^ab?$", "c|b", "(a|c)$", "-", "^[^a]*$", "a&b", "x.y"]
_QUOTED_ONLY_RE = ["a b", " ", "^a b$"]
_TWS = ["", " ", "  ", "\t", "\n"]


def _bare_tag_ok(t):
    return bool(t) and not any(c in " \t\n\r\x0b\x0c)&,|(!/'\"" for c in t)


def _bare_re_ok(p):
    return bool(p) and not any(c in " \t\n\r\x0b\x0c" for c in p) and p[0] not in "'\""


def _render_atom(a):
    if "group" in a:
        return "(" + render_chain(a["group"]) + ")", False
    if "tag" in a:
        q = a["q"] if _bare_tag_ok(a["tag"]) else (a["q"] or 1)
        body = a["tag"]
        return (body, False) if q == 0 else (('"%s"' if q == 1 else "'%s'") % body, False)
    q = a["q"] if _bare_re_ok(a["re"]) else (a["q"] or 1)
    if q == 0:
        return "/" + a["re"], True       # a bare regex runs up to the next whitespace
    return "/" + (('"%s"' if q == 1 else "'%s'") % a["re"]), False


def render_chain(ch):
    out = []
    for i, f in enumerate(ch["items"]):
        if i:
            out.append(ch["ops"][i - 1])
        body, need_ws = _render_atom(f["atom"])
        post = _TWS[f["post"] % len(_TWS)]
        if need_ws and not post:
            post = " "
        out.append(_TWS[f["pre"] % len(_TWS)] + ("!" if f["neg"] else "") + body + post)
    return "".join(out)


def _tokens(ch, out):
    """token list of a chain - the structure of *factors* is given, the structure of operators is not"""
    for i, f in enumerate(ch["items"]):
        if i:
            out.append(ch["ops"][i - 1])
        if f["neg"]:
            out.append("!")
        a = f["atom"]
        if "group" in a:
            out.append("(")
            _tokens(a["group"], out)
            out.append(")")
        elif "tag" in a:
            out.append(("tag", a["tag"]))
        else:
            out.append(("re", a["re"]))
    return out


_PREC = {"|": 1, ",": 1, "&": 2}


def ref_eval(tokens, tags):
    """precedence climbing: ! binds tightest, then &, then | and , (same level), left-associative"""
    pos = [0]

    def peek():
        return tokens[pos[0]] if pos[0] < len(tokens) else None

    def take():
        t = tokens[pos[0]]
        pos[0] += 1
        return t

    def primary():
        t = take()
        if t == "!":
            return not primary()
        if t == "(":
            v = expr(1)
            if take() != ")":
                raise ValueError("unbalanced")
            return v
        if t[0] == "tag":
            return t[1] in tags
        if t[0] == "re":
            return any(re.search(t[1], x) is not None for x in tags)
        raise ValueError(t)

    def expr(minp):
        left = primary()
        while True:
            op = peek()
            if op not in _PREC or _PREC[op] < minp:
                return left
            take()
            right = expr(_PREC[op] + 1)
            left = (left and right) if op == "&" else (left or right)

    v = expr(1)
    if pos[0] != len(tokens):
        raise ValueError("trailing tokens")
    return bool(v)


def _mixes_levels(ch):
    lv = set()
    for op in ch["ops"]:
        lv.add("and" if op == "&" else "or")
    if any(f["neg"] for f in ch["items"]) and ch["ops"]:
        lv.add("not")
    if len(lv) >= 2:
        return True
    return any(_mixes_levels(f["atom"]["group"]) for f in ch["items"] if "group" in f["atom"])


def check_taglang(case):
    from insights.core import taglang
    ch = case["expr"]
    text = render_chain(ch)
    toks = _tokens(ch, [])
    try:
        pred = taglang.parse(text)
    except Exception as e:   # parsr reports parse errors as plain Exception
        raise Violation("taglang rejects the well-formed expression %r" % (text,), text=text, error=str(e)[:300])
    n_true = 0
    for bits in range(1 << len(UNIVERSE)):
        tags = [t for i, t in enumerate(UNIVERSE) if bits >> i & 1]
        want = ref_eval(toks, tags)
        got_l = pred(tags)
        got_s = pred(set(tags))
        if bool(got_l) != want or bool(got_s) != want:
            raise Violation("taglang evaluates %r on tags %r to %r (list) / %r (set); boolean evaluation under "
                            "the stated precedence gives %r" % (text, tags, got_l, got_s, want), text=text, tags=tags)
        n_true += want
    ops = set()

    def collect(c):
        for op in c["ops"]:
            ops.add(op)
        for f in c["items"]:
            if f["neg"]:
                ops.add("!")
            a = f["atom"]
            if "group" in a:
                ops.add("()")
                collect(a["group"])
            elif "re" in a:
                ops.add("/re")
            elif a["q"] or not _bare_tag_ok(a["tag"]):
                ops.add("quoted")
    collect(ch)
    labels = ["op:" + o for o in sorted(ops)]
    labels.append("constant" if n_true in (0, 1 << len(UNIVERSE)) else "contingent")
    mixes = _mixes_levels(ch)
    if mixes:
        labels.append("mixes-levels-unparenthesised")
    return {"nontrivial": mixes and 0 < n_true < (1 << len(UNIVERSE)), "labels": labels, "key": text}


_atom_leaf = st.one_of(
    st.builds(lambda t, q: {"tag": t, "q": q}, st.sampled_from(_BARE_TAGS + _BARE_TAGS + _QUOTED_ONLY_TAGS), st.integers(0, 2)),
    st.builds(lambda t, q: {"tag": t, "q": q}, st.sampled_from(_BARE_TAGS), st.just(0)),
    st.builds(lambda r, q: {"re": r, "q": q}, st.sampled_from(_BARE_RE + _QUOTED_ONLY_RE), st.integers(0, 2)),
)


def _chain_of(atom):
    factor = st.builds(lambda n, a, pre, post: {"neg": n, "atom": a, "pre": pre, "post": post},
                       st.booleans(), atom, st.sampled_from([0, 0, 1, 2, 3, 4]), st.sampled_from([0, 0, 1, 2, 3, 4]))

    @st.composite
    def chain(draw):
        items = draw(st.lists(factor, min_size=1, max_size=5))
        ops = [draw(st.sampled_from(["&", "|", ",", "&", "|"])) for _ in items[1:]]
        return {"items": items, "ops": ops}
    return chain()


def _tag_expr():
    atoms = st.recursive(_atom_leaf, lambda a: st.one_of(a, st.builds(lambda c: {"group": c}, _chain_of(a))),
                         max_leaves=8)
    return st.builds(lambda c: {"expr": c}, _chain_of(atoms))


def strat_taglang(tier):
    return _tag_expr()


# =================================================================================================
# self-test of the reference models (fixed cases with known answers)
# =================================================================================================

def selftest():
    def run(t, s):
        r = ev(t, s, 0, None, Trace())
        return r if r is FAIL else [r[0], r[1]]
    a, b, c = ["char", "a"], ["char", "b"], ["char", "c"]
    # ordered choice commits to the first matching alternative (no longest match)
    assert run(["choice", [["lit", "a", False, None], ["lit", "ab", False, None]]], "ab") == [1, "a"]
    assert run(["seq", [["choice", [a, ["seq", [a, b]]]], c]], "abc") is FAIL          # no back-tracking into a choice
    assert run(["many", a, 0], "aab") == [2, ["a", "a"]] and run(["many", a, 3], "aab") is FAIL
    assert run(["many", a, 2], "aab") == [2, ["a", "a"]]
    assert run(["opt", a, "d"], "b") == [0, "d"] and run(["opt", a, "d"], "a") == [1, "a"]
    assert run(["fb", a, b], "ab") == [1, "a"] and run(["fb", a, b], "ac") is FAIL
    assert run(["nfb", a, b], "ac") == [1, "a"] and run(["nfb", a, b], "ab") is FAIL
    assert run(["kl", a, b], "ab") == [2, "a"] and run(["kr", a, b], "ab") == [2, "b"]
    assert run(["until", ["any"], c], "abcab") == [2, ["a", "b"]] and run(["until", ["any"], c], "") == [0, []]
    assert run(["string", "ab", 1], "abac") == [3, "aba"] and run(["string", "ab", 1], "c") is FAIL
    assert run(["string", "ab", 0], "c") == [0, ""]
    assert run(["lit", "Ab", True, None], "aB") == [2, "aB"] and run(["lit", "Ab", False, None], "ab") is FAIL
    assert run(["lit", "ab", False, 3], "ab") == [2, 3]
    assert run(["eof"], "") == [0, None] and run(["eof"], "a") is FAIL
    assert run(["map", a, 1, ["a"]], "a") is FAIL and run(["map", a, 1, []], "a") == [1, ["m", 1, "a"]]
    # guarded recursion: R <- a R b / c   (a^n c b^n)
    rec = ["rec", ["choice", [["seq", [a, ["ref"], b]], c]]]
    assert run(rec, "aacbb") == [5, ["a", ["a", "c", "b"], "b"]] and run(rec, "aacb") is FAIL
    assert nullable(["many", a, 0]) and not nullable(["many", a, 1]) and leftreach(["seq", [["opt", a, None], ["ref"]]])
    assert normalise(["many", ["opt", a, None], 0])[1][0] == "kr"
    assert normalise(normalise(rec)) == normalise(rec)
    assert effective(["seq", [["seq", [a, b]], c]], "ops") == ["seq", [a, b, c]]
    assert effective(["seq", [["seq", [a, b]], c]], "ctor") == ["seq", [["seq", [a, b]], c]]
    # tag expressions: the documented examples
    def tev(chain, tags):
        return ref_eval(_tokens(chain, []), tags)

    def f(tag, neg=False):
        return {"neg": neg, "atom": {"tag": tag, "q": 0}, "pre": 0, "post": 0}
    e = {"items": [f("a"), f("b"), f("c", True)], "ops": ["|", "&"]}            # a | b & !c
    assert render_chain(e) == "a|b&!c"
    assert tev(e, ["a"]) and tev(e, ["b"]) and not tev(e, ["b", "c"]) and tev(e, ["a", "c"]) and not tev(e, ["c"])
    g = {"items": [{"neg": False, "atom": {"group": {"items": [f("a"), f("b")], "ops": ["|"]}}, "pre": 0, "post": 1},
                   f("c")], "ops": ["&"]}                                          # (a | b) & c
    assert render_chain(g) == "(a|b) &c"
    assert tev(g, ["a", "c"]) and tev(g, ["b", "c"]) and not tev(g, ["a"]) and not tev(g, ["c"])
    h = {"items": [f("a"), f("b"), f("c")], "ops": ["&", ","]}                   # a & b , c == (a&b) or c
    assert tev(h, ["c"]) and tev(h, ["a", "b"]) and not tev(h, ["a"])
    r = {"items": [{"neg": False, "atom": {"re": "net", "q": 0}, "pre": 0, "post": 0}, f("apache")], "ops": ["|"]}
    assert render_chain(r) == "/net |apache"
    assert tev(r, ["mynetwork"]) and tev(r, ["apache"]) and not tev(r, ["security"])
    # JSON renderer
    ws = _WsSource([1])
    assert render({"a": [], "": [0, "x\"y"]}, ws) == '{ "" : [ 0 , "x\\"y" ] , "a" : [ ] }'
    assert same([0, False], [0, False]) and not same([0], [False]) and not same(1, 1.0) and not same([], ())


from vp import fuzz as _fuzz   # noqa: E402

SUBS = [
    Sub("terms", check_terms, strategy=strat_terms, quick=600, thorough=5000, workers_quick=4,
        workers_thorough=16, budget_quick=30, budget_thorough=500),
    Sub("json", check_json, strategy=strat_json, quick=1000, thorough=20000, workers_quick=2,
        workers_thorough=16, budget_quick=10, budget_thorough=300),
    Sub("taglang", check_taglang, strategy=strat_taglang, quick=600, thorough=8000, workers_quick=2,
        workers_thorough=16, budget_quick=15, budget_thorough=400),
    # coverage-guided campaigns (Atheris / libFuzzer) over the same strategies and oracles: the combinator
    # library, the JSON grammar and the tag language are pure Python, so edge coverage is a usable gradient
    Sub("fz_terms", check_terms, custom=_fuzz.hyp_campaign(PROPERTY, "terms", ["insights.parsr"], runs_quick=150,
                                                           runs_thorough=15000),
        workers_quick=1, workers_thorough=16, budget_quick=30, budget_thorough=900),
    Sub("fz_json", check_json, custom=_fuzz.hyp_campaign(PROPERTY, "json", ["insights.parsr", "insights.parsr.examples.json_parser"],
                                                         runs_quick=300, runs_thorough=150000),
        workers_quick=1, workers_thorough=16, budget_quick=30, budget_thorough=900),
    Sub("fz_taglang", check_taglang, custom=_fuzz.hyp_campaign(PROPERTY, "taglang", ["insights.parsr", "insights.core.taglang"],
                                                               runs_quick=300, runs_thorough=60000),
        workers_quick=1, workers_thorough=16, budget_quick=30, budget_thorough=900),
]

REGRESSIONS = [
    # fixes/C19-1.patch: sep_by dropped a falsy first element
    Reg("sep_by-falsy-first-zero", "json", {"value": [0, 1], "dumps": {"indent": None, "separators": None}}),
    Reg("sep_by-falsy-first-false", "json", {"value": [False, True], "dumps": {"indent": None, "separators": None}}),
    Reg("sep_by-falsy-first-null-empty", "json", {"value": {"k": [None], "l": [[], 1], "m": [0]}, "ws": [0], "dumps": None}),
    # fixes/C19-2.patch: the empty string
    Reg("empty-string", "json", {"value": "", "ws": [0], "dumps": None}),
    Reg("empty-string-key-and-value", "json", {"value": {"": "", "a": ["", "b"]}, "ws": [0, 1], "dumps": None}),
    # fixes/C19-3.patch: whitespace before ':' and inside empty containers
    Reg("ws-before-colon", "json", {"value": {"a": 1}, "dumps": {"indent": None, "separators": [" , ", " : "]}}),
    Reg("ws-in-empty-containers", "json", {"value": {"a": [], "b": {}}, "ws": [1], "dumps": None}),
    # hand-picked corners of the combinators
    Reg("choice-commits", "terms", {"term": ["seq", [["choice", [["char", "a"], ["seq", [["char", "a"], ["char", "b"]]]]],
                                                      ["char", "c"]]], "mode": "ctor", "alpha": "abc", "maxlen": 3, "extra": []}),
    Reg("lookahead-in-repetition", "terms", {"term": ["many", ["nfb", ["any"], ["char", "b"]], 1], "mode": "ops",
                                             "alpha": "abc", "maxlen": 4, "extra": ["aaabaa"]}),
    Reg("seq-accumulation", "terms", {"term": ["seq", [["seq", [["char", "a"], ["opt", ["char", "b"], None]]], ["char", "c"]]],
                                      "mode": "ops", "alpha": "abc", "maxlen": 3, "extra": []}),
    Reg("doc-example", "taglang", {"expr": {"items": [
        {"neg": False, "atom": {"tag": "a", "q": 0}, "pre": 0, "post": 1},
        {"neg": False, "atom": {"tag": "b", "q": 0}, "pre": 1, "post": 1},
        {"neg": True, "atom": {"tag": "c", "q": 0}, "pre": 1, "post": 0}], "ops": ["|", "&"]}}),
]
