"""C19 - parser combinators implement ordered-choice PEG semantics.

Four sub-checks (plus coverage-guided campaigns over the first three):

terms    generated grammar terms over the parsr combinators x inputs, decided by a reference PEG
         interpreter over the same term AST (pure function (term, input, pos) -> (pos', value) | FAIL).
         The consumed length is made observable through the public call by parsing with
         Sequence([term, Many(AnyChar)]).  Per term: *all* inputs up to a bound over a 3-letter alphabet
         plus a few generated longer ones.  The three grammar symbols are either a, b, c or - symbol map - any
         three characters of a pool of line ends, other white space, control characters, quotes / backslash /
         comment characters, digits, cased and non-ASCII letters (PEG semantics do not depend on what the input
         symbols are), and the library's own named character classes (EOL, LineEnd, WS, ...) are leaves.
         One parser object serves the whole history of a case: all inputs, then a generated selection of them once
         more; optionally the caller edits every container of every value it gets back (append to every list) and
         Parser.debug() is on for a generated subset of the grammar's parser objects - every parse still gives what
         the reference gives for that input alone.  Parser.sep_by and list-valued Opt defaults are generated.
json     JSON values of the documented subset (no non-ASCII, no backslash escapes other than \\", no
         exponent numbers) rendered with generated whitespace; json_parser.loads == json.loads == value
         with a type-strict comparison; the text is decoded 1-3 times in a row, optionally with the caller editing
         the decoded containers in between and with Parser.debug() on for a subset of the grammar's parsers.
taglang  tag expressions (token chains with ! & | , parentheses, quoted tags, /regex atoms, random
         whitespace) against an independent tokenizer-free precedence-climbing evaluator, for every
         subset of the tag universe.
tagselect the same expressions where the shipped tools consume them: components with generated tag sets (also none
         at all) in a throw-away plugin package, selected by insights.run(print_summary=True) with --tags / -k
         (insights-run) and by insights.tools.query.main() (insights-info); the selected set must be the set
         boolean evaluation of the expression prescribes.
"""
import itertools
import json
import re
import string

from hypothesis import strategies as st

from vp.core import Sub, Reg, Violation

PROPERTY = "C19"
RULE = ("terms: recursive strategy over Char/InSet/String/Literal/AnyChar/EOF/Sequence/Choice/Many/Until/Opt/"
        "KeepLeft/KeepRight/FollowedBy/NotFollowedBy/Map(+Backtrack)/Lift(+Backtrack)/Wrapper/Forward, built "
        "with constructors or with the operators (+ | << >> & / % .map .until, incl. +/| accumulation); "
        "repetition bodies are made consuming and recursion guarded by construction; every term is run on ALL "
        "inputs of length <= 3 (quick) / <= 5 (thorough) over a 3-letter alphabet plus generated longer inputs; "
        "the three symbols are a, b, c or (symbol map, about half of the cases) three characters of a pool of line "
        "ends (CR, LF), blanks, control characters, quotes / backslash / comment characters, digits, cased and "
        "non-ASCII letters, renamed consistently in term, reject lists and inputs; the library's named parsers "
        "(EOL, LineEnd, WS, WSChar, Digit(s), Letter(s)) are leaves; Parser.sep_by(item, sep) and Opt defaults that "
        "are lists are generated. History: one parser object parses all inputs and then up to 10 drawn ones again; in "
        "half of the cases the caller appends to every list of every returned value before the next parse (the Opt "
        "default objects, which are the grammar author's, excepted); in 2 of 5 cases Parser.debug() is enabled on a "
        "drawn subset (or all) of the grammar's parser objects; every parse must give the reference's answer for that "
        "input alone, and a returned value never holds one container object at two places. json: the text is "
        "decoded 1-3 times by a private copy of the shipped grammar with the same two switches. "
        "Non-trivial term: has a look-ahead or choice nested under repetition or sequence AND on some input a "
        "sub-term failed after input had been consumed (real backtracking) AND it both accepted and rejected "
        "inputs; distinct by (term, build mode). json: non-trivial = nesting depth >= 2; distinct by rendered "
        "text. taglang: non-trivial = some chain mixes >= 2 operator levels without parentheses; distinct by "
        "rendered text; each expression is evaluated on every subset of the 7-tag universe. tagselect: 2-6 generated "
        "rules / conditions (tag sets over the same universe, also none: tags=[] or no tags keyword; 1-4 modules) in "
        "a throw-away plugin package, a generated --tags expression and (1 in 3) a -k/--pkg-query expression over "
        "the module names, consumed by insights.run(print_summary=True) with -p or with the components passed, and "
        "by insights.tools.query.main(); non-trivial = some but not all components are selected; distinct by "
        "(expressions, tag sets, entry point).")
ASSUMPTIONS = [
    "reference PEG interpreter, reference tag-expression evaluator and JSON renderer are harness code "
    "(self-tested on fixed cases before every run); Python's json and re modules are trusted",
    "a parse 'fails' iff calling the built parser raises; values are compared type-strictly",
    "tagselect: a component without dependencies is in broker.instances after insights.run iff the option selected "
    "it; insights-info prints the name of each selected component at column 0; the exception 'No components for "
    "tag / pkg-query expression' is the documented form of an empty selection; vp.sandbox.GlobalState restores "
    "the registries (the default components are loaded once per process before the snapshot)",
    "checked against a tree with fixes/C19-1..3 applied (sep_by falsy first element, empty JSON string, "
    "JSON whitespace before ':' and inside empty containers); the reproducers are regression cases",
]
EXCLUDED = [
    "context-stack combinators StartTagName/EndTagName/WithIndent/HangingString/PosMarker (outside the listed set)",
    "Map/Lift functions raising anything but Backtrack (documented hard error, not backtracking)",
    "String(echars=...) escape handling and JSON strings with backslash escapes other than \\\" or with "
    "characters outside string.printable (the grammar's documented 'primitive' subset)",
    "JSON numbers with exponent and non-ASCII text (documented as unsupported); single-quoted strings and "
    "leading-zero numbers (parsr accepts more than JSON: claim is one-directional from values)",
    "tag expressions outside the documented syntax (!!x, '! x', bare tags containing ( ! / or quotes, "
    "bare regex not followed by whitespace); rejection of ill-formed expressions is not demanded",
    "sep_by on inputs where 'sep item' matches without a first item (',x'): the docstring neither promises nor "
    "excludes a leading separator; such parses are executed as part of the history, their outcome is not asserted",
    "editing the list object the grammar author passed as Opt(default=...) (it is the author's object, Opt hands it out "
    "as it is); what the diagnostics of Parser.debug() print",
    "WithIndent / HangingString under a symbol map other than a, b, c (they skip white space, cut comments and "
    "measure columns, which the reference models only for white-space free letters): generated as Wrapper / String "
    "there; characters whose lower()/upper() is not one character; lone surrogates",
    "tagselect: tags given to components by configuration files (-c; undocumented key) or by a component type's "
    "class-level tags; components that depend on each other (a dependency of a selected component is evaluated too)",
]

class _Fail(object):
    def __repr__(self):
        return "FAIL"


FAIL = _Fail()


# =================================================================================================
# 1. grammar terms
# =================================================================================================
# term AST (JSON lists):
#   ["char", c] ["inset", chars] ["string", chars, min] ["lit", text, ignore_case, value|None]
#   ["any"] ["eof"] ["ref"]
#   ["seq", [t..]] ["choice", [t..]] ["many", t, lower] ["until", t, pred] ["opt", t, default]
#   ["kl", a, b] ["kr", a, b] ["fb", a, b] ["nfb", a, b]
#   ["map", t, tag, reject] ["lift", [t..], tag, reject] ["wrap", t] ["rec", body]
#   ["withindent", t]   WithIndent: pushes the current column for the duration of t (also when t fails)
#   ["hang", chars]     HangingString(chars): reads the indentation stack; never fails
#   ["sepby", item, sep] item.sep_by(sep): the library composes it from Opt / Many / KeepRight / Lift; its reference
#                       meaning is that composition: item? (sep item)*, value = the list of the item values
#   ["prim", name]      one of the library's ready-made parsers (EOL, LineEnd, WS, WSChar, Digit(s), Letter(s));
#                       its reference meaning is PRIM_DEF[name], the definition its name documents

_NO_EOL_WS = "".join(c for c in string.whitespace if c not in "\n\r")
PRIM_DEF = {
    "EOL": ["inset", "\n\r"],
    "LineEnd": ["choice", [["inset", "\n\r"], ["eof"]]],
    "WS": ["many", ["inset", string.whitespace], 0],
    "WSChar": ["inset", _NO_EOL_WS],
    "Digit": ["inset", string.digits],
    "Digits": ["string", string.digits, 1],
    "Letter": ["inset", string.ascii_letters],
    "Letters": ["string", string.ascii_letters, 1],
}
PRIM_ORDER = ["EOL", "LineEnd", "WS", "WSChar", "Digit", "Digits", "Letter", "Letters"]
PRIM_CHARS = {"EOL": "\n\r", "LineEnd": "\n\r", "WS": string.whitespace, "WSChar": _NO_EOL_WS, "Digit": string.digits,
              "Digits": string.digits, "Letter": string.ascii_letters, "Letters": string.ascii_letters}

def nullable(t):
    """may succeed without consuming (conservative: ref counts as nullable)"""
    k = t[0]
    if k in ("char", "inset", "any"):
        return False
    if k == "string":
        return t[2] == 0
    if k == "lit":
        return len(t[1]) == 0
    if k in ("eof", "opt", "until", "ref", "hang", "sepby"):
        return True
    if k == "prim":
        return nullable(PRIM_DEF[t[1]])
    if k == "withindent":
        return nullable(t[1])
    if k in ("seq", "lift"):
        return all(nullable(c) for c in t[1])
    if k == "choice":
        return any(nullable(c) for c in t[1])
    if k == "many":
        return t[2] == 0 or nullable(t[1])
    if k in ("kl", "kr"):
        return nullable(t[1]) and nullable(t[2])
    if k in ("fb", "nfb", "map", "wrap", "rec"):
        return nullable(t[1])
    raise ValueError(k)


def leftreach(t):
    """can the term invoke ["ref"] of the enclosing rec before consuming anything?"""
    k = t[0]
    if k == "ref":
        return True
    if k in ("char", "inset", "any", "string", "lit", "eof", "hang", "prim"):
        return False
    if k == "withindent":
        return leftreach(t[1])
    if k in ("seq", "lift"):
        for c in t[1]:
            if leftreach(c):
                return True
            if not nullable(c):
                return False
        return False
    if k == "choice":
        return any(leftreach(c) for c in t[1])
    if k in ("many", "opt", "map", "wrap"):
        return leftreach(t[1])
    if k in ("until", "sepby"):
        return leftreach(t[1]) or leftreach(t[2])
    if k in ("kl", "kr", "fb", "nfb"):
        return leftreach(t[1]) or (nullable(t[1]) and leftreach(t[2]))
    if k == "rec":
        return False      # refs below belong to the inner rec
    raise ValueError(k)


def normalise(t, in_rec=False, guard="a"):
    """Put a generated term into the property's domain *by construction*: repetition bodies consume,
    recursion is guarded, refs only occur inside a rec.  Idempotent."""
    k = t[0]
    if k in ("char", "inset", "string", "lit", "any", "eof", "hang", "prim"):
        return list(t)
    if k == "withindent":
        return [k, normalise(t[1], in_rec, guard)]
    if k == "ref":
        return ["ref"] if in_rec else ["char", guard]
    if k in ("seq", "choice"):
        return [k, [normalise(c, in_rec, guard) for c in t[1]]]
    if k == "lift":
        return [k, [normalise(c, in_rec, guard) for c in t[1]], t[2], t[3]]
    if k == "many":
        body = normalise(t[1], in_rec, guard)
        if nullable(body):
            body = ["kr", ["char", guard], body]
        return [k, body, t[2]]
    if k == "until":
        body = normalise(t[1], in_rec, guard)
        if nullable(body):
            body = ["kr", ["char", guard], body]
        return [k, body, normalise(t[2], in_rec, guard)]
    if k == "opt":
        return [k, normalise(t[1], in_rec, guard), t[2]]
    if k == "sepby":
        item, sep = normalise(t[1], in_rec, guard), normalise(t[2], in_rec, guard)
        if nullable(item) and nullable(sep):      # the repeated part (sep item) consumes
            item = ["kr", ["char", guard], item]
        return [k, item, sep]
    if k in ("kl", "kr", "fb", "nfb"):
        return [k, normalise(t[1], in_rec, guard), normalise(t[2], in_rec, guard)]
    if k == "map":
        return [k, normalise(t[1], in_rec, guard), t[2], t[3]]
    if k == "wrap":
        return [k, normalise(t[1], in_rec, guard)]
    if k == "rec":
        body = normalise(t[1], True, guard)
        if leftreach(body):
            body = ["kr", ["char", guard], body]
        return [k, body]
    raise ValueError(k)


def effective(t, mode):
    """the term the built parser object *means*: in operator mode `x + y` accumulates onto x when x is
    already a Sequence (documented), which flattens the value list"""
    k = t[0]
    if k in ("char", "inset", "string", "lit", "any", "eof", "ref", "hang", "prim"):
        return t
    if k == "withindent":
        return [k, effective(t[1], mode)]
    if k in ("seq", "choice"):
        ch = [effective(c, mode) for c in t[1]]
        if mode == "ops" and len(ch) >= 2 and ch[0][0] == k:
            ch = list(ch[0][1]) + ch[1:]
        return [k, ch]
    if k == "lift":
        return [k, [effective(c, mode) for c in t[1]], t[2], t[3]]
    if k in ("many", "opt"):
        return [k, effective(t[1], mode), t[2]]
    if k in ("until", "kl", "kr", "fb", "nfb", "sepby"):
        return [k, effective(t[1], mode), effective(t[2], mode)]
    if k == "map":
        return [k, effective(t[1], mode), t[2], t[3]]
    if k in ("wrap", "rec"):
        return [k, effective(t[1], mode)]
    raise ValueError(k)


def _mapfn(P, tag, reject):
    def fn(v, tag=tag, reject=reject):
        if v in reject:
            raise P.Backtrack("rejected by map %r" % (tag,))
        return ["m", tag, v]
    return fn


def _liftfn(P, tag, reject):
    def fn(*a):
        if list(a) in reject:
            raise P.Backtrack("rejected by lift %r" % (tag,))
        return ["l", tag, list(a)]
    return fn


def build(P, t, mode, fwd=None, defaults=None):
    """defaults: list collecting the mutable default objects handed to Opt (they stay the caller's objects)"""
    k = t[0]
    ops = mode == "ops"
    if k == "char":
        return P.Char(t[1])
    if k == "inset":
        return P.InSet(t[1])
    if k == "string":
        return P.String(t[1], min_length=t[2])
    if k == "lit":
        if t[3] is None:
            return P.Literal(t[1], ignore_case=t[2])
        return P.Literal(t[1], value=t[3], ignore_case=t[2])
    if k == "any":
        # grammars use the module's AnyChar / EOF objects directly; the operator spelling wraps them
        return P.Wrapper(P.AnyChar) if ops else P.AnyChar
    if k == "eof":
        return P.Wrapper(P.EOF) if ops else P.EOF
    if k == "prim":
        # the module's own objects, used the way the shipped grammars use them
        return getattr(P, t[1])
    if k == "ref":
        return fwd
    if k in ("seq", "choice"):
        ch = [build(P, c, mode, fwd, defaults) for c in t[1]]
        if ops and len(ch) >= 2:
            r = ch[0]
            for c in ch[1:]:
                r = (r + c) if k == "seq" else (r | c)
            return r % ("named-%s" % k)
        return P.Sequence(ch) if k == "seq" else P.Choice(ch)
    if k == "many":
        return P.Many(build(P, t[1], mode, fwd, defaults), lower=t[2])
    if k == "until":
        a, b = build(P, t[1], mode, fwd, defaults), build(P, t[2], mode, fwd, defaults)
        return a.until(b) if ops else P.Until(a, b)
    if k == "opt":
        if t[2] is None and ops:
            return P.Opt(build(P, t[1], mode, fwd, defaults))
        dflt = t[2]
        if isinstance(dflt, list):
            dflt = list(dflt)       # the grammar author's own list object: whatever Opt hands out is this object
            if defaults is not None:
                defaults.append(dflt)
        return P.Opt(build(P, t[1], mode, fwd, defaults), default=dflt)
    if k == "sepby":
        return build(P, t[1], mode, fwd, defaults).sep_by(build(P, t[2], mode, fwd, defaults))
    if k in ("kl", "kr", "fb", "nfb"):
        a, b = build(P, t[1], mode, fwd, defaults), build(P, t[2], mode, fwd, defaults)
        if ops:
            return {"kl": lambda: a << b, "kr": lambda: a >> b, "fb": lambda: a & b, "nfb": lambda: a / b}[k]()
        return {"kl": P.KeepLeft, "kr": P.KeepRight, "fb": P.FollowedBy, "nfb": P.NotFollowedBy}[k](a, b)
    if k == "map":
        a = build(P, t[1], mode, fwd, defaults)
        f = _mapfn(P, t[2], t[3])
        return a.map(f) if ops else P.Map(a, f)
    if k == "lift":
        r = P.Lift(_liftfn(P, t[2], t[3]))
        for c in t[1]:
            r = r * build(P, c, mode, fwd, defaults)
        return r
    if k == "wrap":
        return P.Wrapper(build(P, t[1], mode, fwd, defaults))
    if k == "withindent":
        return P.WithIndent(build(P, t[1], mode, fwd, defaults))
    if k == "hang":
        return P.HangingString(t[1])
    if k == "rec":
        f = P.Forward()
        body = build(P, t[1], mode, f, defaults)
        f <= body      # noqa  (Forward's definition operator)
        return f
    raise ValueError(k)


class Trace(object):
    def __init__(self):
        self.backtracked = False   # a sub-term failed after input had been consumed by an earlier part
        self.rejected = False      # a Map/Lift function raised Backtrack
        self.recursed = False      # a Forward reference was followed
        self.indents = []          # indentation stack (WithIndent / HangingString)
        self.hang_read = False     # a HangingString consulted a non-empty indentation stack
        self.lead_sep = False      # a sep_by matched "sep item" without a first item (undocumented: not asserted)
        self.sep_empty = False     # a sep_by matched nothing


def ev(t, s, pos, env, tr):
    """reference PEG semantics"""
    k = t[0]
    c = s[pos] if pos < len(s) else None
    if k == "char":
        return (pos + 1, c) if c == t[1] else FAIL
    if k == "inset":
        return (pos + 1, c) if (c is not None and c in t[1]) else FAIL
    if k == "string":
        p = pos
        while p < len(s) and s[p] in t[1]:
            p += 1
        return (p, s[pos:p]) if p - pos >= t[2] else FAIL
    if k == "lit":
        seg = s[pos:pos + len(t[1])]
        if len(seg) != len(t[1]):
            return FAIL
        if t[2]:
            if seg.lower() != t[1].lower():
                return FAIL
        elif seg != t[1]:
            return FAIL
        return (pos + len(seg), seg if t[3] is None else t[3])
    if k == "any":
        return (pos + 1, c) if c is not None else FAIL
    if k == "eof":
        return (pos, None) if c is None else FAIL
    if k == "prim":
        return ev(PRIM_DEF[t[1]], s, pos, env, tr)
    if k == "ref":
        tr.recursed = True
        return ev(env, s, pos, env, tr)
    if k == "rec":
        return ev(t[1], s, pos, t[1], tr)
    if k in ("seq", "lift"):
        vals = []
        start = pos
        for ch in t[1]:
            r = ev(ch, s, pos, env, tr)
            if r is FAIL:
                if pos > start:
                    tr.backtracked = True
                return FAIL
            pos, v = r
            vals.append(v)
        if k == "seq":
            return (pos, vals)
        if vals in t[3]:
            tr.rejected = True
            if pos > start:
                tr.backtracked = True
            return FAIL
        return (pos, ["l", t[2], vals])
    if k == "choice":
        for ch in t[1]:
            r = ev(ch, s, pos, env, tr)
            if r is not FAIL:
                return r
        return FAIL
    if k == "many":
        vals = []
        start = pos
        while True:
            r = ev(t[1], s, pos, env, tr)
            if r is FAIL:
                break
            pos, v = r
            vals.append(v)
        if len(vals) < t[2]:
            if pos > start:
                tr.backtracked = True
            return FAIL
        return (pos, vals)
    if k == "until":
        vals = []
        while True:
            if ev(t[2], s, pos, env, tr) is not FAIL:
                break
            r = ev(t[1], s, pos, env, tr)
            if r is FAIL:
                break
            pos, v = r
            vals.append(v)
        return (pos, vals)
    if k == "opt":
        r = ev(t[1], s, pos, env, tr)
        return r if r is not FAIL else (pos, t[2])
    if k == "sepby":
        vals = []
        r = ev(t[1], s, pos, env, tr)
        have_first = r is not FAIL
        if have_first:
            pos, v = r
            vals.append(v)
        while True:
            r = ev(t[2], s, pos, env, tr)
            if r is FAIL:
                break
            r2 = ev(t[1], s, r[0], env, tr)
            if r2 is FAIL:
                if r[0] > pos:
                    tr.backtracked = True
                break
            pos, v = r2
            vals.append(v)
        if not have_first and vals:
            tr.lead_sep = True
        if not vals:
            tr.sep_empty = True
        return (pos, vals)
    if k in ("kl", "kr"):
        r1 = ev(t[1], s, pos, env, tr)
        if r1 is FAIL:
            return FAIL
        r2 = ev(t[2], s, r1[0], env, tr)
        if r2 is FAIL:
            if r1[0] > pos:
                tr.backtracked = True
            return FAIL
        return (r2[0], r1[1] if k == "kl" else r2[1])
    if k in ("fb", "nfb"):
        r1 = ev(t[1], s, pos, env, tr)
        if r1 is FAIL:
            return FAIL
        r2 = ev(t[2], s, r1[0], env, tr)
        if (r2 is FAIL) == (k == "fb"):
            if r1[0] > pos:
                tr.backtracked = True
            return FAIL
        return r1
    if k == "map":
        r = ev(t[1], s, pos, env, tr)
        if r is FAIL:
            return FAIL
        if r[1] in t[3]:
            tr.rejected = True
            if r[0] > pos:
                tr.backtracked = True
            return FAIL
        return (r[0], ["m", t[2], r[1]])
    if k == "wrap":
        return ev(t[1], s, pos, env, tr)
    if k == "withindent":
        # no whitespace in the alphabet: the column is the position; the entry lives exactly as long as
        # the wrapped term is being matched, whether it succeeds or fails
        tr.indents.append(pos)
        try:
            return ev(t[1], s, pos, env, tr)
        finally:
            tr.indents.pop()
    if k == "hang":
        # one line, no continuation lines in this alphabet: the rest of the input if it is made of the
        # given characters and lies right of the innermost indentation; otherwise the empty string
        if not tr.indents:
            return (pos, "")
        tr.hang_read = True
        if pos > tr.indents[-1] and pos < len(s) and all(ch in t[1] for ch in s[pos:]):
            return (len(s), s[pos:])
        return (pos, "")
    raise ValueError(k)


def same(a, b):
    """type-strict structural equality (True != 1, 1 != 1.0, tuple != list)"""
    if type(a) is not type(b):
        return False
    if isinstance(a, list):
        return len(a) == len(b) and all(same(x, y) for x, y in zip(a, b))
    if isinstance(a, dict):
        return sorted(a) == sorted(b) and all(same(a[k], b[k]) for k in a)
    if isinstance(a, float):
        return a == b or (a != a and b != b)
    return a == b


def _kinds(t, out, under=False, flags=None):
    """collect combinator kinds; flags['nested'] = look-ahead/choice below a repetition or sequence"""
    k = t[0]
    out.add(k)
    if k in ("fb", "nfb", "choice", "until") and under:
        flags["nested"] = True
    sub_under = under or k in ("many", "until", "seq", "lift", "kl", "kr", "sepby")
    for x in t[1:]:
        if isinstance(x, list) and x and isinstance(x[0], str) and x[0] in _KINDS:
            _kinds(x, out, sub_under, flags)
        elif isinstance(x, list):
            for y in x:
                if isinstance(y, list) and y and isinstance(y[0], str) and y[0] in _KINDS:
                    _kinds(y, out, sub_under, flags)


_KINDS = set(["char", "inset", "string", "lit", "any", "eof", "ref", "seq", "choice", "many", "until", "opt",
              "kl", "kr", "fb", "nfb", "map", "lift", "wrap", "rec", "withindent", "hang", "prim", "sepby"])


def _all_inputs(alpha, maxlen):
    for n in range(0, maxlen + 1):
        for p in itertools.product(alpha, repeat=n):
            yield "".join(p)


def _literals_of(t, out):
    if t[0] == "lit" and isinstance(t[1], str) and t[1]:
        out.append(t[1])
    elif t[0] in ("char", "hang") and isinstance(t[1], str):
        out.append(t[1])
    for x in _subterms(t):
        _literals_of(x, out)
    return out


def _opt_defaults(t, out):
    if t[0] == "opt":
        out.append(t[2])
    for x in _subterms(t):
        _opt_defaults(x, out)
    return out


def _literal_inputs(term, fill="c"):
    """inputs derived from the term's own literals (a pure function of the term): a literal preceded by a
    partial match of itself, doubled, interleaved with the other literals - the texts on which scanning to a
    terminator, greedy repetition and backtracking after a partial match are decided"""
    lits = []
    for x in _literals_of(term, []):
        if x not in lits:
            lits.append(x)
    lits = lits[:4]
    out = []
    for x in lits:
        for k in range(1, len(x) + 1):
            out.append(x[:k] + x)             # 'aab' for 'ab', '**/' for '*/'
            out.append(fill + x[:k] + x + fill)
            out.append(x[:k] * 2 + x + x[:k])
        out.append(x + x)
        for y in lits:
            if y != x:
                out.append(x + y)
                out.append(y[:1] + x + y)
    seen = []
    for o in out:
        if o not in seen and len(o) <= 12:
            seen.append(o)
    return seen[:40]


_EDIT_MARK = "edited-by-the-caller"


def _edit_containers(v, keep, seen, shared):
    """what a caller may do with a value a grammar returned: append to every list, add a key to every dict.
    keep: ids of objects that are not the grammar's to hand out fresh (the default objects given to Opt);
    shared: receives every container that occurs at two places of the value (editing one edits the other)"""
    if not isinstance(v, (list, dict)) or id(v) in keep:
        return
    if id(v) in seen:
        shared.append(v)
        return
    seen.add(id(v))
    if isinstance(v, list):
        for x in list(v):
            _edit_containers(x, keep, seen, shared)
        v.append(_EDIT_MARK)
    else:
        for k in sorted(v, key=repr):
            _edit_containers(v[k], keep, seen, shared)
        v[_EDIT_MARK] = [_EDIT_MARK]


def _parser_nodes(root):
    """the parser objects of a grammar, pre-order, each once (grammars are graphs: Forward, shared leaves)"""
    out, seen, stack = [], set(), [root]
    while stack:
        p = stack.pop()
        if id(p) in seen:
            continue
        seen.add(id(p))
        out.append(p)
        stack.extend(reversed(list(p.children)))
    return out


def _debug_selection(root, spec):
    """spec: "all" or a list of indices (modulo) into the grammar's parser objects"""
    nodes = _parser_nodes(root)
    if spec == "all":
        return nodes
    out = []
    for i in spec or []:
        n = nodes[i % len(nodes)]
        if not any(n is o for o in out):
            out.append(n)
    return out


def check_terms(case):
    from insights import parsr as P
    mode = case["mode"]
    sym = case.get("sym") or ["a", "b", "c"]      # the three grammar symbols (symbol map of the strategy)
    term = normalise(case["term"], guard=sym[0])
    eff = effective(term, mode)
    edit = bool(case.get("edit"))                 # the caller edits every container of every returned value
    defaults = []
    parser = P.Sequence([build(P, term, mode, None, defaults), P.Many(P.AnyChar)])
    keep = set(id(d) for d in defaults)
    n_ok = n_fail = 0
    tr = Trace()
    inputs = list(_all_inputs(case["alpha"], case["maxlen"])) + list(case["extra"]) + _literal_inputs(eff, sym[2])
    # history: one parser object, many parses in a row - all inputs once, then the inputs named by "again"
    # (indices modulo) once more; the value of every parse is what a parse by a fresh parser would give
    order = list(inputs) + [inputs[i % len(inputs)] for i in case.get("again") or []]
    n_first = len(inputs)
    n_lead_sep = n_sep_empty = n_shared_default = 0
    # Parser.debug() on a generated subset of the grammar's parser objects: documented as diagnostics only
    dbg = _debug_selection(parser, case.get("debug"))
    dbg_before = [(p, p._debug) for p in dbg]
    suffix = " [Parser.debug() enabled on %d of the grammar's parsers]" % len(dbg) if dbg else ""
    try:
        for p in dbg:
            p.debug()
        for step, s in enumerate(order):
            tr.lead_sep = tr.sep_empty = False
            exp = ev(eff, s, 0, None, tr)
            try:
                got = parser(s)
                ok = True
            except Exception:   # the public call reports a failed parse by raising Exception
                got = None
                ok = False
            when = ""
            if (dbg or step) and (ok != (exp is not FAIL) or (ok and not tr.lead_sep and not same(got, [exp[1], list(s[exp[0]:])]))):
                # only on the way to a violation: does the history / the diagnostics switch matter?
                try:
                    fresh = repr(P.Sequence([build(P, term, mode), P.Many(P.AnyChar)])(s))
                except Exception:
                    fresh = "a rejection"
                when = suffix + (" [parse %d by this parser object%s; a freshly built parser without diagnostics gives %s]"
                                 % (step + 1, ", the caller edited the containers of the earlier results" if edit else "", fresh))
            if tr.lead_sep:
                # sep_by on "sep item" without a first item: neither documented nor excluded by the docstring;
                # the parse is part of the history, its outcome is not asserted
                n_lead_sep += step < n_first
                if ok and edit:
                    _edit_containers(got, keep, set(), [])
                continue
            n_sep_empty += tr.sep_empty and step < n_first
            if exp is FAIL:
                n_fail += step < n_first
                if ok:
                    raise Violation("grammar accepts %r (value %r) but PEG semantics reject it%s" % (s, got, when),
                                    term=eff, mode=mode, input=s, got=got)
            else:
                n_ok += step < n_first
                want = [exp[1], list(s[exp[0]:])]
                if not ok:
                    raise Violation("grammar rejects %r but PEG semantics accept it with value %r consuming %d%s"
                                    % (s, exp[1], exp[0], when), term=eff, mode=mode, input=s, expected=want)
                if not same(got, want):
                    raise Violation("on %r the grammar returns %r, PEG semantics prescribe %r "
                                    "[value, unconsumed rest]%s" % (s, got, want, when), term=eff, mode=mode, input=s,
                                    got=got, expected=want)
                if edit:
                    shared = []
                    _edit_containers(got, keep, set(), shared)
                    if shared:
                        raise Violation("on %r the grammar returns a value in which one container object stands at "
                                        "two places (after the caller's edit: %r): editing one part of the value "
                                        "changes another%s" % (s, got, when), term=eff, mode=mode, input=s, got=got)
    finally:
        for p, d in dbg_before:
            p.debug(d)
    kinds = set()
    flags = {"nested": False}
    _kinds(eff, kinds, False, flags)
    labels = ["has:" + k for k in sorted(kinds) if k not in ("char", "inset", "any")]
    labels.append("mode=" + mode)
    labels.extend(_sym_labels(sym))
    for pn in sorted(set(_prims_of(eff, []))):
        labels.append("prim:" + pn)
    if flags["nested"]:
        labels.append("lookahead/choice-under-rep/seq")
    if tr.backtracked:
        labels.append("backtracked-after-consuming")
    if tr.rejected:
        labels.append("map/lift-raised-Backtrack")
    if tr.recursed:
        labels.append("recursion-followed")
    labels.append("caller-edits-results" if edit else "results-left-alone")
    labels.append("debug=" + ("off" if not dbg else "all" if case.get("debug") == "all" else "subset"))
    if dbg and any(not s.endswith("\n") for s in inputs) and any(s.endswith("\n") for s in inputs):
        labels.append("debug:inputs-with-and-without-final-newline")
    if len(order) > n_first:
        labels.append("parsed-again")
    if n_sep_empty:
        labels.append("sep_by-empty-match")
    if n_lead_sep:
        labels.append("sep_by-leading-separator(unasserted)")
    if any(isinstance(x, list) for x in _opt_defaults(eff, [])):
        labels.append("opt-default-is-a-list")
    if n_ok and n_fail:
        labels.append("accepts-and-rejects")
    elif n_ok:
        labels.append("accepts-all")
    else:
        labels.append("rejects-all")
    nt = flags["nested"] and tr.backtracked and n_ok > 0 and n_fail > 0
    return {"nontrivial": nt, "labels": labels, "key": [eff, mode]}


# ---- strategy -----------------------------------------------------------------------------------

_AB = "abc"
_values = st.sampled_from(["a", "b", "ab", "", [], None, ["a"], ["a", "b"], "dflt", 0])


_rejectable = st.sampled_from(["a", "b", "c", "a", "b", "ab", "aa", "", [], None, ["a"], ["b"], ["a", "b"], ["a", "a"]])


def _leaf():
    return st.one_of(
        st.tuples(st.just("char"), st.sampled_from(_AB)).map(list),
        st.tuples(st.just("inset"), st.text(_AB, min_size=1, max_size=2)).map(list),
        st.tuples(st.just("string"), st.text(_AB, min_size=1, max_size=2), st.integers(0, 2)).map(list),
        st.tuples(st.just("lit"), st.text("abAB", min_size=0, max_size=2), st.booleans(),
                  st.one_of(st.none(), st.integers(0, 3))).map(list),
        st.just(["any"]), st.just(["eof"]), st.just(["ref"]),
        st.tuples(st.just("char"), st.sampled_from(_AB)).map(list),
        st.tuples(st.just("hang"), st.sampled_from(["a", "ab", "abc", "bc"])).map(list),
        st.tuples(st.just("prim"), st.integers(0, 7)).map(list),     # resolved against the alphabet by concretise()
    )


def _rejecting():
    one = st.sampled_from(_AB)
    leaf = st.one_of(st.tuples(st.just("char"), one).map(list), st.tuples(st.just("inset"), st.sampled_from(["ab", "bc", "abc"])).map(list),
                     st.just(["any"]))
    return st.one_of(
        st.tuples(st.just("map"), leaf, st.integers(0, 2), st.lists(one, min_size=1, max_size=2, unique=True)).map(list),
        st.tuples(st.just("lift"), st.lists(leaf, min_size=1, max_size=2), st.integers(0, 2),
                  st.lists(st.lists(one, min_size=1, max_size=2), min_size=1, max_size=4)).map(list))


def _ext(ch):
    rej = st.one_of(st.just([]), st.lists(_rejectable, min_size=1, max_size=4))
    return st.one_of(
        st.tuples(st.just("seq"), st.lists(ch, min_size=1, max_size=3)).map(list),
        st.tuples(st.just("choice"), st.lists(ch, min_size=1, max_size=3)).map(list),
        st.tuples(st.just("many"), ch, st.integers(0, 2)).map(list),
        st.tuples(st.just("until"), ch, ch).map(list),
        st.tuples(st.just("opt"), ch, st.one_of(st.none(), st.just("dflt"), st.just(0), st.just([]), st.just(["a"]))).map(list),
        # item.sep_by(sep): any item, any separator; and the everyday shape (one-symbol items, one-symbol separator)
        st.tuples(st.just("sepby"), ch, ch).map(list),
        st.tuples(st.just("sepby"), st.one_of(st.tuples(st.just("inset"), st.sampled_from(["a", "ab", "ac"])).map(list), ch),
                  st.tuples(st.just("char"), st.sampled_from("bc")).map(list)).map(list),
        st.tuples(st.just("kl"), ch, ch).map(list), st.tuples(st.just("kr"), ch, ch).map(list),
        st.tuples(st.just("fb"), ch, ch).map(list), st.tuples(st.just("nfb"), ch, ch).map(list),
        st.tuples(st.just("map"), ch, st.integers(0, 2), rej).map(list),
        st.tuples(st.just("lift"), st.lists(ch, min_size=1, max_size=3), st.integers(0, 2),
                  st.lists(st.lists(_rejectable, min_size=1, max_size=2), max_size=3)).map(list),
        st.tuples(st.just("wrap"), ch).map(list),
        st.tuples(st.just("withindent"), ch).map(list),
        # an indentation scope whose first alternative (itself a scope) fails before a HangingString reads it
        st.tuples(ch, ch, st.sampled_from(["a", "ab", "abc"])).map(
            lambda p: ["withindent", ["seq", [p[0], ["choice", [["withindent", p[1]], ["hang", p[2]]]]]]]),
        st.tuples(st.just("rec"), ch).map(list),
        # guarded recursion that really recurses:  R <- x R y / z   and   R <- x R?
        st.tuples(ch, ch, ch).map(lambda p: ["rec", ["choice", [["seq", [p[0], ["ref"], p[1]]], p[2]]]]),
        st.tuples(ch, st.sampled_from(["seq", "kr", "kl"])).map(
            lambda p: ["rec", ([p[1], [p[0], ["opt", ["ref"], None]]] if p[1] == "seq" else
                               [p[1], p[0], ["opt", ["ref"], None]])]),
        # scanners: repetition up to a (multi-character) terminator, as in the shipped comment / quoted-string /
        # heredoc grammars; the terminator can be preceded by a partial match of itself
        st.tuples(st.sampled_from([["any"], ["any"], ["inset", "ab"], ["inset", "abc"], ["char", "a"]]),
                  st.one_of(st.tuples(st.just("lit"), st.sampled_from(["ab", "ba", "aab", "abb", "aba", "aa", "abc", "b"]),
                                      st.booleans(), st.none()).map(list),
                            st.tuples(st.just("inset"), st.sampled_from(["a", "ab", "bc"])).map(list),
                            st.tuples(st.just("char"), st.sampled_from(_AB)).map(list), ch)
                  ).map(lambda p: ["until", p[0], p[1]]),
        st.tuples(st.tuples(st.just("lit"), st.sampled_from(["ab", "a", "aab"]), st.booleans(), st.none()).map(list),
                  st.sampled_from(["ab", "ba", "aab", "abb", "b"])).map(
            lambda p: ["seq", [p[0], ["until", ["any"], ["lit", p[1], False, None]], ["lit", p[1], False, None]]]),
        st.tuples(st.just("many"), st.tuples(st.just("kr"), st.tuples(st.just("nfb"), st.just(["lit", "ab", False, None]),
                                                                       st.just(["any"])).map(list), st.just(["any"])).map(list),
                  st.integers(0, 1)).map(list),
        # "a failed alternative leaves no trace on what later alternatives see": a mapped / lifted function that
        # refuses (Backtrack) values its children really produce, placed where something else is tried afterwards -
        # first alternative of a choice, an option or a repetition in front of another term
        st.tuples(_rejecting(), ch, st.integers(0, 2)).map(
            lambda p: [["choice", [p[0], p[1]]], ["seq", [["opt", p[0], None], p[1]]],
                       ["seq", [["many", p[0], 0], p[1]]]][p[2]]),
        # shapes the property names: look-ahead inside repetition, choice under sequence
        st.tuples(st.just("many"), st.tuples(st.sampled_from(["fb", "nfb"]), ch, ch).map(list),
                  st.integers(0, 1)).map(list),
        st.tuples(st.just("seq"), st.tuples(st.tuples(st.just("choice"), st.lists(ch, min_size=2, max_size=3)).map(list),
                                            ch).map(list)).map(list),
    )


# ---- symbol map ----------------------------------------------------------------------------------
# PEG semantics are independent of what the input symbols are: the term generator works over the three
# abstract symbols a, b, c (and their upper-case forms for case-insensitive literals) and a drawn symbol map
# renames them - in the term, in its reject lists and in the inputs - to three concrete characters.  What a
# grammar then sees must still be exactly the string the caller passed: line ends, blanks, NUL, quotes,
# backslashes, comment characters, non-ASCII letters are ordinary symbols for the combinators.

_SYM_POOL = ["\n", "\r", "\n", "\r", " ", "\t", "\x0b", "\x0c", "\x00", "\x1b", "\x1c", "\x7f", "\x85", "\u2028",
             "\u00a0", "\ufeff", "\\", '"', "'", "#", "/", "%", "{", "*", "-", ".", "0", "7", "x", "Z", "\u00e9",
             "\u0416", "\U0001f600"]


def _swap(ch):
    w = ch.swapcase()
    return w if len(w) == 1 and len(w.lower()) == 1 and len(w.upper()) == 1 else ch


def _sym_char(ch, sym):
    i = "abc".find(ch)
    if i >= 0:
        return sym[i]
    i = "ABC".find(ch)
    if i >= 0:
        return _swap(sym[i])
    return ch


def _sym_text(x, sym):
    return "".join(_sym_char(ch, sym) for ch in x)


def _sym_value(v, sym):
    """rename inside a value of a reject list (what Map / Lift functions compare the matched text with)"""
    if isinstance(v, str):
        return _sym_text(v, sym)
    if isinstance(v, list):
        return [_sym_value(x, sym) for x in v]
    return v


def _uniq(chars):
    out = []
    for ch in chars:
        if ch not in out:
            out.append(ch)
    return "".join(out)


def concretise(t, sym, alpha):
    """abstract term -> term over the concrete symbols.  The context-stack combinators measure columns and skip
    white space, which the reference models only for the white-space free letters: under any other symbol map
    WithIndent becomes a Wrapper and HangingString a String.  ["prim", n] picks, among the library's named
    parsers that can match a character of the alphabet (LineEnd and WS always can succeed), the n-th."""
    ident = list(sym) == ["a", "b", "c"]
    k = t[0]
    if k == "char":
        return [k, _sym_char(t[1], sym)]
    if k == "inset":
        return [k, _uniq(_sym_text(t[1], sym))]
    if k == "string":
        return [k, _uniq(_sym_text(t[1], sym)), t[2]]
    if k == "lit":
        return [k, _sym_text(t[1], sym), t[2], t[3]]
    if k in ("any", "eof", "ref"):
        return list(t)
    if k == "hang":
        return list(t) if ident else ["string", _uniq(_sym_text(t[1], sym)), 0]
    if k == "prim":
        cands = [n for n in PRIM_ORDER if n in ("LineEnd", "WS") or any(ch in PRIM_CHARS[n] for ch in alpha)]
        return ["prim", cands[t[1] % len(cands)]]
    if k == "withindent":
        return [k if ident else "wrap", concretise(t[1], sym, alpha)]
    if k in ("seq", "choice"):
        return [k, [concretise(c, sym, alpha) for c in t[1]]]
    if k == "lift":
        return [k, [concretise(c, sym, alpha) for c in t[1]], t[2], _sym_value(t[3], sym)]
    if k in ("many", "opt"):
        return [k, concretise(t[1], sym, alpha), t[2]]
    if k in ("until", "kl", "kr", "fb", "nfb", "sepby"):
        return [k, concretise(t[1], sym, alpha), concretise(t[2], sym, alpha)]
    if k == "map":
        return [k, concretise(t[1], sym, alpha), t[2], _sym_value(t[3], sym)]
    if k in ("wrap", "rec"):
        return [k, concretise(t[1], sym, alpha)]
    raise ValueError(k)


def _sym_class(ch):
    if ch in "\n\r":
        return "line-end"
    if ch in string.whitespace:
        return "blank"
    if ord(ch) < 0x20 or ord(ch) == 0x7f:
        return "control"
    if ord(ch) > 0x7e:
        return "non-ascii"
    if ch.isalnum():
        return "alnum"
    return "punct"


def _sym_labels(sym):
    if list(sym) == ["a", "b", "c"]:
        return ["sym=abc"]
    out = ["sym=mapped"]
    for c in sorted(set(_sym_class(ch) for ch in sym)):
        out.append("sym:" + c)
    if "\r" in sym and "\n" in sym:
        out.append("sym:CR+LF")
    return out


def _prims_of(t, out):
    if t[0] == "prim":
        out.append(t[1])
    for x in _subterms(t):
        _prims_of(x, out)
    return out


_sym = st.one_of(
    st.just(["a", "b", "c"]), st.just(["a", "b", "c"]), st.just(["a", "b", "c"]),
    st.lists(st.sampled_from(_SYM_POOL), min_size=3, max_size=3, unique=True),
    st.lists(st.sampled_from(_SYM_POOL), min_size=3, max_size=3, unique=True),
    # line-oriented text: both line-end characters and one more symbol
    st.sampled_from([" ", "x", "#", "\\", "\t", "0", '"']).flatmap(lambda o: st.permutations(["\r", "\n", o])),
)


def _has_case(t):
    if t[0] == "lit":
        return t[2] or t[1] != t[1].lower()
    return any(_has_case(x) for x in _subterms(t))


def _subterms(t):
    for x in t[1:]:
        if isinstance(x, list) and x and isinstance(x[0], str) and x[0] in _KINDS:
            yield x
        elif isinstance(x, list):
            for y in x:
                if isinstance(y, list) and y and isinstance(y[0], str) and y[0] in _KINDS:
                    yield y


# built once: constructing (and validating) the recursive strategy anew for every example cost ten times more
# than drawing from it
_RAW_TERM = st.recursive(_leaf(), _ext, max_leaves=8)
_MODE = st.sampled_from(["ctor", "ops"])
_CASE_ALPHA = st.sampled_from(["abA", "aAB", "abc"])
_EXTRA = st.lists(st.text("abcAB", min_size=4, max_size=9), max_size=8)
# history of one parser object: which inputs are parsed once more at the end (indices, modulo), whether the caller
# edits the containers of every value it gets back, and on which of the grammar's parser objects Parser.debug() is on
_AGAIN = st.lists(st.integers(0, 60), max_size=10)
_EDIT = st.booleans()
_DEBUG = st.one_of(st.just([]), st.just([]), st.just([]), st.lists(st.integers(0, 40), min_size=1, max_size=5), st.just("all"))


@st.composite
def _term_case(draw, tier):
    sym = list(draw(_sym))
    raw = draw(_RAW_TERM)
    mode = draw(_MODE)
    if _has_case(raw):
        alpha = draw(_CASE_ALPHA)
    else:
        alpha = "abc"
    extra = draw(_EXTRA)
    again, edit, debug = draw(_AGAIN), draw(_EDIT), draw(_DEBUG)
    alpha = _uniq(_sym_text(alpha, sym))
    for ch in sym:                       # a non-letter has no other case: keep three symbols
        if len(alpha) < 3 and ch not in alpha:
            alpha += ch
    t = normalise(concretise(raw, sym, "".join(sym) + alpha), guard=sym[0])
    return {"term": t, "mode": mode, "alpha": alpha, "maxlen": 3 if tier == "quick" else 5,
            "extra": [_sym_text(x, sym) for x in extra], "sym": sym, "again": again, "edit": edit, "debug": debug}


def strat_terms(tier):
    return _term_case(tier)


# =================================================================================================
# 2. JSON example grammar vs json
# =================================================================================================

_WS = ["", " ", "\n", "\t", "  ", "\r\n", "\n    ", " \t "]
_JCHARS = "".join(chr(i) for i in range(0x20, 0x7f) if chr(i) != "\\")


class _WsSource(object):
    def __init__(self, seq):
        self.seq = seq or [0]
        self.i = 0
        self.used = set()

    def next(self, slot):
        w = _WS[self.seq[self.i % len(self.seq)] % len(_WS)]
        self.i += 1
        if w:
            self.used.add(slot)
        return w


def _render_str(s):
    return '"' + s.replace('"', '\\"') + '"'


def _render_num(v):
    r = repr(v)
    if isinstance(v, float) and ("e" in r or "E" in r or "n" in r):
        raise ValueError("float outside the documented subset: %r" % (v,))
    return r


def render(v, ws):
    """JSON text of v with generated whitespace at every position where RFC 8259 allows it"""
    if v is None:
        return "null"
    if v is True:
        return "true"
    if v is False:
        return "false"
    if isinstance(v, (int, float)):
        return _render_num(v)
    if isinstance(v, str):
        return _render_str(v)
    if isinstance(v, list):
        if not v:
            return "[" + ws.next("empty-container") + "]"
        parts = [ws.next("before-item") + render(x, ws) + ws.next("after-item") for x in v]
        return "[" + ",".join(parts) + "]"
    if isinstance(v, dict):
        if not v:
            return "{" + ws.next("empty-container") + "}"
        parts = []
        for k in sorted(v):
            parts.append(ws.next("before-key") + _render_str(k) + ws.next("before-colon") + ":" +
                         ws.next("after-colon") + render(v[k], ws) + ws.next("after-item"))
        return "{" + ",".join(parts) + "}"
    raise ValueError(type(v))


def _depth(v):
    if isinstance(v, list):
        return 1 + max([_depth(x) for x in v] or [0])
    if isinstance(v, dict):
        return 1 + max([_depth(x) for x in v.values()] or [0])
    return 0


def _walk(v):
    yield v
    if isinstance(v, list):
        for x in v:
            for y in _walk(x):
                yield y
    elif isinstance(v, dict):
        for k in sorted(v):
            yield k
            for y in _walk(v[k]):
                yield y


_private_code = {}


def _private_copy(module):
    import types
    path = module.__file__
    if path not in _private_code:       # the compiled source is immutable: compiled once per process
        with open(path) as f:
            _private_code[path] = compile(f.read(), path, "exec")
    mod = types.ModuleType("vp_c19_private_" + module.__name__.rsplit(".", 1)[-1])
    mod.__file__ = path
    exec(_private_code[path], mod.__dict__)
    return mod


def check_json(case):
    from insights.parsr.examples import json_parser
    value = case["value"]
    if case.get("dumps") is not None:
        d = case["dumps"]
        text = json.dumps(value, indent=d["indent"], separators=tuple(d["separators"]) if d["separators"] else None,
                          sort_keys=True)
        if "\\" in text.replace('\\"', ""):
            raise ValueError("generated value needs escapes outside the documented subset")
        used = set()
    else:
        ws = _WsSource(case.get("ws"))
        text = ws.next("lead") + render(value, ws) + ws.next("trail")
        used = ws.used
    ref = json.loads(text)
    if not same(ref, value):
        raise ValueError("harness renderer is wrong: %r -> %r" % (value, text))
    # history: the grammar is one module-level object that decodes document after document.  The same text is
    # decoded "times" times; with "edit" the caller edits every container of each decoded value (append to every
    # list, add a key to every dict) before the next decode.  Parser.debug() (diagnostics only) is switched on
    # for a generated subset of the grammar's parser objects and restored afterwards.
    edit = bool(case.get("edit"))
    times = 1 + (case.get("again") or 0)
    if edit or times > 1 or case.get("debug"):
        # a history gets its own copy of the shipped grammar (the module's source executed into a private module
        # object), so that the outcome of a case never depends on what earlier cases did with the shared one
        json_parser = _private_copy(json_parser)
    dbg = _debug_selection(json_parser.Top, case.get("debug"))
    dbg_before = [(p, p._debug) for p in dbg]
    suffix = " [Parser.debug() enabled on %d of the grammar's parsers]" % len(dbg) if dbg else ""
    try:
        for p in dbg:
            p.debug()
        for step in range(times):
            when = suffix + (" [decode %d of the same text%s]"
                             % (step + 1, ", the caller edited the containers of the earlier results" if edit else "")
                             if step else "")
            try:
                got = json_parser.loads(text)
            except Exception as e:   # parsr reports parse errors as plain Exception
                raise Violation("JSON grammar rejects %r which json.loads decodes to %r%s" % (text, ref, when), text=text,
                                error=str(e)[:300])
            if not same(got, ref):
                raise Violation("JSON grammar decodes %r to %r, json.loads to %r%s" % (text, got, ref, when), text=text,
                                got=repr(got), expected=repr(ref))
            if edit:
                shared = []
                _edit_containers(got, (), set(), shared)
                if shared:
                    raise Violation("JSON grammar decodes %r to a value in which one container object stands at two "
                                    "places (after the caller's edit: %r); json.loads gives independent containers%s"
                                    % (text, got, when), text=text, got=repr(got))
    finally:
        for p, d in dbg_before:
            p.debug(d)
    labels = ["depth=%d" % min(_depth(value), 4)]
    nodes = list(_walk(value))
    if any(isinstance(x, list) and x and not x[0] for x in nodes):
        labels.append("falsy-first-array-element")
    if any(isinstance(x, str) and x == "" for x in nodes):
        labels.append("empty-string")
    if any(isinstance(x, str) and '"' in x for x in nodes):
        labels.append("escaped-quote")
    if any(isinstance(x, float) for x in nodes):
        labels.append("float")
    if any(isinstance(x, (list, dict)) and not x for x in nodes):
        labels.append("empty-container")
    for u in sorted(used):
        if u in ("empty-container", "before-colon"):
            labels.append("ws:" + u)
    labels.append("render=dumps" if case.get("dumps") is not None else "render=slots")
    labels.append("caller-edits-results" if edit else "results-left-alone")
    labels.append("decoded-%s" % ("once" if times == 1 else "again"))
    labels.append("debug=" + ("off" if not dbg else "all" if case.get("debug") == "all" else "subset"))
    if dbg:
        labels.append("debug:text-ends-with-newline" if text.endswith("\n") else "debug:text-without-final-newline")
    return {"nontrivial": _depth(value) >= 2, "labels": labels, "key": text}


def _float_from(parts):
    neg, ip, fp = parts
    v = float(("-" if neg else "") + ip + "." + fp)
    r = repr(v)
    if "e" in r or "E" in r:
        v = float(("-" if neg else "") + ip + ".5")
        if "e" in repr(v):
            v = 0.5
    return v


_jfloat = st.tuples(st.booleans(), st.text("0123456789", min_size=1, max_size=12).map(lambda s: str(int(s))),
                    st.text("0123456789", min_size=1, max_size=6)).map(_float_from)
_jint = st.one_of(st.integers(-3, 3), st.integers(-10 ** 6, 10 ** 6), st.integers(-10 ** 30, 10 ** 30))
_jstr = st.one_of(st.text(_JCHARS, max_size=6), st.sampled_from(["", "a", " ", "'", '"', "a b", "[1]", "{", ",", ":"]),
                  st.text("ab\"' ,:[]{}0", max_size=8))
_jscalar = st.one_of(st.none(), st.booleans(), _jint, _jfloat, _jstr, st.sampled_from([0, False, None, "", 0.0]))
_jvalue = st.recursive(_jscalar, lambda ch: st.one_of(st.lists(ch, max_size=4),
                                                      st.dictionaries(_jstr, ch, max_size=4)), max_leaves=14)


_JDEBUG = st.one_of(st.just([]), st.just([]), st.just([]), st.lists(st.integers(0, 80), min_size=1, max_size=5), st.just("all"))


@st.composite
def _json_case(draw):
    value = draw(_jvalue)
    hist = {"edit": draw(st.booleans()), "again": draw(st.sampled_from([0, 1, 1, 2])), "debug": draw(_JDEBUG)}
    if draw(st.integers(0, 3)) == 0:
        seps = draw(st.sampled_from([None, [",", ":"], [", ", ": "], [" , ", " : "], [",\n", ":\t"], [" ,", " :"]]))
        indent = draw(st.sampled_from([None, 0, 1, 2, 4, "\t"]))
        return dict(hist, value=value, dumps={"indent": indent, "separators": seps})
    return dict(hist, value=value, ws=draw(st.lists(st.integers(0, len(_WS) - 1), min_size=1, max_size=12)), dumps=None)


def strat_json(tier):
    return _json_case()


# =================================================================================================
# 3. tag expressions
# =================================================================================================
# chain  := {"items": [factor, ...], "ops": [op, ...]}      len(ops) == len(items) - 1, op in & | ,
# factor := {"neg": bool, "atom": atom, "pre": int, "post": int}
# atom   := {"tag": str, "q": 0|1|2} | {"re": str, "q": 0|1|2} | {"group": chain}

UNIVERSE = ["a", "b", "c", "ab", "a-b", "a b", "x&y"]
_BARE_TAGS = ["a", "b", "c", "ab", "a-b", "d"]
_QUOTED_ONLY_TAGS = ["a b", "x&y", "a|b", "(a)", "!a"]
_BARE_RE = ["a", "^a", "b$", "^ab?$", "c|b", "(a|c)$", "-", "^[^a]*$", "a&b", "x.y"]
_QUOTED_ONLY_RE = ["a b", " ", "^a b$"]
_TWS = ["", " ", "  ", "\t", "\n"]


def _bare_tag_ok(t):
    return bool(t) and not any(c in " \t\n\r\x0b\x0c)&,|(!/'\"" for c in t)


def _bare_re_ok(p):
    return bool(p) and not any(c in " \t\n\r\x0b\x0c" for c in p) and p[0] not in "'\""


def _render_atom(a):
    if "group" in a:
        return "(" + render_chain(a["group"]) + ")", False
    if "tag" in a:
        q = a["q"] if _bare_tag_ok(a["tag"]) else (a["q"] or 1)
        body = a["tag"]
        return (body, False) if q == 0 else (('"%s"' if q == 1 else "'%s'") % body, False)
    q = a["q"] if _bare_re_ok(a["re"]) else (a["q"] or 1)
    if q == 0:
        return "/" + a["re"], True       # a bare regex runs up to the next whitespace
    return "/" + (('"%s"' if q == 1 else "'%s'") % a["re"]), False


def render_chain(ch):
    out = []
    for i, f in enumerate(ch["items"]):
        if i:
            out.append(ch["ops"][i - 1])
        body, need_ws = _render_atom(f["atom"])
        post = _TWS[f["post"] % len(_TWS)]
        if need_ws and not post:
            post = " "
        out.append(_TWS[f["pre"] % len(_TWS)] + ("!" if f["neg"] else "") + body + post)
    return "".join(out)


def _tokens(ch, out):
    """token list of a chain - the structure of *factors* is given, the structure of operators is not"""
    for i, f in enumerate(ch["items"]):
        if i:
            out.append(ch["ops"][i - 1])
        if f["neg"]:
            out.append("!")
        a = f["atom"]
        if "group" in a:
            out.append("(")
            _tokens(a["group"], out)
            out.append(")")
        elif "tag" in a:
            out.append(("tag", a["tag"]))
        else:
            out.append(("re", a["re"]))
    return out


_PREC = {"|": 1, ",": 1, "&": 2}


def ref_eval(tokens, tags):
    """precedence climbing: ! binds tightest, then &, then | and , (same level), left-associative"""
    pos = [0]

    def peek():
        return tokens[pos[0]] if pos[0] < len(tokens) else None

    def take():
        t = tokens[pos[0]]
        pos[0] += 1
        return t

    def primary():
        t = take()
        if t == "!":
            return not primary()
        if t == "(":
            v = expr(1)
            if take() != ")":
                raise ValueError("unbalanced")
            return v
        if t[0] == "tag":
            return t[1] in tags
        if t[0] == "re":
            return any(re.search(t[1], x) is not None for x in tags)
        raise ValueError(t)

    def expr(minp):
        left = primary()
        while True:
            op = peek()
            if op not in _PREC or _PREC[op] < minp:
                return left
            take()
            right = expr(_PREC[op] + 1)
            left = (left and right) if op == "&" else (left or right)

    v = expr(1)
    if pos[0] != len(tokens):
        raise ValueError("trailing tokens")
    return bool(v)


def _mixes_levels(ch):
    lv = set()
    for op in ch["ops"]:
        lv.add("and" if op == "&" else "or")
    if any(f["neg"] for f in ch["items"]) and ch["ops"]:
        lv.add("not")
    if len(lv) >= 2:
        return True
    return any(_mixes_levels(f["atom"]["group"]) for f in ch["items"] if "group" in f["atom"])


def check_taglang(case):
    from insights.core import taglang
    ch = case["expr"]
    text = render_chain(ch)
    toks = _tokens(ch, [])
    # Parser.debug() (diagnostics only) on a generated subset of the grammar's parser objects, restored afterwards
    dbg = _debug_selection(taglang.parse, case.get("debug"))
    dbg_before = [(p, p._debug) for p in dbg]
    try:
        for p in dbg:
            p.debug()
        try:
            pred = taglang.parse(text)
        except Exception as e:   # parsr reports parse errors as plain Exception
            raise Violation("taglang rejects the well-formed expression %r%s"
                            % (text, " [Parser.debug() enabled on %d of the grammar's parsers]" % len(dbg) if dbg else ""),
                            text=text, error=str(e)[:300])
    finally:
        for p, d in dbg_before:
            p.debug(d)
    n_true = 0
    for bits in range(1 << len(UNIVERSE)):
        tags = [t for i, t in enumerate(UNIVERSE) if bits >> i & 1]
        want = ref_eval(toks, tags)
        got_l = pred(tags)
        got_s = pred(set(tags))
        if bool(got_l) != want or bool(got_s) != want:
            raise Violation("taglang evaluates %r on tags %r to %r (list) / %r (set); boolean evaluation under "
                            "the stated precedence gives %r" % (text, tags, got_l, got_s, want), text=text, tags=tags)
        n_true += want
    ops = set()

    def collect(c):
        for op in c["ops"]:
            ops.add(op)
        for f in c["items"]:
            if f["neg"]:
                ops.add("!")
            a = f["atom"]
            if "group" in a:
                ops.add("()")
                collect(a["group"])
            elif "re" in a:
                ops.add("/re")
            elif a["q"] or not _bare_tag_ok(a["tag"]):
                ops.add("quoted")
    collect(ch)
    labels = ["op:" + o for o in sorted(ops)]
    labels.append("constant" if n_true in (0, 1 << len(UNIVERSE)) else "contingent")
    labels.append("debug=" + ("off" if not dbg else "all" if case.get("debug") == "all" else "subset"))
    mixes = _mixes_levels(ch)
    if mixes:
        labels.append("mixes-levels-unparenthesised")
    return {"nontrivial": mixes and 0 < n_true < (1 << len(UNIVERSE)), "labels": labels, "key": text}


_atom_leaf = st.one_of(
    st.builds(lambda t, q: {"tag": t, "q": q}, st.sampled_from(_BARE_TAGS + _BARE_TAGS + _QUOTED_ONLY_TAGS), st.integers(0, 2)),
    st.builds(lambda t, q: {"tag": t, "q": q}, st.sampled_from(_BARE_TAGS), st.just(0)),
    st.builds(lambda r, q: {"re": r, "q": q}, st.sampled_from(_BARE_RE + _QUOTED_ONLY_RE), st.integers(0, 2)),
)


def _chain_of(atom):
    factor = st.builds(lambda n, a, pre, post: {"neg": n, "atom": a, "pre": pre, "post": post},
                       st.booleans(), atom, st.sampled_from([0, 0, 1, 2, 3, 4]), st.sampled_from([0, 0, 1, 2, 3, 4]))

    @st.composite
    def chain(draw):
        items = draw(st.lists(factor, min_size=1, max_size=5))
        ops = [draw(st.sampled_from(["&", "|", ",", "&", "|"])) for _ in items[1:]]
        return {"items": items, "ops": ops}
    return chain()


def _tag_expr():
    atoms = st.recursive(_atom_leaf, lambda a: st.one_of(a, st.builds(lambda c: {"group": c}, _chain_of(a))),
                         max_leaves=8)
    return st.builds(lambda c, d: {"expr": c, "debug": d}, _chain_of(atoms),
                     st.one_of(st.just([]), st.just([]), st.just([]), st.lists(st.integers(0, 60), min_size=1, max_size=5),
                               st.just("all")))


def strat_taglang(tier):
    return _tag_expr()


# =================================================================================================
# 4. tag expressions where the shipped tools consume them
# =================================================================================================
# case := {"expr": chain,                     the --tags expression
#          "pkgq": chain | None,              the -k / --pkg-query expression (values: the component's module name)
#          "comps": [{"tags": [tag..], "decl": "kw" | "omit", "type": "rule" | "condition", "mod": int}, ..],
#          "entry": "run-plugins" | "run-components" | "info",
#          "opts": {"eq": bool, "nld": bool, "fmt": str | None, "verbose": bool, "as": "list" | "set"}}
# The components live in a throw-away package below a temp dir; they depend on nothing, so a component is
# evaluated by insights-run exactly when the option selected it.

_SEL_PKG = "vp_dyn_c19sel"
_SEL_MODS = ["a", "b", "ab", "net_c"]
_SEL_K_TAGS = [_SEL_PKG + "." + m for m in _SEL_MODS] + [_SEL_PKG, "a"]
_SEL_K_RE = ["\\.a$", "ab", "\\.b$", "net", "sel\\.a", "^vp_dyn", "_c$", "^a", "[.]ab?$"]
_warm = []


def _sel_source(comps):
    """module name -> python source of the generated components in it"""
    by_mod = {}
    for i, c in enumerate(comps):
        m = _SEL_MODS[c["mod"] % len(_SEL_MODS)]
        lines = by_mod.setdefault(m, ["from insights.core.plugins import condition, make_pass, rule", ""])
        args = "" if c["decl"] == "omit" else "tags=%r" % ([str(t) for t in c["tags"]],)
        lines.append("")
        lines.append("@%s(%s)" % (c["type"], args))
        lines.append("def c%02d():" % i)
        lines.append("    return %s" % ('make_pass("C%02d")' % i if c["type"] == "rule" else repr("c%02d" % i)))
        lines.append("")
    return dict((m, "\n".join(l)) for m, l in by_mod.items())


def _sel_tags(c):
    return [] if c["decl"] == "omit" else list(c["tags"])


def _opt(name, value, eq):
    return [name + "=" + value] if eq else [name, value]


def check_tagselect(case):
    import contextlib
    import importlib
    import io
    import logging
    import os
    import shutil
    import sys
    import tempfile
    import insights
    from insights.core import dr, taglang
    from insights.tools import query
    from vp.sandbox import GlobalState

    comps = case["comps"]
    opts = case["opts"]
    entry = case["entry"]
    text = render_chain(case["expr"])
    toks = _tokens(case["expr"], [])
    ktext = ktoks = None
    if case.get("pkgq") is not None:
        ktext = render_chain(case["pkgq"])
        ktoks = _tokens(case["pkgq"], [])
    names = ["c%02d" % i for i in range(len(comps))]
    modof = dict((n, _SEL_PKG + "." + _SEL_MODS[c["mod"] % len(_SEL_MODS)]) for n, c in zip(names, comps))
    expected = set()
    for n, c in zip(names, comps):
        if ref_eval(toks, _sel_tags(c)) and (ktoks is None or ref_eval(ktoks, [modof[n]])):
            expected.add(n)
    for t in [text] + ([ktext] if ktext is not None else []):
        try:
            taglang.parse(t)
        except Exception as e:   # parsr reports parse errors as plain Exception
            raise Violation("taglang rejects the well-formed expression %r" % (t,), text=t, error=str(e)[:300])

    if not _warm:
        # what every run of insights-info loads first; done once per process and outside the snapshot below, so
        # that restoring the registries never leaves imported-but-unregistered default components behind
        query.load_default_components()
        _warm.append(True)

    tmp = tempfile.mkdtemp(prefix="vp-c19sel-")
    path0 = list(sys.path)
    color0 = getattr(insights, "_COLOR", None)
    root_log = logging.getLogger()
    log0 = (list(root_log.handlers), root_log.level)
    out = io.StringIO()
    selected = None
    try:
        with GlobalState(module_prefix=_SEL_PKG):
            pkg = os.path.join(tmp, _SEL_PKG)
            os.mkdir(pkg)
            with open(os.path.join(pkg, "__init__.py"), "w") as f:
                f.write("")
            for m, src in _sel_source(comps).items():
                with open(os.path.join(pkg, m + ".py"), "w") as f:
                    f.write(src)
            sys.path.insert(0, tmp)
            importlib.invalidate_caches()
            sel_args = _opt("--tags", text, opts["eq"])
            if ktext is not None:
                sel_args = (_opt("--pkg-query", ktext, opts["eq"]) if opts["eq"] else ["-k", ktext]) + sel_args

            def loaded():
                return dict((n, getattr(sys.modules[modof[n]], n)) for n in names)

            if entry == "info":
                sys.argv = ["insights-info", "-p", _SEL_PKG, "-t", "rule,condition"] + sel_args + \
                    (["-v"] if opts["verbose"] else [])
                with contextlib.redirect_stdout(out):
                    query.main()
                listed = [l.rstrip("\n") for l in out.getvalue().splitlines() if l.startswith(_SEL_PKG + ".")]
                selected = set(l.rsplit(".", 1)[1] for l in listed)
                if len(listed) != len(selected) or not selected <= set(names):
                    raise Violation("insights-info lists %r for the generated components %r" % (listed, names))
            else:
                argv = ["insights-run"] + sel_args
                if opts["fmt"]:
                    argv += ["-f", opts["fmt"]]
                if opts["nld"]:
                    argv.append("--no-load-default")
                component = None
                if entry == "run-plugins":
                    argv += ["-p", _SEL_PKG]
                else:
                    for m in sorted(set(modof.values())):
                        importlib.import_module(m)
                    component = [loaded()[n] for n in names]
                    if opts["as"] == "set":
                        component = set(component)
                sys.argv = argv
                try:
                    with contextlib.redirect_stdout(out):
                        broker = insights.run(component=component, print_summary=True)
                except Exception as e:
                    # the documented reaction to an empty selection
                    if not str(e).startswith(("No components for tag expression", "No components for pkg-query expression")):
                        raise
                    selected = set()
                else:
                    selected = set(n for n, c in loaded().items() if c in broker.instances)
    finally:
        sys.path[:] = path0
        sys.path_importer_cache.pop(tmp, None)
        if color0 is not None:
            insights._COLOR = color0
        for h in list(root_log.handlers):
            if h not in log0[0]:
                root_log.removeHandler(h)
        root_log.setLevel(log0[1])
        shutil.rmtree(tmp, ignore_errors=True)

    tool = "insights-info" if entry == "info" else "insights-run (%s)" % entry
    if selected != expected:
        tags = dict((n, _sel_tags(c)) for n, c in zip(names, comps))
        raise Violation("%s --tags %r%s selects %r; boolean evaluation of the expression on each component's tags "
                        "selects %r (missing %r, unexpected %r; tags: %r)"
                        % (tool, text, "" if ktext is None else " -k %r" % (ktext,), sorted(selected), sorted(expected),
                           sorted(expected - selected), sorted(selected - expected), tags),
                        tags_expr=text, pkg_query=ktext, entry=entry, components=tags, modules=modof)
    labels = ["entry=" + entry]
    if any(not _sel_tags(c) for c in comps):
        labels.append("component-without-tags")
    if ref_eval(toks, []):
        labels.append("true-on-no-tags")
        if any(not _sel_tags(c) for c in comps):
            labels.append("untagged-component-selected" if any(not _sel_tags(c) and n in expected
                                                               for n, c in zip(names, comps)) else "untagged-cut-by-pkg-query")
    if ktext is not None:
        labels.append("pkg-query")
    labels.append("selects-none" if not expected else "selects-all" if len(expected) == len(comps) else "selects-some")
    if len(set(modof.values())) > 1:
        labels.append("several-modules")
    return {"nontrivial": 0 < len(expected) < len(comps),
            "labels": labels, "key": [text, ktext, [[_sel_tags(c), c["mod"] % len(_SEL_MODS)] for c in comps], entry]}


_sel_comp = st.builds(
    lambda tags, decl, typ, mod: {"tags": tags, "decl": decl, "type": typ, "mod": mod},
    st.one_of(st.just([]), st.lists(st.sampled_from(UNIVERSE), min_size=1, max_size=3, unique=True),
              st.lists(st.sampled_from(UNIVERSE + ["d", "ba"]), max_size=4, unique=True)),
    st.sampled_from(["kw", "kw", "kw", "omit"]), st.sampled_from(["rule", "rule", "condition"]), st.sampled_from([0, 0, 1, 2, 3]))

_k_atom = st.one_of(
    st.builds(lambda t, q: {"tag": t, "q": q}, st.sampled_from(_SEL_K_TAGS), st.integers(0, 2)),
    st.builds(lambda r, q: {"re": r, "q": q}, st.sampled_from(_SEL_K_RE), st.integers(0, 2)),
)


_SEL_ENTRY = st.sampled_from(["run-plugins", "run-components", "info"])
_SEL_COMPS = st.lists(_sel_comp, min_size=2, max_size=6)
_SEL_EXPR = _tag_expr()
_SEL_PKGQ = _chain_of(st.one_of(_k_atom, _k_atom, st.builds(lambda c: {"group": c}, _chain_of(_k_atom))))
_SEL_WITH_PKGQ = st.sampled_from([False, False, True])
_SEL_OPTS = st.fixed_dictionaries({"eq": st.booleans(), "nld": st.booleans(), "fmt": st.sampled_from([None, "json", "text"]),
                                   "verbose": st.booleans(), "as": st.sampled_from(["list", "set"])})


@st.composite
def _tagselect_case(draw):
    entry = draw(_SEL_ENTRY)
    comps = draw(_SEL_COMPS)
    expr = draw(_SEL_EXPR)["expr"]
    pkgq = draw(_SEL_PKGQ) if draw(_SEL_WITH_PKGQ) else None
    return {"expr": expr, "pkgq": pkgq, "comps": comps, "entry": entry, "opts": draw(_SEL_OPTS)}


def strat_tagselect(tier):
    return _tagselect_case()


# =================================================================================================
# self-test of the reference models (fixed cases with known answers)
# =================================================================================================

def selftest():
    def run(t, s):
        r = ev(t, s, 0, None, Trace())
        return r if r is FAIL else [r[0], r[1]]
    a, b, c = ["char", "a"], ["char", "b"], ["char", "c"]
    # ordered choice commits to the first matching alternative (no longest match)
    assert run(["choice", [["lit", "a", False, None], ["lit", "ab", False, None]]], "ab") == [1, "a"]
    assert run(["seq", [["choice", [a, ["seq", [a, b]]]], c]], "abc") is FAIL          # no back-tracking into a choice
    assert run(["many", a, 0], "aab") == [2, ["a", "a"]] and run(["many", a, 3], "aab") is FAIL
    assert run(["many", a, 2], "aab") == [2, ["a", "a"]]
    assert run(["opt", a, "d"], "b") == [0, "d"] and run(["opt", a, "d"], "a") == [1, "a"]
    assert run(["fb", a, b], "ab") == [1, "a"] and run(["fb", a, b], "ac") is FAIL
    assert run(["nfb", a, b], "ac") == [1, "a"] and run(["nfb", a, b], "ab") is FAIL
    assert run(["kl", a, b], "ab") == [2, "a"] and run(["kr", a, b], "ab") == [2, "b"]
    assert run(["until", ["any"], c], "abcab") == [2, ["a", "b"]] and run(["until", ["any"], c], "") == [0, []]
    assert run(["string", "ab", 1], "abac") == [3, "aba"] and run(["string", "ab", 1], "c") is FAIL
    assert run(["string", "ab", 0], "c") == [0, ""]
    assert run(["lit", "Ab", True, None], "aB") == [2, "aB"] and run(["lit", "Ab", False, None], "ab") is FAIL
    assert run(["lit", "ab", False, 3], "ab") == [2, 3]
    assert run(["eof"], "") == [0, None] and run(["eof"], "a") is FAIL
    assert run(["map", a, 1, ["a"]], "a") is FAIL and run(["map", a, 1, []], "a") == [1, ["m", 1, "a"]]
    # guarded recursion: R <- a R b / c   (a^n c b^n)
    rec = ["rec", ["choice", [["seq", [a, ["ref"], b]], c]]]
    assert run(rec, "aacbb") == [5, ["a", ["a", "c", "b"], "b"]] and run(rec, "aacb") is FAIL
    assert nullable(["many", a, 0]) and not nullable(["many", a, 1]) and leftreach(["seq", [["opt", a, None], ["ref"]]])
    assert normalise(["many", ["opt", a, None], 0])[1][0] == "kr"
    assert normalise(normalise(rec)) == normalise(rec)
    assert effective(["seq", [["seq", [a, b]], c]], "ops") == ["seq", [a, b, c]]
    assert effective(["seq", [["seq", [a, b]], c]], "ctor") == ["seq", [["seq", [a, b]], c]]
    # sep_by = item? (sep item)*; a separator without a following item is not consumed
    sb = ["sepby", a, b]
    assert run(sb, "ababc") == [3, ["a", "a"]] and run(sb, "ab") == [1, ["a"]] and run(sb, "c") == [0, []]
    assert run(["sepby", ["opt", a, 0], b], "bba") == [3, [0, 0, "a"]]
    tq = Trace()
    assert ev(sb, "ba", 0, None, tq) == (2, ["a"]) and tq.lead_sep and not tq.sep_empty
    assert normalise(["sepby", ["opt", a, None], ["opt", b, None]])[1][0] == "kr"
    v = [[], {"k": []}]
    v.append(v[0])
    sh = []
    _edit_containers(v, (), set(), sh)
    assert sh == [v[0]] and v[0] == [_EDIT_MARK] and v[1]["k"] == [_EDIT_MARK] and v[1][_EDIT_MARK] == [_EDIT_MARK]
    # named parsers of the library and the symbol map
    assert run(["many", ["prim", "EOL"], 0], "\r\n\nx") == [3, ["\r", "\n", "\n"]]
    assert run(["seq", [["prim", "Letters"], ["prim", "LineEnd"]]], "ab") == [2, ["ab", None]]
    assert run(["kr", ["prim", "WS"], ["prim", "Digits"]], " \t\r\n07x") == [6, "07"] and run(["prim", "WSChar"], "\n") is FAIL
    crlf = ["\r", "\n", "x"]
    assert concretise(["lit", "aAb", True, None], crlf, "\r\nx") == ["lit", "\r\r\n", True, None]
    assert concretise(["map", ["string", "ab", 1], 0, ["ab", ["c"]]], crlf, "\r\nx") == \
        ["map", ["string", "\r\n", 1], 0, ["\r\n", ["x"]]]
    assert concretise(["withindent", ["hang", "ab"]], crlf, "\r\nx") == ["wrap", ["string", "\r\n", 0]]
    assert concretise(["withindent", ["hang", "ab"]], ["a", "b", "c"], "abc") == ["withindent", ["hang", "ab"]]
    assert concretise(["prim", 0], crlf, "\r\nx") == ["prim", "EOL"] and concretise(["prim", 0], list("abc"), "abc")[1] == "LineEnd"
    assert _sym_text("aAbB", ["x", "\u00e9", "0"]) == "xX\u00e9\u00c9" and _swap("\n") == "\n"
    assert run(["choice", [["lit", "\r\n", False, 0], ["lit", "\n", False, 1], ["lit", "\r", False, 2]]], "\r\n") == [2, 0]
    # tag expressions: the documented examples
    def tev(chain, tags):
        return ref_eval(_tokens(chain, []), tags)

    def f(tag, neg=False):
        return {"neg": neg, "atom": {"tag": tag, "q": 0}, "pre": 0, "post": 0}
    e = {"items": [f("a"), f("b"), f("c", True)], "ops": ["|", "&"]}            # a | b & !c
    assert render_chain(e) == "a|b&!c"
    assert tev(e, ["a"]) and tev(e, ["b"]) and not tev(e, ["b", "c"]) and tev(e, ["a", "c"]) and not tev(e, ["c"])
    g = {"items": [{"neg": False, "atom": {"group": {"items": [f("a"), f("b")], "ops": ["|"]}}, "pre": 0, "post": 1},
                   f("c")], "ops": ["&"]}                                          # (a | b) & c
    assert render_chain(g) == "(a|b) &c"
    assert tev(g, ["a", "c"]) and tev(g, ["b", "c"]) and not tev(g, ["a"]) and not tev(g, ["c"])
    h = {"items": [f("a"), f("b"), f("c")], "ops": ["&", ","]}                   # a & b , c == (a&b) or c
    assert tev(h, ["c"]) and tev(h, ["a", "b"]) and not tev(h, ["a"])
    r = {"items": [{"neg": False, "atom": {"re": "net", "q": 0}, "pre": 0, "post": 0}, f("apache")], "ops": ["|"]}
    assert render_chain(r) == "/net |apache"
    assert tev(r, ["mynetwork"]) and tev(r, ["apache"]) and not tev(r, ["security"])
    # JSON renderer
    ws = _WsSource([1])
    assert render({"a": [], "": [0, "x\"y"]}, ws) == '{ "" : [ 0 , "x\\"y" ] , "a" : [ ] }'
    assert same([0, False], [0, False]) and not same([0], [False]) and not same(1, 1.0) and not same([], ())


from vp import fuzz as _fuzz   # noqa: E402

SUBS = [
    Sub("terms", check_terms, strategy=strat_terms, quick=600, thorough=5000, workers_quick=4,
        workers_thorough=16, budget_quick=30, budget_thorough=500),
    Sub("json", check_json, strategy=strat_json, quick=1000, thorough=20000, workers_quick=2,
        workers_thorough=16, budget_quick=10, budget_thorough=300),
    Sub("taglang", check_taglang, strategy=strat_taglang, quick=600, thorough=8000, workers_quick=2,
        workers_thorough=16, budget_quick=15, budget_thorough=400),
    Sub("tagselect", check_tagselect, strategy=strat_tagselect, quick=60, thorough=1500, workers_quick=2,
        workers_thorough=16, budget_quick=10, budget_thorough=400),
    # coverage-guided campaigns (Atheris / libFuzzer) over the same strategies and oracles: the combinator
    # library, the JSON grammar and the tag language are pure Python, so edge coverage is a usable gradient
    Sub("fz_terms", check_terms, custom=_fuzz.hyp_campaign(PROPERTY, "terms", ["insights.parsr"], runs_quick=150,
                                                           runs_thorough=15000),
        workers_quick=1, workers_thorough=16, budget_quick=30, budget_thorough=900),
    Sub("fz_json", check_json, custom=_fuzz.hyp_campaign(PROPERTY, "json", ["insights.parsr", "insights.parsr.examples.json_parser"],
                                                         runs_quick=300, runs_thorough=150000),
        workers_quick=1, workers_thorough=16, budget_quick=30, budget_thorough=900),
    Sub("fz_taglang", check_taglang, custom=_fuzz.hyp_campaign(PROPERTY, "taglang", ["insights.parsr", "insights.core.taglang"],
                                                               runs_quick=300, runs_thorough=60000),
        workers_quick=1, workers_thorough=16, budget_quick=30, budget_thorough=900),
]

REGRESSIONS = [
    # fixes/C19-1.patch: sep_by dropped a falsy first element
    Reg("sep_by-falsy-first-zero", "json", {"value": [0, 1], "dumps": {"indent": None, "separators": None}}),
    Reg("sep_by-falsy-first-false", "json", {"value": [False, True], "dumps": {"indent": None, "separators": None}}),
    Reg("sep_by-falsy-first-null-empty", "json", {"value": {"k": [None], "l": [[], 1], "m": [0]}, "ws": [0], "dumps": None}),
    # fixes/C19-2.patch: the empty string
    Reg("empty-string", "json", {"value": "", "ws": [0], "dumps": None}),
    Reg("empty-string-key-and-value", "json", {"value": {"": "", "a": ["", "b"]}, "ws": [0, 1], "dumps": None}),
    # fixes/C19-3.patch: whitespace before ':' and inside empty containers
    Reg("ws-before-colon", "json", {"value": {"a": 1}, "dumps": {"indent": None, "separators": [" , ", " : "]}}),
    Reg("ws-in-empty-containers", "json", {"value": {"a": [], "b": {}}, "ws": [1], "dumps": None}),
    # hand-picked corners of the combinators
    Reg("choice-commits", "terms", {"term": ["seq", [["choice", [["char", "a"], ["seq", [["char", "a"], ["char", "b"]]]]],
                                                      ["char", "c"]]], "mode": "ctor", "alpha": "abc", "maxlen": 3, "extra": []}),
    Reg("lookahead-in-repetition", "terms", {"term": ["many", ["nfb", ["any"], ["char", "b"]], 1], "mode": "ops",
                                             "alpha": "abc", "maxlen": 4, "extra": ["aaabaa"]}),
    Reg("seq-accumulation", "terms", {"term": ["seq", [["seq", [["char", "a"], ["opt", ["char", "b"], None]]], ["char", "c"]]],
                                      "mode": "ops", "alpha": "abc", "maxlen": 3, "extra": []}),
    # /repo fix 5b4fadf: insights-info evaluated the --tags expression in place of the -k expression when both were given
    Reg("info-pkg-query-and-tags-1", "tagselect", {
        "expr": {"items": [{"neg": True, "atom": {"tag": "a", "q": 0}, "pre": 0, "post": 0}], "ops": []},
        "pkgq": {"items": [{"neg": True, "atom": {"tag": "vp_dyn_c19sel.a", "q": 0}, "pre": 0, "post": 0}], "ops": []},
        "entry": "info",
        "comps": [{"tags": [], "decl": "kw", "type": "rule", "mod": 0}, {"tags": [], "decl": "kw", "type": "rule", "mod": 0}],
        "opts": {"eq": False, "nld": False, "fmt": None, "verbose": False, "as": "list"}}),
    Reg("info-pkg-query-and-tags-2", "tagselect", {
        "expr": {"items": [{"neg": False, "atom": {"tag": "a", "q": 0}, "pre": 0, "post": 0}], "ops": []},
        "pkgq": {"items": [{"neg": False, "atom": {"re": "[.]a$", "q": 1}, "pre": 1, "post": 0}], "ops": []},
        "entry": "info",
        "comps": [{"tags": ["a", "x&y"], "decl": "kw", "type": "rule", "mod": 0}, {"tags": ["a"], "decl": "kw", "type": "rule", "mod": 1},
                  {"tags": [], "decl": "omit", "type": "condition", "mod": 0}],
        "opts": {"eq": True, "nld": False, "fmt": None, "verbose": True, "as": "list"}}),
    Reg("doc-example", "taglang", {"expr": {"items": [
        {"neg": False, "atom": {"tag": "a", "q": 0}, "pre": 0, "post": 1},
        {"neg": False, "atom": {"tag": "b", "q": 0}, "pre": 1, "post": 1},
        {"neg": True, "atom": {"tag": "c", "q": 0}, "pre": 1, "post": 0}], "ops": ["|", "&"]}}),
]
