"""C06 - collection stays in its root, honours the deny list, writes only to the archive.

Sub-checks (DESIGN.md, section C06; `collect` = round 3, `revisit` = round 4, see design.d/C06.md):

contain  G1/O1  sandbox trees with prefix-sharing siblings, symlinks (relative / absolute / chained /
                dangling / to system files) and '..' routes; file providers built directly and through
                simple_file / glob_file / first_file / foreach_collect under HostContext and
                HostArchiveContext.  Oracle: whatever provider comes back has its real location at or
                below the real root (component-wise) and its content is the content of that file.
                Round 5: every way content leaves a provider - .content, .stream() (first or second), of a
                plain or a filterable spec with filters (host-side grep pre-filter), the persisted copy
                (text write / cp of a raw spec, through Hydration or serde.serialize): no line of a file
                whose real location is outside the root comes out of any of them.
revisit  G1/O1  the same oracle over a HISTORY in one process: three nested roots, directories / files that are
                replaced by links (inside, into an outer root, outside) and back, the same datasource object
                and the same lexical place evaluated again under the same or another of the nested roots.
deny     G2/O2  host collection of a generated spec set (all nine declarative factories) under a
                recording context with a generated deny list (installed directly or through
                insights.collect.apply_blacklist), persisted through Hydration like collect() does.
                Oracle: nothing that matches the deny list by the documented literal rule is opened
                (audit hook), executed (recording context + Popen audit), returned, or persisted; a
                denied component is never invoked.
persist  G3/O3  the same machinery with '..' routes, save_as forms, slash/space/dot-dot laden commands,
                container paths and hand-made DatasourceProviders.  Oracle: file-system diff of the
                whole temp area + audit of write-opens/mkdir/cp: everything created lies beneath the
                output directory, nothing else changes.
"""
import contextlib
import fnmatch
import glob
import itertools
import shutil
import tempfile
import logging
import os
import re
import shlex
import sys
import types

from hypothesis import strategies as st

from vp.core import Sub, Reg, Violation, HarnessError
from vp.sandbox import (Sandbox, RecordingHostContext, GlobalState, audit_trace, fs_snapshot, fs_diff,
                        is_within, DEFAULT_EVENTS)

PROPERTY = "C06"
RULE = ("contain: tree = root R (name generated) with fixed inner files, 0-3 siblings whose name is R's name "
        "plus a suffix, an unrelated sibling, a parent file, an outside dir, 0-4 generated symlinks "
        "(relative/absolute/raw target; to inner files/dirs, siblings, parent, outside, other links, "
        "missing, /etc/passwd); root handed over plain / with trailing slash / through a symlink / with a "
        "'x/..' detour; probe paths are directed '..' routes (0-6 '..'), routes through links, random "
        "segment lists, with '.'/'//' noise; probes: TextFileProvider, RawFileProvider, simple_file, "
        "glob_file, first_file, foreach_collect under HostContext / HostArchiveContext; the spec is plain, "
        "filterable without filters or filterable with 1-2 filters (on a host the lines then come from the grep "
        "pre-filter), the providers are read through .content and .stream() in either order and (half of the cases) "
        "persisted - Hydration observer / dehydrate afterwards, hand-made providers through serde.serialize - "
        "into an output directory outside the root; every line of every tree file names the file's location. "
        "Non-trivial: a probe path contains '..' or crosses a symlink and a prefix-sharing sibling exists. "
        "revisit: a history of 3-11 steps against one sandbox with three nested candidate roots (outer, "
        "outer/inner, outer/inner/sub), five directory slots (plain directory or link to any other directory "
        "of the tree, inside / in an outer root / outside) and four file slots (plain file or link); steps = "
        "tree change | evaluation (kind, context class, 1-3 paths spelled relative to the chosen root, with "
        "'..' when the place is not below it) | evaluation of an earlier step's datasource object again "
        "under the same or another root (filters, read order, persisted copy as in contain, per "
        "evaluation); 1-2 'hot' slots per history attract most changes and paths. The "
        "oracle runs after every evaluation. Non-trivial: an evaluation names a lexical directory from which "
        "an earlier evaluation served content, after a tree change or under another root. "
        "deny: 2-7 specs over the nine factories, items drawn from a fixed tree / command vocabulary (file "
        "names with a blank, a run of blanks, a tab; command words separated by one blank, runs of blanks, "
        "tabs; entries cut in front of any blank/tab of the command line; ten file names - and three command "
        "arguments - made of characters that are special to shell wildcards ([1] ? *), regular expressions "
        "(+ ( | )), case folding (HOSTS next to hosts) or are non-ASCII, some with the file they would select "
        "if read as a pattern next to them, reached literally, through wildcards and through patterns that spell "
        "them with a class; near-miss entries also: the name glob-escaped / regex-escaped / in the other case), "
        "deny entries = items, word-boundary prefixes of commands, near misses and unrelated strings, "
        "denied component names (full names under 'components', symbolic names of nine shipped "
        "DefaultSpecs entries under files/commands); non-trivial: one factory has both a denied and an "
        "allowed, collected item in the same case. persist: specs with '..' routes (climb above the root and return), "
        "save_as in file/dir form with leading '/', absolute save_as into a decoy dir, commands whose "
        "arguments contain '/', '..', spaces, container paths with '..', hand-made DatasourceProviders; "
        "non-trivial: save_as set or a '..' present. Distinct by the whole case.")
ASSUMPTIONS = [
    "os.path.realpath, glob/fnmatch semantics and the sys.addaudithook events 'open'/'subprocess.Popen'/"
    "'os.mkdir' of CPython are trusted",
    "deny matching is the documented literal rule on the path / command as the spec names it: file = "
    "exact path, command = equal to an entry or continuing it after a space (aliases through symlinks "
    "or '..' are not expected to be blocked; over-blocking is not a violation)",
    "a command line denied by the literal rule and a not denied one that differ only in the blanks between "
    "their words are the same argv for the execution context: for such a pair only the returned providers are "
    "judged, not the argv log (labelled denied-argv-shared-with-allowed-command)",
    "revisit: the tree is changed only between evaluations (single thread), never during one; the real location "
    "of a provider is taken right after the evaluation that returned it",
    "commands are never executed: a recording HostContext answers every command with generated output; "
    "only grep/cat/cp on sandbox files really run; container engines are the always present "
    "/usr/bin/env and /usr/bin/true (podman/docker are not assumed to exist)",
    "the output directory is fresh and contains no symlinks planted by a third party",
    "contain/revisit: every line of every generated file carries the file's own (link-free) location, so a line "
    "found in a filtered listing or in a persisted copy identifies the file it came from; a line without such a "
    "token is only attributed to /etc/passwd (the one system file the generated links lead to) when it equals "
    "one of its lines; which lines a filter lets through is not judged here (lines of the right file, no more)",
]
EXCLUDED = [
    "save_as / DatasourceProvider.relative_path containing '..' segments (spec-author constants documented "
    "as relative paths; the statement quantifies '..' over collected paths only)",
    "symbolic spec names are drawn from nine simple shipped specs (hosts, fstab, cmdline, os_release, "
    "resolv_conf, date, hostname, mount, uptime); the other ~900 shipped specs are not run",
    "listdir/listglob (yield names, not file content)",
]

MOD = "vp_dyn_c06"

# the library warns about every skipped item; without any handler Python's last-resort handler would
# print each of them to stderr
logging.getLogger("insights").addHandler(logging.NullHandler())


# =================================================================================================
# small reference models
# =================================================================================================

def ref_file_denied(path, deny_files):
    """documented rule for files: the exact path"""
    return path in deny_files


def ref_cmd_denied(cmd, deny_cmds):
    """documented rule for commands: equal to an entry, or continuing the entry after a space"""
    return any(cmd == f or cmd.startswith(f + " ") for f in deny_cmds)


def ref_inside(real, real_root):
    return is_within(real, real_root)


def seg_glob(pattern, paths):
    """segment-wise fnmatch of '/'-separated pattern against the known file list"""
    ps = [s for s in pattern.split("/") if s]
    out = []
    for p in paths:
        qs = [s for s in p.split("/") if s]
        if len(qs) == len(ps) and all(fnmatch.fnmatchcase(q, s) for q, s in zip(qs, ps)):
            out.append(p)
    return out


def selftest():
    assert ref_cmd_denied("/bin/ls -l", ["/bin/ls"]) and ref_cmd_denied("/bin/ls", ["/bin/ls"])
    assert not ref_cmd_denied("/bin/lsblk", ["/bin/ls"]) and not ref_cmd_denied("/bin/ls", ["/bin/ls -l"])
    assert not ref_cmd_denied("/bin/ls -la", ["/bin/ls -l"]) and not ref_cmd_denied("x", [])
    assert ref_file_denied("/etc/a", ["/etc/a"]) and not ref_file_denied("/etc/a.bak", ["/etc/a"])
    assert ref_inside("/a/b/c", "/a/b") and ref_inside("/a/b", "/a/b") and not ref_inside("/a/b2/c", "/a/b")
    assert ref_inside("/x", "/") and not ref_inside("/a", "/a/b")
    assert seg_glob("/etc/*.conf", ["/etc/a.conf", "/etc/sub/c.conf", "/etc/hosts"]) == ["/etc/a.conf"]
    for exe in ("/usr/bin/env", "/usr/bin/true"):
        assert os.access(exe, os.X_OK), "needed as stand-in container engine: " + exe
    from insights.util import which
    from insights.core.spec_factory import SAFE_ENV
    assert which("cp", env=SAFE_ENV) and which("grep", env=SAFE_ENV)
    # expansions agree with the documented formats
    assert expand({"f": "container_collect", "tmpl": None, "elems": [["i", "env", "c1", "/etc/h"]]}) == \
        ["/usr/bin/env exec c1 cat /etc/h"]
    assert expand({"f": "container_execute", "tmpl": "{X}/ls %s", "elems": [["i", "env", "c1", "-a"]]}) == \
        ["/usr/bin/env exec c1 {X}/ls -a"]
    assert expand({"f": "foreach_execute", "tmpl": "{X}/ls %s %s", "elems": [["-a", "b"]]}) == ["{X}/ls -a b"]


# =================================================================================================
# dynamic spec sets
# =================================================================================================

def _traced(cls, log):
    """subclass of a factory whose instances log their invocation (by component name)"""
    def __call__(self, broker):
        log.append(self.__name__)
        return cls.__call__(self, broker)
    return type(cls.__name__, (cls,), {"__call__": __call__})


def make_specset(points, impls):
    """points: {name: RegistryPoint}, impls: {name: datasource}; returns (module, Specs, Impl)"""
    from insights.core.spec_factory import SpecSet
    mod = types.ModuleType(MOD)
    sys.modules[MOD] = mod
    d = {"__module__": MOD}
    d.update(points)
    Specs = type("Specs", (SpecSet,), d)
    mod.Specs = Specs
    d = {"__module__": MOD}
    d.update(impls)
    Impl = type("Impl", (Specs,), d)
    mod.Impl = Impl
    return mod, Specs, Impl


def _tup(e):
    return tuple(e) if isinstance(e, list) else e


def expand(spec):
    """the commands / paths a spec names, by the factories' documented formats"""
    f = spec["f"]
    if f == "simple_file":
        return [spec["path"]]
    if f == "first_file":
        return list(spec["paths"])
    if f == "glob_file":
        return list(spec["patterns"])
    if f == "foreach_collect":
        return [spec["tmpl"] % _tup(e) for e in spec["elems"]]
    if f == "simple_command":
        return [spec["cmd"]]
    if f == "command_with_args":
        return [spec["tmpl"] % _tup(spec["arg"])]
    if f == "foreach_execute":
        return [spec["tmpl"] % _tup(e) for e in spec["elems"]]
    if f == "container_execute":
        out = []
        for e in spec["elems"]:
            args = tuple(e[3:])
            cmd = spec["tmpl"] % args if args else spec["tmpl"]
            out.append("/usr/bin/%s exec %s %s" % (e[1], e[2], cmd))
        return out
    if f == "container_collect":
        out = []
        for e in spec["elems"]:
            if spec["tmpl"] is None or spec["tmpl"] == "%s":
                out.append("/usr/bin/%s exec %s cat %s" % (e[1], e[2], e[-1]))
            else:
                out.append("/usr/bin/%s exec %s cat %s" % (e[1], e[2], spec["tmpl"]))
        return out
    if f == "dsprovider":
        return []
    raise HarnessError("unknown factory %r" % (f,))


FILE_FACTORIES = ("simple_file", "glob_file", "first_file", "foreach_collect")
CMD_FACTORIES = ("simple_command", "command_with_args", "foreach_execute", "container_execute",
                 "container_collect")


def build_world(specs, ctxcls, sub, calls):
    """Build Specs/Impl for the list of spec descriptions.  `sub(s)` substitutes placeholders.
    Returns (Specs, Impl, names) where names[i] is the attribute name of spec i."""
    from insights.core import spec_factory as sf
    from insights.core.plugins import datasource
    from insights.core import filters
    points, impls, names = {}, {}, []
    for i, s in enumerate(specs):
        name = "s%d" % i
        names.append(name)
        f = s["f"]
        raw = bool(s.get("raw"))
        kind = sf.RawFileProvider if raw else sf.TextFileProvider
        multi = f in ("glob_file", "foreach_collect", "foreach_execute", "container_execute",
                      "container_collect")
        filt = s.get("filter") if not raw else None
        points[name] = sf.RegistryPoint(multi_output=multi, raw=raw, filterable=bool(filt))
        save_as = sub(s["save_as"]).replace("{I}", str(i)) if s.get("save_as") else None
        prov = None
        if f in ("foreach_collect", "foreach_execute", "container_execute", "container_collect",
                 "command_with_args"):
            pname = "p%d" % i
            value = _tup(s["arg"]) if f == "command_with_args" else [_tup(e) for e in s["elems"]]
            if isinstance(value, tuple):
                value = tuple(sub(x) for x in value)
            elif isinstance(value, list):
                value = [tuple(sub(x) for x in e) if isinstance(e, tuple) else sub(e) for e in value]
            else:
                value = sub(value)

            def prov(broker, _v=value, _n=pname):
                calls.append(_n)
                return _v
            prov.__name__ = pname
            prov = datasource(ctxcls)(prov)
            impls[pname] = prov
        if f == "simple_file":
            ds = _traced(sf.simple_file, calls)(sub(s["path"]), save_as=save_as, context=ctxcls, kind=kind)
        elif f == "glob_file":
            ds = _traced(sf.glob_file, calls)([sub(p) for p in s["patterns"]], save_as=save_as,
                                              context=ctxcls, kind=kind, ignore=s.get("ignore"))
        elif f == "first_file":
            ds = _traced(sf.first_file, calls)([sub(p) for p in s["paths"]], save_as=save_as,
                                               context=ctxcls, kind=kind)
        elif f == "foreach_collect":
            ds = _traced(sf.foreach_collect, calls)(prov, sub(s["tmpl"]), save_as=save_as, context=ctxcls,
                                                    kind=kind)
        elif f == "simple_command":
            ds = _traced(sf.simple_command, calls)(sub(s["cmd"]), save_as=save_as, context=ctxcls,
                                                   keep_rc=bool(s.get("keep_rc")))
        elif f == "command_with_args":
            ds = _traced(sf.command_with_args, calls)(sub(s["tmpl"]), prov, save_as=save_as, context=ctxcls)
        elif f == "foreach_execute":
            ds = _traced(sf.foreach_execute, calls)(prov, sub(s["tmpl"]), context=ctxcls,
                                                    keep_rc=bool(s.get("keep_rc")))
        elif f == "container_execute":
            ds = _traced(sf.container_execute, calls)(prov, sub(s["tmpl"]), context=ctxcls)
        elif f == "container_collect":
            ds = _traced(sf.container_collect, calls)(prov, sub(s["tmpl"]) if s["tmpl"] else None,
                                                      context=ctxcls)
        elif f == "dsprovider":
            def ds(broker, _s=s, _n=name, _sa=save_as):
                calls.append(_n)
                return sf.DatasourceProvider(_s["content"], sub(_s["rel"]), save_as=_sa)
            ds.__name__ = name
            ds = datasource(ctxcls)(ds)
        else:
            raise HarnessError("unknown factory %r" % (f,))
        impls[name] = ds
    _, Specs, Impl = make_specset(points, impls)
    for i, s in enumerate(specs):
        if s.get("filter") and not s.get("raw"):
            filters.add_filter(getattr(Specs, names[i]), s["filter"])
    return Specs, Impl, names


def flat(v):
    if v is None:
        return []
    return list(v) if isinstance(v, list) else [v]


def run_world(Specs, Impl, names, ctx, ctxcls, out=None, persist="observer", extra=()):
    """dr.run over all generated components, persisting every registry point like collect() does."""
    from insights.core import dr
    from insights.core.serde import Hydration
    broker = dr.Broker()
    broker[ctxcls] = ctx
    comps = [getattr(Specs, n) for n in names] + list(extra)
    graph = {}
    for c in comps:
        graph.update(dr.get_dependency_graph(c))
    h = None
    if out is not None:
        h = Hydration(out, ctx)
        if persist == "observer":
            broker.add_observer(h.make_persister(set(comps)))
    broker = dr.run(graph, broker)
    if h is not None and persist != "observer":
        for c in comps:
            h.dehydrate(c, broker)
    return broker


def read_tree_text(top):
    """concatenated (path, text) of every regular file below top"""
    out = []
    for r, _, fs in os.walk(top):
        for f in sorted(fs):
            p = os.path.join(r, f)
            try:
                with open(p, "rb") as fh:
                    out.append((p, fh.read().decode("utf-8", "replace")))
            except (IOError, OSError):
                pass
    return out


# =================================================================================================
# 1. containment
# =================================================================================================

IN_DIRS = ["", "etc", "etc/sub", "var"]
IN_FILES = ["top.txt", "etc/a.conf", "etc/sub/c.conf", "var/m.log"]
SUFFIXES = ["2", "_bak", ".old", "-x", " copy", "r"]
RNAMES = ["root", "R", "data", "r.d", "a b", "insights-x"]
T_IN = ["", "etc", "etc/a.conf", "etc/a.conf", "etc/sub/c.conf", "top.txt", "top.txt", "var"]
T_SIB = ["", "secret", "secret", "secret", "etc", "etc/a.conf", "etc/a.conf"]
T_OTHER = ["", "secret", "secret"]
T_PARENT = ["", "pfile", "pfile"]
T_OUT = ["", "secret", "secret"]


def c_layout(case):
    W = "w/p" if case["nest"] else "w"
    rname = case["rname"]
    R = W + "/" + rname
    sibs = [W + "/" + rname + s for s in case["sibs"]]
    return {"W": W, "R": R, "sibs": sibs, "other": W + "/other", "out": "outside"}


def c_target(case, t):
    """base-relative path of a symbolic target (None for raw/system targets)"""
    L = c_layout(case)
    k, p = t["k"], t.get("p", "")

    def j(a, b):
        return a + "/" + b if b else a
    if k == "in":
        return j(L["R"], p)
    if k == "sib":
        if not L["sibs"]:
            return j(L["other"], "secret")
        return j(L["sibs"][t.get("i", 0) % len(L["sibs"])], p)
    if k == "other":
        return j(L["other"], p)
    if k == "parent":
        return j(L["W"], p)
    if k == "out":
        return j(L["out"], p)
    if k == "missing":
        return j(L["R"], "nonexistent")
    if k == "link":
        links = case["links"]
        if not links:
            return j(L["R"], "nonexistent")
        l = links[t.get("i", 0) % len(links)]
        return j(j(L["R"], IN_DIRS[l["dir"] % len(IN_DIRS)]), l["name"])
    return None


def c_entries(case):
    L = c_layout(case)
    ents, contents = [], {}

    def f(p):
        c = loc_content(p)
        ents.append({"t": "f", "p": p, "c": c})
        contents[p] = c
    for d in IN_DIRS:
        ents.append({"t": "d", "p": L["R"] + ("/" + d if d else "")})
    for x in IN_FILES:
        f(L["R"] + "/" + x)
    for s in L["sibs"]:
        f(s + "/secret")
        f(s + "/etc/a.conf")
    f(L["other"] + "/secret")
    f(L["W"] + "/pfile")
    f(L["out"] + "/secret")
    for l in case["links"]:
        at = L["R"] + ("/" + IN_DIRS[l["dir"] % len(IN_DIRS)] if IN_DIRS[l["dir"] % len(IN_DIRS)] else "")
        p = at + "/" + l["name"]
        t = l["t"]
        if t["k"] == "sys":
            ents.append({"t": "l", "p": p, "raw": "/etc/passwd"})
            continue
        tp = c_target(case, t)
        if l["mode"] == "abs":
            ents.append({"t": "l", "p": p, "abs": tp})
        else:
            ents.append({"t": "l", "p": p, "to": os.path.relpath("/" + tp, "/" + at)})
    if case["rootform"] == "link":
        ents.append({"t": "l", "p": L["W"] + "/rl", "to": case["rname"]})
    return ents, contents


def c_root(case, base):
    L = c_layout(case)
    R = os.path.join(base, L["R"])
    rf = case["rootform"]
    if rf == "slash":
        return R + "/"
    if rf == "link":
        return os.path.join(base, L["W"], "rl")
    if rf == "detour":
        return os.path.join(base, L["other"], "..", case["rname"])
    return R


LOC_RE = re.compile(r"LOC<([^>\n]*)>")
SYS_FILE = "/etc/passwd"          # the one system file generated links / '..' routes lead to
_SYS_LINES = []


def loc_content(p):
    """every line of a tree file names the (base-relative, link-free) location it was written at, so that a
    single line found anywhere - in a filtered listing, in a persisted copy - proves where it came from"""
    return "LOC<%s> first\nLOC<%s> second line\n" % (p, p)


def foreign_origin(line, base, rroot):
    """positive evidence that `line` is content of a file whose real location is outside the root: it carries
    the location token of a tree file that is not below `rroot`, or it is a line of SYS_FILE.  None otherwise."""
    for m in LOC_RE.finditer(line):
        loc = os.path.join(base, m.group(1))
        if not ref_inside(loc, rroot):
            return loc
    if not _SYS_LINES:
        try:
            with open(SYS_FILE, "rb") as fh:
                _SYS_LINES.extend(l for l in fh.read().decode("utf-8", "replace").splitlines() if l.strip())
        except (IOError, OSError):
            pass
        _SYS_LINES.append("\0never a line\0")
    if line in _SYS_LINES:
        return SYS_FILE
    return None


def filter_datasource(ctxcls, pats, attr="f0"):
    """a filterable spec (with the filters `pats`, possibly none) whose implementation is handed to hand-made
    providers as their `ds`, the way the factories do it"""
    from insights.core import spec_factory as sf
    from insights.core import filters
    _, Specs, Impl = make_specset({attr: sf.RegistryPoint(filterable=True)},
                                  {attr: sf.simple_file("/vp-no-such-file", context=ctxcls)})
    if pats:
        filters.add_filter(getattr(Specs, attr), list(pats))
    return getattr(Impl, attr)


@contextlib.contextmanager
def quiet_stderr():
    """the raw serializer copies with cp, which complains on the inherited stderr about a provider that names
    a directory; keep that out of the runner's output (file descriptor 2 is put back in any case)"""
    sys.stderr.flush()
    saved = os.dup(2)
    null = os.open(os.devnull, os.O_WRONLY)
    try:
        os.dup2(null, 2)
        yield
    finally:
        os.dup2(saved, 2)
        os.close(null)
        os.close(saved)


def persist_direct(providers, out):
    """hand-made providers are persisted through the registered serializer (what marshal() calls for every
    value of a spec); a refusal is fine"""
    from insights.core.serde import serialize
    with quiet_stderr():
        for i, p in enumerate(providers):
            try:
                serialize(p, root=os.path.join(out, "data", "direct%d" % i))
            except Exception:  # noqa - refusals (outside the root, empty after filtering, ...) are never reported
                pass


def judge_archive(out, rroot, base, labels, where=""):
    """O1 for the persisted copies: no file below the output directory holds a line of a file whose real
    location is outside the root.  (Where the files are created is the business of `persist`.)"""
    n = 0
    for path, text in read_tree_text(out):
        if is_within(path, os.path.join(out, "data")):
            n += 1
        for line in text.splitlines():
            origin = foreign_origin(line, base, rroot)
            if origin is not None:
                raise Violation(
                    "%sthe persisted copy %s holds content of a file whose real location is outside the root: "
                    "root=%s, line %r comes from %s" % (
                        where, os.path.relpath(path, out), os.path.relpath(rroot, base), line[:120],
                        os.path.relpath(origin, base) if is_within(origin, base) else origin),
                    root=rroot, archive_file=path, origin=origin)
    labels.append("persisted-files" if n else "persisted-nothing")
    return n


def judge_providers(providers, rroot, base, by_real, raw, labels, where="", read="content", filtered=False):
    """O1 for the providers one evaluation returned: whatever yields content - through `.content` or through
    `.stream()`, in the order `read` says (a stream is only a second way out of the file while nothing has been
    loaded yet) - has its real location (now, i.e. right after the evaluation) at or below the real root, and
    the content is that file's (with filters: lines of that file).  Returns (number of providers served from
    inside, whether one of them was reached through a link or '..')."""
    served_in = 0
    crossing = False
    for p in providers:
        real = os.path.realpath(p.path)
        inside = ref_inside(real, rroot)
        exits = ["content"] if raw else (["stream", "content"] if read == "stream" else ["content", "stream"])
        got = []
        for how in exits:
            try:
                data = p.content if how == "content" else list(p.stream())
            except Exception:  # noqa - directory, empty file under HostContext, refusal, ...: nothing yielded
                continue
            if data is None:
                continue
            got.append((how, data.decode("utf-8", "replace").splitlines() if raw else list(data), data))
        if not got:
            # a provider object that cannot produce anything yields no content: outside the
            # statement wherever it points
            labels.append("provider-without-content" + ("" if inside else "-outside"))
            continue
        # whatever the provider object claims to be: no yielded line is a line of a file outside the root
        for how, lines, _data in got:
            for line in lines:
                origin = foreign_origin(line, base, rroot)
                if origin is not None:
                    raise Violation(
                        "%s%s of a file provider yields a line of a file whose real location is outside the "
                        "root: root=%s path=%s, line %r comes from %s" % (
                            where, how, os.path.relpath(rroot, base), p.relative_path, line[:120],
                            os.path.relpath(origin, base) if is_within(origin, base) else origin),
                        root=rroot, path=p.path, origin=origin)
        if os.path.isdir(real):
            # a directory has no content of its own (a host-side pre-filter answers with grep's complaint
            # about it): nothing of any file is yielded
            labels.append("directory-provider-with-output")
            continue
        ok = False
        for how, lines, data in got:
            if filtered and not lines:
                labels.append("empty-after-filter")       # (nothing yielded)
                continue
            if not inside:
                raise Violation(
                    "%sfile provider returned for a path whose real location is outside the root: "
                    "root=%s path=%s -> %s (%s served: %r)" % (
                        where, os.path.relpath(rroot, base), p.relative_path, os.path.relpath(real, base)
                        if is_within(real, base) else real, how, lines if not raw else repr(data[:80])),
                    root=rroot, path=p.path, real=real)
            want = by_real.get(real)
            if want is None:
                raise Violation("%scontent served for %s which is not a file of the tree" % (where, real))
            if filtered:
                # which lines a filter lets through is not this property's business; each is a line of the file
                alien = [l for l in lines if l not in want.splitlines()]
                if alien:
                    raise Violation("%s%s of %s has lines that are not in the in-root file it resolves to"
                                    % (where, how, p.path), got=lines, want=want)
            else:
                text = data.decode("utf-8") if raw else "\n".join(lines) + "\n"
                if text != want:
                    raise Violation("%s%s of %s differs from the in-root file it resolves to"
                                    % (where, how, p.path), got=text, want=want)
            ok = True
            labels.append("served-via:" + (how if how == "content" else
                                           "stream-first" if exits[0] == "stream" else "stream-after-content"))
        if ok:
            served_in += 1
            if real != os.path.normpath(p.path):
                crossing = True
    return served_in, crossing


def check_contain(case):
    from insights.core import spec_factory as sf
    from insights.core.context import HostContext, HostArchiveContext
    from insights.core.plugins import datasource
    from insights.core.serde import Hydration
    from insights.core import dr, filters
    ents, contents = c_entries(case)
    probe = case["probe"]
    labels = ["kind=" + probe["kind"], "ctx=" + case["ctx"], "rootform=" + case["rootform"]]
    persist = case.get("persist")           # None | "observer" (persisted while evaluated) | "after"
    read = probe.get("read", "content")     # which way out of the provider is tried first
    with Sandbox(ents) as sb, GlobalState():
        base = sb.base
        out = os.path.join(base, "o", "a1", "arch")
        root = c_root(case, base)
        rroot = os.path.realpath(os.path.join(base, c_layout(case)["R"]))
        by_real = dict((os.path.join(base, p), c) for p, c in contents.items())
        if case["ctx"] == "host":
            ctxcls, ctx = HostContext, RecordingHostContext(root, real_prefixes=[base])
        else:
            ctxcls, ctx = HostArchiveContext, HostArchiveContext(root)
        k = probe["kind"]
        raw = k == "RawFileProvider" if k in H_DIRECT else bool(probe.get("raw"))
        kind = sf.RawFileProvider if raw else sf.TextFileProvider
        providers, rejected = [], 0
        # a filterable spec with these filters (a raw spec cannot be filtered): on a host the lines come from a
        # grep over the file, in an archive they are filtered after reading
        pats = probe.get("filter") if not raw else None
        labels.append("filter=" + ("none" if pats is None else "filterable-without-filters" if not pats else "some"))
        # what the probe names, classified by the harness (labels only: shows that refusals are earned)
        named = probe.get("paths")
        if named is None:
            named = [probe["tmpl"] % _tup(e) for e in probe["elems"]]
        sib_roots = [os.path.join(base, x) for x in c_layout(case)["sibs"]]
        for q in named:
            hits = glob.glob(os.path.join(root, q.lstrip("/")))
            if not hits:
                labels.append("names:nothing")
            for h in hits[:4]:
                hr = os.path.realpath(h)
                what = "dir" if os.path.isdir(hr) else "file"
                if ref_inside(hr, rroot):
                    labels.append("names:inside-" + what)
                elif any(is_within(hr, x) for x in sib_roots):
                    labels.append("names:prefix-sibling-" + what)
                else:
                    labels.append("names:outside-" + what)
        if k in H_DIRECT:
            ds = filter_datasource(ctxcls, pats) if pats is not None else None
            for p in probe["paths"]:
                try:
                    providers.append(kind(p, root=root, ds=ds, ctx=ctx))
                except Exception:  # noqa - every refusal is fine (ContentException, plain Exception)
                    rejected += 1
            if persist == "observer":
                persist_direct(providers, out)
        else:
            if k == "simple_file":
                ds = sf.simple_file(probe["paths"][0], context=ctxcls, kind=kind)
            elif k == "glob_file":
                ds = sf.glob_file(list(probe["paths"]), context=ctxcls, kind=kind)
            elif k == "first_file":
                ds = sf.first_file(list(probe["paths"]), context=ctxcls, kind=kind)
            elif k == "foreach_collect":
                elems = [_tup(e) for e in probe["elems"]]

                @datasource(ctxcls)
                def prov(broker):
                    return elems
                ds = sf.foreach_collect(prov, probe["tmpl"], context=ctxcls, kind=kind)
            else:
                raise HarnessError("unknown probe kind %r" % (k,))
            multi = k in ("glob_file", "foreach_collect")
            _, Specs, Impl = make_specset({"s0": sf.RegistryPoint(multi_output=multi, raw=raw,
                                                                  filterable=pats is not None)}, {"s0": ds})
            if pats:
                filters.add_filter(Specs.s0, list(pats))
            broker = dr.Broker()
            broker[ctxcls] = ctx
            if persist:
                hydration = Hydration(out, ctx)
                if persist == "observer":
                    broker.add_observer(hydration.make_persister(set([Specs.s0])))
            with quiet_stderr() if persist == "observer" else contextlib.nullcontext():
                broker = dr.run(dr.get_dependency_graph(Specs.s0), broker)
            got = flat(broker.get(Impl.s0))
            for extra in flat(broker.get(Specs.s0)):      # normally the very same objects
                if not any(extra is g for g in got):
                    got.append(extra)
            providers.extend(got)
            if not got:
                rejected += 1
        served_in, crossing = judge_providers(providers, rroot, base, by_real, raw, labels, read=read,
                                              filtered=bool(pats))
        if persist == "after":
            if k in H_DIRECT:
                persist_direct(providers, out)
            else:
                with quiet_stderr():
                    hydration.dehydrate(Specs.s0, broker)
        if persist:
            labels.append("persist=" + persist)
            if judge_archive(out, rroot, base, labels):
                labels.append("persisted:" + ("raw-copy" if raw else "filtered-text" if pats else "text"))
        if served_in:
            labels.append("served-inside")
            if pats and case["ctx"] == "host":
                labels.append("served-by-host-side-pre-filter")
        # which ways out were open while the probe named something outside the root (refusals that are earned)
        if any(l.startswith(("names:outside-file", "names:prefix-sibling-file")) for l in labels):
            if pats and case["ctx"] == "host":
                labels.append("outside-file-named:host-side-pre-filter" + ("+stream-first" if read == "stream" else ""))
            elif not raw and read == "stream":
                labels.append("outside-file-named:stream-first")
            if persist:
                labels.append("outside-file-named:persisted-" + ("raw-copy" if raw else "text"))
        if rejected:
            labels.append("rejected-some")
    has_dd = any(".." in s.split("/") for s in probe.get("paths", []) + [probe.get("tmpl") or ""] +
                 [x for e in probe.get("elems", []) for x in (e if isinstance(e, list) else [e])])
    has_link = bool(case["links"]) or case["rootform"] == "link"
    if has_dd:
        labels.append("dotdot")
    if crossing:
        labels.append("served-through-link-or-dotdot")
    if case["sibs"]:
        labels.append("prefix-sibling")
    return {"nontrivial": bool(case["sibs"]) and (has_dd or has_link), "labels": sorted(set(labels))}


# ---- generator ---------------------------------------------------------------------------------

def _noise(draw, path):
    segs = path.split("/")
    n = draw(st.integers(0, 2))
    for _ in range(n):
        i = draw(st.integers(0, max(0, len(segs) - 1)))
        segs.insert(i, draw(st.sampled_from([".", "", "."])))
    p = "/".join(segs)
    while p.startswith("//"):
        p = p[1:]
    return p


# filters of a filterable spec: None = not filterable; [] = filterable, nobody has added a filter (a host skips
# such a spec); every line of a tree file is "LOC<path> first" / "LOC<path> second line"
C_FILTERS = ["LOC", "first", "second", "second line", "no-such-text", "conf", "secret", "-x", "etc/"]
_c_filter = st.integers(0, 9).flatmap(
    lambda r: st.none() if r < 4 else st.just([]) if r == 4 else
    st.lists(st.sampled_from(C_FILTERS), min_size=1, max_size=2, unique=True))


@st.composite
def _c_case(draw):
    case = {"rname": draw(st.sampled_from(RNAMES)),
            "sibs": draw(st.lists(st.sampled_from(SUFFIXES), min_size=0, max_size=3, unique=True)),
            "nest": draw(st.booleans()),
            "rootform": draw(st.sampled_from(["plain", "plain", "slash", "link", "detour"])),
            "ctx": draw(st.sampled_from(["host", "archive"])),
            "links": []}
    if draw(st.integers(0, 9)) > 0 and not case["sibs"]:
        case["sibs"] = [draw(st.sampled_from(SUFFIXES))]

    def target():
        k = draw(st.sampled_from(["in", "in", "sib", "sib", "sib", "other", "parent", "out", "missing", "link",
                                  "sys"]))
        t = {"k": k}
        if k == "in":
            t["p"] = draw(st.sampled_from(T_IN))
        elif k == "sib":
            t["p"] = draw(st.sampled_from(T_SIB))
            t["i"] = draw(st.integers(0, 2))
        elif k == "other":
            t["p"] = draw(st.sampled_from(T_OTHER))
        elif k == "parent":
            t["p"] = draw(st.sampled_from(T_PARENT))
        elif k == "out":
            t["p"] = draw(st.sampled_from(T_OUT))
        elif k == "link":
            t["i"] = draw(st.integers(0, 3))
        return t
    for i in range(draw(st.integers(0, 4))):
        case["links"].append({"dir": draw(st.integers(0, len(IN_DIRS) - 1)), "name": "l%d" % i,
                              "mode": draw(st.sampled_from(["rel", "abs"])), "t": target()})
    L = c_layout(case)

    def dotdot_route():
        t = target()
        tp = c_target(case, t)
        if tp is None:      # system file: far too many '..'
            return "../" * draw(st.integers(8, 12)) + "etc/passwd"
        D = draw(st.sampled_from(IN_DIRS))
        S = (L["R"] + ("/" + D if D else "")).split("/")
        T = tp.split("/")
        c = 0
        while c < min(len(S), len(T)) and S[c] == T[c]:
            c += 1
        e = draw(st.integers(0, min(c, 2)))
        up = len(S) - c + e
        parts = ([D] if D else []) + [".."] * up + T[c - e:]
        return "/".join(parts) or "."

    def link_route():
        if not case["links"]:
            return dotdot_route()
        l = draw(st.sampled_from(case["links"]))
        d = IN_DIRS[l["dir"]]
        t = l["t"]
        children = {("in", ""): IN_FILES, ("in", "etc"): ["a.conf", "sub/c.conf"], ("in", "var"): ["m.log"],
                    ("sib", ""): ["secret", "etc/a.conf"], ("sib", "etc"): ["a.conf"],
                    ("other", ""): ["secret"], ("out", ""): ["secret"],
                    ("parent", ""): ["pfile", case["rname"] + "/top.txt"] +
                    [case["rname"] + x + "/secret" for x in case["sibs"]]}.get((t["k"], t.get("p", "")))
        if children and draw(st.integers(0, 4)) > 0:
            rest = draw(st.sampled_from(children))
        elif draw(st.integers(0, 2)) > 0:
            rest = ""
        else:
            rest = draw(st.sampled_from(["secret", "etc/a.conf", "a.conf", "sub/c.conf", "../secret", "..",
                                         "pfile", case["rname"] + "/top.txt", "../etc/a.conf"]))
        return "/".join(x for x in [d, l["name"], rest] if x)

    def link_dotdot_route():
        # through a link and then up again: the kernel resolves the link first, so "<link>/../x" is a
        # child of the link *target's* parent, whatever the lexically collapsed path looks like
        if not case["links"]:
            return dotdot_route()
        l = draw(st.sampled_from(case["links"]))
        d = IN_DIRS[l["dir"]]
        up = "/".join([".."] * draw(st.sampled_from([1, 1, 1, 2])))
        rest = draw(st.sampled_from(["secret", "secret", "etc/a.conf", "a.conf", "pfile", "top.txt",
                                     case["rname"] + "/top.txt", "m.log"] +
                                    [case["rname"] + x + "/secret" for x in case["sibs"]]))
        return "/".join(x for x in [d, l["name"], up, rest] if x)

    def random_route():
        vocab = ["etc", "sub", "var", "a.conf", "c.conf", "m.log", "top.txt", "secret", "pfile", "..", "..",
                 ".", "other", "outside", "w", "p", case["rname"]] + \
                [case["rname"] + s for s in case["sibs"]] + [l["name"] for l in case["links"]]
        return "/".join(draw(st.lists(st.sampled_from(vocab), min_size=1, max_size=6)))

    def path():
        p = draw(st.sampled_from([dotdot_route, dotdot_route, dotdot_route, link_route, link_route, link_route,
                                  link_dotdot_route, link_dotdot_route, random_route]))()
        p = _noise(draw, p)
        if draw(st.booleans()):
            p = "/" + p
        return p

    def globify(p):
        segs = p.split("/")
        idx = [i for i, s in enumerate(segs) if s not in ("", ".", "..")]
        if idx and draw(st.integers(0, 3)) > 0:
            i = idx[-1] if draw(st.booleans()) else draw(st.sampled_from(idx))
            s = segs[i]
            segs[i] = draw(st.sampled_from(["*", s[:1] + "*", "*" + s[-2:], "?" + s[1:], "[%s]*" % s[:1]]))
        return "/".join(segs)

    kind = draw(st.sampled_from(["TextFileProvider", "RawFileProvider", "simple_file", "glob_file",
                                 "first_file", "foreach_collect"]))
    probe = {"kind": kind, "raw": draw(st.booleans())}
    # the ways content leaves a provider: .content / .stream() (whichever comes first really reads the file), of a
    # plain spec or of a filterable one with filters (host: grep over the file), and the persisted copy
    probe["filter"] = draw(_c_filter)
    probe["read"] = draw(st.sampled_from(["content", "content", "stream"]))
    case["persist"] = draw(st.sampled_from([None, None, None, "observer", "observer", "after"]))
    if kind in ("TextFileProvider", "RawFileProvider"):
        probe["paths"] = [path() for _ in range(draw(st.integers(1, 4)))]
    elif kind == "simple_file":
        probe["paths"] = [path()]
    elif kind == "glob_file":
        probe["paths"] = [globify(path()) for _ in range(draw(st.integers(1, 3)))]
    elif kind == "first_file":
        probe["paths"] = [path() for _ in range(draw(st.integers(1, 4)))]
    else:
        form = draw(st.sampled_from(["%s", "/%s", "%s/secret", "etc/../%s", "%s/%s"]))
        probe["tmpl"] = form
        if form == "%s/%s":
            probe["elems"] = []
            for _ in range(draw(st.integers(1, 3))):
                p = path().rstrip("/")
                a, _, b = p.rpartition("/")
                probe["elems"].append([a or ".", globify(b) if b else "*"])
        elif form == "%s/secret":
            probe["elems"] = [path().rsplit("/", 1)[0] or "." for _ in range(draw(st.integers(1, 3)))]
        else:
            probe["elems"] = [globify(path()) for _ in range(draw(st.integers(1, 3)))]
    # '%' or '$' never occur in generated paths (templates / expandvars)
    case["probe"] = probe
    return case


def strat_contain(tier):
    return _c_case()


# =================================================================================================
# 1b. containment over a history: several evaluations in one process while the tree changes
# =================================================================================================
#
# The statement quantifies over every evaluation, not over the first one in a fresh directory: whatever an
# earlier evaluation (another context, another root, the same datasource object, the same path before the
# tree changed) has seen must not make a later one serve a file from outside ITS root.  A case is a list of
# steps interpreted against one sandbox: tree changes (a directory replaced by a link and back, a file
# replaced by a link and back) and evaluations (root = one of three nested, self-similar levels).

H_LEVELS = ["outer", "outer/inner", "outer/inner/sub"]        # candidate roots (each has lnk/, the upper two etc/app/)
H_FIXED = H_LEVELS + ["outer/etc", "outer/inner/etc", "outer/other", "outer2", "outside"]
H_SLOTS = ["outer/etc/app", "outer/inner/etc/app"] + [l + "/lnk" for l in H_LEVELS]   # directory or link to one
H_DIRS = H_FIXED + H_SLOTS
H_FSLOTS = [l + "/b.conf" for l in H_LEVELS] + ["outer/other/b.conf"]                 # plain file or link to one
H_FILES = [d + "/a.conf" for d in H_DIRS] + H_FSLOTS
H_DEEP_SLOTS = [i for i, s in enumerate(H_SLOTS) if sum(1 for l in H_LEVELS if s.startswith(l + "/")) > 1]
H_DIRECT = ("TextFileProvider", "RawFileProvider")
H_KINDS = H_DIRECT + ("simple_file", "glob_file", "first_file", "foreach_collect")


def h_content(rel):
    return loc_content(rel)


def h_entries():
    ents, contents = [], {}
    for d in H_DIRS:
        ents.append({"t": "d", "p": d})
    for f in H_FILES:
        contents[f] = h_content(f)
        ents.append({"t": "f", "p": f, "c": contents[f]})
    return ents, contents


def _h_remove(p):
    if os.path.islink(p) or os.path.isfile(p):
        os.unlink(p)
    elif os.path.isdir(p):
        shutil.rmtree(p)


def h_change(base, step):
    """apply one tree change; the parents of all slots are fixed real directories"""
    mode = step.get("mode", "rel")
    if step["op"] == "set":
        rel = H_SLOTS[step["slot"] % len(H_SLOTS)]
        p = os.path.join(base, rel)
        _h_remove(p)
        if step["to"] is None:
            os.mkdir(p)
            with open(os.path.join(p, "a.conf"), "w") as f:
                f.write(h_content(rel + "/a.conf"))
            return "dir"
        target = H_DIRS[step["to"] % len(H_DIRS)]
        if target == rel:
            target = "outside"
    else:
        rel = H_FSLOTS[step["slot"] % len(H_FSLOTS)]
        p = os.path.join(base, rel)
        _h_remove(p)
        if step["to"] is None:
            with open(p, "w") as f:
                f.write(h_content(rel))
            return "file"
        target = H_DIRS[step["to"] % len(H_DIRS)] + "/a.conf"
    full = os.path.join(base, target)
    os.symlink(full if mode == "abs" else os.path.relpath(full, os.path.dirname(p)), p)
    return "link"


def check_revisit(case):
    from insights.core import spec_factory as sf
    from insights.core.context import HostContext, HostArchiveContext
    from insights.core.plugins import datasource
    from insights.core.serde import Hydration
    from insights.core import dr, filters
    ents, contents = h_entries()
    labels = []
    nontrivial = False
    with Sandbox(ents) as sb, GlobalState():
        base = sb.base
        by_real = dict((os.path.join(base, p), c) for p, c in contents.items())
        evals = []        # the probes of the evaluations so far: (id, probe)
        built = {}        # probe id -> (Specs, Impl, attribute): the same datasource object is evaluated again
        epoch = 0         # number of tree changes so far
        accepted = {}     # lexical directory -> [(root index, epoch)] of the evaluations that served a file of it
        for k, step in enumerate(case["steps"]):
            if step["op"] in ("set", "fset"):
                labels.append("change:%s->%s" % ("dir-slot" if step["op"] == "set" else "file-slot",
                                                 h_change(base, step)))
                epoch += 1
                continue
            if "again" in step:
                if not evals:
                    continue
                pid, probe = evals[step["again"] % len(evals)]
                labels.append("same-datasource-again")
            else:
                pid, probe = k, step
            evals.append((pid, probe))
            r = step["root"] % len(H_LEVELS)
            rroot = os.path.join(base, H_LEVELS[r])               # fixed real directories
            root = rroot + ("/" if step.get("rootform") == "slash" else "")
            kind, paths = probe["kind"], list(probe["paths"])
            raw = kind == "RawFileProvider" if kind in H_DIRECT else bool(probe.get("raw"))
            if probe["ctx"] == "host":
                ctxcls, ctx = HostContext, RecordingHostContext(root, real_prefixes=[base])
            else:
                ctxcls, ctx = HostArchiveContext, HostArchiveContext(root)
            labels += ["kind=" + kind, "ctx=" + probe["ctx"], "root=%d" % r]
            # the filters belong to the datasource (evaluated again: the same ones); how the providers are read
            # and whether the evaluation is persisted (each one into an output directory of its own) to the step
            pats = probe.get("filter") if not raw else None
            persist, read = step.get("persist"), step.get("read", "content")
            out = os.path.join(base, "o", "e%d" % k)
            where = "step %d of the history (after %d tree changes): " % (k, epoch)
            if pats is not None:
                labels.append("filterable-with-filters" if pats else "filterable-without-filters")
            providers = []
            if kind in H_DIRECT:
                cls = sf.RawFileProvider if raw else sf.TextFileProvider
                if pats is not None and pid not in built:
                    built[pid] = filter_datasource(ctxcls, pats, attr="f%d" % pid)
                for p in paths:
                    try:
                        providers.append(cls(p, root=root, ds=built.get(pid), ctx=ctx))
                    except Exception:  # noqa - every refusal is fine
                        pass
                if persist == "observer":
                    persist_direct(providers, out)
            else:
                if pid not in built:
                    pk = sf.RawFileProvider if raw else sf.TextFileProvider
                    extra = {}
                    if kind == "simple_file":
                        ds = sf.simple_file(paths[0], context=ctxcls, kind=pk)
                    elif kind == "glob_file":
                        ds = sf.glob_file(paths, context=ctxcls, kind=pk)
                    elif kind == "first_file":
                        ds = sf.first_file(paths, context=ctxcls, kind=pk)
                    elif kind == "foreach_collect":
                        def prov(broker, _v=[p.lstrip("/") for p in paths]):
                            return list(_v)
                        prov.__name__ = "p%d" % pid
                        prov = datasource(ctxcls)(prov)
                        extra["p%d" % pid] = prov
                        ds = sf.foreach_collect(prov, probe.get("tmpl") or "%s", context=ctxcls, kind=pk)
                    else:
                        raise HarnessError("unknown probe kind %r" % (kind,))
                    attr = "s%d" % pid
                    multi = kind in ("glob_file", "foreach_collect")
                    impls = dict(extra)
                    impls[attr] = ds
                    _, Specs, Impl = make_specset({attr: sf.RegistryPoint(multi_output=multi, raw=raw,
                                                                          filterable=pats is not None)}, impls)
                    if pats:
                        filters.add_filter(getattr(Specs, attr), list(pats))
                    built[pid] = (Specs, Impl, attr)
                Specs, Impl, attr = built[pid]
                broker = dr.Broker()
                broker[ctxcls] = ctx
                if persist:
                    hydration = Hydration(out, ctx)
                    if persist == "observer":
                        broker.add_observer(hydration.make_persister(set([getattr(Specs, attr)])))
                with quiet_stderr() if persist == "observer" else contextlib.nullcontext():
                    broker = dr.run(dr.get_dependency_graph(getattr(Specs, attr)), broker)
                providers = flat(broker.get(getattr(Impl, attr)))
                for more in flat(broker.get(getattr(Specs, attr))):
                    if not any(more is g for g in providers):
                        providers.append(more)
            before = len(labels)
            served, _ = judge_providers(providers, rroot, base, by_real, raw, labels, where=where, read=read,
                                        filtered=bool(pats))
            del labels[before:]
            if persist == "after":
                if kind in H_DIRECT:
                    persist_direct(providers, out)
                else:
                    with quiet_stderr():
                        hydration.dehydrate(getattr(Specs, attr), broker)
            if persist:
                if judge_archive(out, rroot, base, [], where=where):
                    labels.append("persisted:" + ("raw-copy" if raw else "filtered-text" if pats else "text"))
            if served and pats and probe["ctx"] == "host":
                labels.append("served-by-host-side-pre-filter")
            if read == "stream" and not raw:
                labels.append("read=stream-first")
            # --- what this evaluation re-visits (labels / non-triviality only)
            now = set()
            for p in providers:
                try:
                    if p.loaded:
                        now.add(os.path.normpath(os.path.dirname(p.path)))
                except Exception:  # noqa
                    pass
            named = set(os.path.normpath(os.path.join(rroot, os.path.dirname(p.lstrip("/")))) for p in paths)
            for d in sorted(named | now):
                earlier = [(r0, e0) for r0, e0 in accepted.get(d, ()) if r0 != r or e0 != epoch]
                if not earlier:
                    continue
                nontrivial = True
                how = "served" if d in now else "refused"
                if any(r0 != r for r0, _e in earlier):
                    labels.append("revisit:directory-served-before-under-another-root:now-" + how)
                if any(e0 != epoch for _r, e0 in earlier):
                    labels.append("revisit:directory-served-before-the-tree-changed:now-" + how)
            for d in now:
                accepted.setdefault(d, []).append((r, epoch))
            labels.append("served" if served else "nothing-served")
    return {"nontrivial": nontrivial, "labels": sorted(set(labels))}


_h_read = st.sampled_from(["content", "content", "stream"])
_h_persist = st.sampled_from([None, None, None, None, "observer", "after"])


@st.composite
def _h_case(draw):
    # a history concentrates on one or two directories ("hot spots"), so that evaluations really come back
    # to a place an earlier one has seen
    # (slots with two or three of the nested roots above them come up more often: the same place can then be
    # named from an outer and from an inner root)
    focus = draw(st.lists(st.sampled_from(list(range(len(H_SLOTS))) + H_DEEP_SLOTS), min_size=1, max_size=2,
                          unique=True))
    near_roots = sorted(set(i for f in focus for i, l in enumerate(H_LEVELS) if H_SLOTS[f].startswith(l + "/")))

    def a_root():
        if draw(st.integers(0, 9)) < 7:
            return draw(st.sampled_from(near_roots))
        return draw(st.integers(0, len(H_LEVELS) - 1))

    def a_set(slot):
        to = None if draw(st.integers(0, 3)) == 0 else draw(st.integers(0, len(H_DIRS) - 1))
        return {"op": "set", "slot": slot, "to": to, "mode": draw(st.sampled_from(["rel", "abs"]))}

    def a_dir():
        r = draw(st.integers(0, 9))
        if r < 6:
            return H_SLOTS[draw(st.sampled_from(focus))]
        return draw(st.sampled_from(H_DIRS))

    def a_path(root, globbing):
        d = a_dir()
        name = draw(st.sampled_from(["a.conf", "a.conf"] + (["b.conf"] if d + "/b.conf" in H_FSLOTS else []) +
                                    (["*.conf", "?.conf", "[ab].conf"] if globbing else [])))
        rel = os.path.relpath("/" + d + "/" + name, "/" + H_LEVELS[root])           # '..' when not below the root
        if draw(st.integers(0, 5)) == 0:
            rel = "etc/../" + rel
        return ("/" if draw(st.booleans()) else "") + rel

    steps, n_evals = [], 0
    if draw(st.integers(0, 9)) < 6:
        # the tree the first evaluation meets is not always the all-plain one
        steps = [a_set(f) for f in focus]
    for _ in range(draw(st.integers(3, 9))):
        r = draw(st.integers(0, 9))
        mode = draw(st.sampled_from(["rel", "abs"]))
        if r < 3:
            steps.append(a_set(draw(st.sampled_from(focus)) if draw(st.integers(0, 4))
                               else draw(st.integers(0, len(H_SLOTS) - 1))))
        elif r == 3:
            to = None if draw(st.integers(0, 3)) == 0 else draw(st.integers(0, len(H_DIRS) - 1))
            steps.append({"op": "fset", "slot": draw(st.integers(0, len(H_FSLOTS) - 1)), "to": to, "mode": mode})
        elif r < 6 and n_evals:
            # the datasource of an earlier evaluation once more (same object, same relative paths), under
            # the same or another of the nested roots
            steps.append({"op": "eval", "again": draw(st.integers(0, n_evals - 1)), "root": a_root(),
                          "rootform": draw(st.sampled_from(["plain", "plain", "slash"])),
                          "read": draw(_h_read), "persist": draw(_h_persist)})
            n_evals += 1
        else:
            root = a_root()
            kind = draw(st.sampled_from(H_KINDS))
            globbing = kind in ("glob_file", "foreach_collect")
            n = 1 if kind == "simple_file" else draw(st.integers(1, 3))
            step = {"op": "eval", "root": root, "rootform": draw(st.sampled_from(["plain", "plain", "slash"])),
                    "ctx": draw(st.sampled_from(["host", "archive"])), "kind": kind, "raw": draw(st.booleans()),
                    "paths": [a_path(root, globbing) for _ in range(n)],
                    "filter": draw(_c_filter), "read": draw(_h_read), "persist": draw(_h_persist)}
            if kind == "foreach_collect":
                step["tmpl"] = draw(st.sampled_from(["%s", "/%s"]))
            steps.append(step)
            n_evals += 1
    return {"steps": steps}


def strat_revisit(tier):
    return _h_case()


# =================================================================================================
# 2. deny list
# =================================================================================================

D_FILES = ["/etc/a.conf", "/etc/a.conf.bak", "/etc/a.con", "/etc/b.conf", "/etc/hosts", "/etc/hosts.allow",
           "/etc/sub/c.conf", "/etc/sub/a.conf", "/var/log/m.log", "/var/log/m.log.1", "/var/log/m",
           "/top.txt",
           # names with blanks: one blank, a run of two, a tab (each the near miss of the others: a deny entry is
           # a literal string, "/etc/x  y.conf" is not "/etc/x y.conf")
           "/etc/x y.conf", "/etc/x  y.conf", "/var/log/t\tu.log", "/var/log/t u.log"]
# Round 7: names made of characters that mean something in one of the matching languages a deny list could be
# (mis)read in - shell wildcards ([...] ? *), regular expressions (+ ( | ) .), case folding, non-ASCII text.  They
# are ordinary file names, a deny entry names them literally like any other.  Next to some of them the file the
# name would select if it were read as a pattern ("app[1].conf" as a wildcard is "app1.conf").
D_SPECIAL = ["/etc/app[1].conf", "/etc/app1.conf", "/etc/sub/n[eth0].cfg", "/etc/q?.conf", "/etc/qa.conf",
             "/etc/s*r.conf", "/etc/a+b.conf", "/etc/(c|d).conf", "/etc/HOSTS", "/var/log/\u00e9t\u00e9.log"]
D_PLAIN_COUNT = len(D_FILES)
D_FILES = D_FILES + D_SPECIAL
D_PATTERNS = ["/etc/*", "/etc/*.conf", "/etc/a.con*", "/etc/hosts*", "/var/log/m*", "/etc/sub/*", "/etc/*/*.conf",
              "/*/*", "/top.txt", "/etc/[ab].conf", "/etc/x*", "/var/log/t*",
              # wildcards that reach the special names, a class that spells the bracket literally, the special names
              # themselves used as patterns (then they select what they match, not necessarily themselves)
              "/etc/app*", "/etc/app[[]1].conf", "/etc/q?.conf", "/etc/s*r.conf", "/etc/sub/n*", "/etc/[a(]*",
              "/var/log/*t*.log"]
D_EXES = ["{X}/ls", "{X}/lsblk", "{X}/ls-l", "{X}/cat"]
D_ARGS = ["-l", "-a", "-la", "/etc", "/etc/a.conf", "-l /etc", "--all -l", "x", "-l -a /var/log",
          "[1]", "/etc/*.conf", "a+b"]
# what separates the words of a command line: mostly one blank, sometimes a run of blanks / a tab (shipped
# specs are written like that: "/usr/sbin/runuser -l  %s  -c 'db2 get dbm cfg'"); the deny list is matched
# against the command line as the spec spells it
D_SEPS = [" "] * 8 + ["  ", "  ", "   ", "\t", " \t"]
D_FILE_TOKEN = "TOKEN<%s>"
# shipped specs that can be denied by their symbolic name (insights.specs.default.DefaultSpecs.<name>)
SYM_SPECS = {"hosts": ("file", "/etc/hosts"), "fstab": ("file", "/etc/fstab"), "cmdline": ("file", "/proc/cmdline"),
             "os_release": ("file", "/etc/os-release"), "resolv_conf": ("file", "/etc/resolv.conf"),
             "date": ("cmd", "/bin/date"), "hostname": ("cmd", "/bin/hostname -f"), "mount": ("cmd", "/bin/mount"),
             "uptime": ("cmd", "/usr/bin/uptime")}
SYM_NAMES = sorted(SYM_SPECS)
# every file of the deny tree (a glob like /etc/* reaches the files of the shipped specs as well)
D_TREE_FILES = D_FILES + sorted(p for k, p in SYM_SPECS.values() if k == "file" and p not in D_FILES)


def d_entries():
    ents = []
    for p in D_FILES:
        ents.append({"t": "f", "p": "w/R" + p,
                     "c": "%s keep\nplain line of %s\nkeep another\n" % (D_FILE_TOKEN % p, p)})
    for x in D_EXES:
        ents.append({"t": "f", "p": "x/" + x.split("/", 1)[1], "c": "#!/bin/sh\nexit 0\n", "mode": 0o755})
    for p in D_TREE_FILES[len(D_FILES):]:
        ents.append({"t": "f", "p": "w/R" + p, "c": "%s\nsecond line\n" % (D_FILE_TOKEN % p)})
    return ents


def d_file_items(spec):
    f = spec["f"]
    if f in ("simple_file", "first_file"):
        return [p for p in expand(spec) if p in D_TREE_FILES]
    out = []
    for pat in expand(spec):
        pat = pat if pat.startswith("/") else "/" + pat
        for p in seg_glob(pat, D_TREE_FILES):
            if p not in out:
                out.append(p)
    return out


def _norm_events(events):
    opens, popens = [], []
    for e in events:
        if e["event"] == "open":
            opens.append(os.path.normpath(os.path.abspath(e["path"])))
        elif "argv" in e:
            popens.append(e["argv"])
    return opens, popens


def check_deny(case):
    from insights.core import blacklist, dr
    from insights.core.context import HostContext
    from insights.collect import apply_blacklist
    specs = case["specs"]
    labels = ["via=" + case["via"]]
    calls = []
    sym = case.get("symbolic") or {"run": [], "deny": []}
    if sym["run"]:
        # the shipped spec set has to be loaded before the registries are snapshotted
        import insights.specs.default  # noqa
    with Sandbox(d_entries()) as sb, GlobalState():
        base = sb.base
        R = os.path.join(base, "w", "R")
        X = os.path.join(base, "x")
        out = os.path.join(base, "o", "arch")
        os.makedirs(out)

        def sub(s):
            return s.replace("{X}", X) if isinstance(s, str) else s

        def responder(cmds):
            return "OUT[%s] keep\nsecond line\n" % " ".join(cmds[0])
        ctx = RecordingHostContext(R, responder=responder, real_prefixes=[base])
        Specs, Impl, names = build_world(specs, HostContext, sub, calls)
        deny_files = list(case["deny"]["files"])
        deny_cmds = [sub(c) for c in case["deny"]["commands"]]
        deny_comps = [n for n in case["deny"]["components"] if hasattr(Impl, n)]
        full = ["%s.Impl.%s" % (MOD, n) for n in deny_comps]
        sym_points, sym_impls = [], []
        if sym["run"]:
            from insights.specs import Specs as ShippedSpecs
            from insights.specs.default import DefaultSpecs
            sym_points = [getattr(ShippedSpecs, n) for n in sym["run"]]
            sym_impls = [getattr(DefaultSpecs, n) for n in sym["run"]]
        if case["via"] == "apply":
            apply_blacklist({"files": list(deny_files) + [d["name"] for d in sym["deny"] if d["sec"] == "files"],
                             "commands": list(deny_cmds) + [d["name"] for d in sym["deny"] if d["sec"] != "files"],
                             "components": full, "patterns": [], "keywords": []})
        else:
            for f in deny_files:
                blacklist.add_file(f)
            for c in deny_cmds:
                blacklist.add_command(c)
            for n in deny_comps:
                dr.set_enabled(getattr(Impl, n), False)
        with audit_trace(needles=None, names=DEFAULT_EVENTS) as events:
            broker = run_world(Specs, Impl, names, ctx, HostContext, out=out, persist=case["persist"],
                               extra=sym_points)
            results = {}
            for n in names:
                results[n] = flat(broker.get(getattr(Impl, n)))
            for n, impl in zip(sym["run"], sym_impls):
                results["default:" + n] = flat(broker.get(impl))
            for n in sorted(results):
                for p in results[n]:
                    try:
                        p.content
                    except Exception:  # noqa - not what is being verified here
                        pass
        opens, popens = _norm_events(events)
        argvs = ctx.argvs()
        persisted = read_tree_text(out)

        # ---- denied components are never invoked
        for n in deny_comps:
            if n in calls:
                raise Violation("component %s.Impl.%s is on the deny list (%s) but was invoked"
                                % (MOD, n, case["via"]), calls=calls)

        # ---- shipped specs denied by their symbolic name are never invoked
        if sym["run"]:
            from insights.core.exceptions import MissingRequirements
            denied_sym = set(d["name"] for d in sym["deny"]) if case["via"] == "apply" else set()
            for n, pt, impl in zip(sym["run"], sym_points, sym_impls):
                kind, what = SYM_SPECS[n]
                seen = impl in broker or pt in broker or any(
                    not isinstance(e, MissingRequirements)
                    for e in list(broker.exceptions.get(impl, [])) + list(broker.exceptions.get(pt, [])))
                if n not in denied_sym:
                    if seen:
                        labels.append("symbolic:allowed-invoked")
                    continue
                labels.append("symbolic:denied")
                if seen:
                    raise Violation("spec %r is on the deny list by its symbolic name but "
                                    "insights.specs.default.DefaultSpecs.%s was invoked" % (n, n),
                                    value=repr(broker.get(impl)), deny=sym["deny"])
                if kind == "cmd" and shlex.split(what) in argvs:
                    raise Violation("spec %r is denied by symbolic name but its command was handed to the "
                                    "execution context" % n)
                # (its file may still be collected by another, allowed spec - e.g. a glob - unless the
                #  path itself is on the deny list, which the next block checks)

        # ---- denied files: never opened, never handed to a command, not returned, not persisted
        all_providers = [(n, p) for n in sorted(results) for p in results[n]]
        for f in D_TREE_FILES:
            if not ref_file_denied(f, deny_files):
                continue
            real = os.path.join(R, f.lstrip("/"))
            who = [n for n, s in zip(names, specs) if s["f"] in FILE_FACTORIES and f in d_file_items(s)]
            if real in opens:
                raise Violation("deny-listed file %s was opened during collection (specs naming it: %s)"
                                % (f, who), deny=deny_files)
            for argv in argvs + popens:
                if any(os.path.normpath(a) == real for a in argv if a.startswith("/")):
                    raise Violation("deny-listed file %s was passed to a command: %r" % (f, argv),
                                    deny=deny_files)
            for n, p in all_providers:
                if getattr(p, "cmd", None) is None and os.path.normpath(p.path) == real:
                    raise Violation("deny-listed file %s is among the results of %s" % (f, n),
                                    deny=deny_files)
            tok = D_FILE_TOKEN % f
            for path, text in persisted:
                if tok in text:
                    raise Violation("content of deny-listed file %s was persisted at %s"
                                    % (f, os.path.relpath(path, out)), deny=deny_files)

        # ---- denied commands: never given to the context, never spawned, not returned, not persisted
        per_factory = {}
        sym_cmd_specs = [("default:" + n, {"f": "simple_command", "cmd": SYM_SPECS[n][1]})
                         for n in sym["run"] if SYM_SPECS[n][0] == "cmd"]
        # The deny list is matched against the command line as the spec spells it, the execution context
        # gets the words.  Two command lines that differ only in the blanks between their words ("ls -l",
        # "ls  -l") are different strings for the deny list and the same argv for the context: when a command
        # that is NOT denied has the argv of a denied one, seeing that argv proves nothing.
        allowed_argvs = [shlex.split(sub(c)) for _n, s in list(zip(names, specs)) + sym_cmd_specs
                         if s["f"] in CMD_FACTORIES for c in expand(s) if not ref_cmd_denied(sub(c), deny_cmds)]
        for n, s in list(zip(names, specs)) + sym_cmd_specs:
            fac = s["f"]
            st_ = per_factory.setdefault(fac, {"denied": 0, "allowed": 0})
            comp_denied = n in deny_comps or ("p" + n[1:]) in deny_comps
            if fac in CMD_FACTORIES:
                for c in expand(s):
                    c = sub(c)
                    argv = shlex.split(c)
                    shown = "OUT[%s]" % " ".join(argv)      # (what the responder answers for it)
                    spaced = c != " ".join(argv)
                    if not ref_cmd_denied(c, deny_cmds):
                        if not comp_denied and any(getattr(p, "cmd", None) == c for p in results[n]) and \
                                any(shown in t for _, t in persisted):
                            st_["allowed"] += 1
                            if spaced:
                                labels.append("collected:command-with-blank-run")
                        continue
                    st_["denied"] += 1
                    if spaced:
                        labels.append("denied:command-with-blank-run")
                    for m, p in all_providers:
                        if getattr(p, "cmd", None) == c:
                            raise Violation("deny-listed command %r is among the results of %s (%s)"
                                            % (c, m, fac), deny=deny_cmds)
                    if argv in allowed_argvs:
                        labels.append("denied-argv-shared-with-allowed-command")
                        continue
                    if argv in argvs:
                        raise Violation("deny-listed command %r (spec %s, %s) was handed to the execution "
                                        "context" % (c, n, fac), deny=deny_cmds)
                    for pv in popens:
                        if pv[-len(argv):] == argv:
                            raise Violation("deny-listed command %r was spawned: %r" % (c, pv))
                    for path, text in persisted:
                        if shown in text:
                            raise Violation("output of deny-listed command %r was persisted at %s"
                                            % (c, os.path.relpath(path, out)))
            elif fac in FILE_FACTORIES:
                for f in d_file_items(s):
                    if ref_file_denied(f, deny_files):
                        st_["denied"] += 1
                        if "  " in f or "\t" in f:
                            labels.append("denied:file-with-blank-run")
                        if f in D_SPECIAL:
                            labels.append("denied:file-with-%s-in-name" % (
                                "wildcard-characters" if re.search(r"[*?\[]", f) else
                                "regex-characters" if re.search(r"[+(|]", f) else
                                "non-ascii-text" if re.search(r"[^\x00-\x7f]", f) else "other-special"))
                    elif not comp_denied and any(os.path.normpath(p.path) == os.path.join(R, f.lstrip("/"))
                                                 for p in results[n]) and \
                            any((D_FILE_TOKEN % f) in t for _, t in persisted):
                        st_["allowed"] += 1
                        if f in D_SPECIAL:
                            labels.append("collected:file-with-special-name")
    nt = False
    for fac, c in sorted(per_factory.items()):
        if c["denied"]:
            labels.append("denied:" + fac)
        if c["allowed"]:
            labels.append("collected:" + fac)
        if c["denied"] and c["allowed"]:
            labels.append("mixed:" + fac)
            nt = True
    if deny_comps:
        labels.append("denied-component")
    if any(s.get("filter") for s in specs):
        labels.append("filtered-spec")
    return {"nontrivial": nt, "labels": sorted(set(labels))}


# ---- generator ---------------------------------------------------------------------------------

_cid = st.sampled_from(["c1", "c2", "0a1b2c3d4e5f", "web-1"])
_engine = st.sampled_from(["env", "true"])
_image = st.sampled_from(["img", "registry/img:1"])
_sep = st.sampled_from(D_SEPS)


def entry_cuts(c):
    """where a deny entry that is a leading part of the command line `c` may end: at the end of `c` and in
    front of every blank / tab (so also inside a run of blanks); the reference rule decides what it denies"""
    return [i for i in range(1, len(c)) if c[i] in " \t"] + [len(c)]


@st.composite
def _d_cmd(draw):
    exe = draw(st.sampled_from(D_EXES))
    n = draw(st.integers(0, 2))
    cmd = exe
    for _ in range(n):
        cmd += draw(_sep) + draw(st.sampled_from(D_ARGS))
    return cmd


@st.composite
def _d_spec(draw, f=None):
    f = f or draw(st.sampled_from(FILE_FACTORIES + CMD_FACTORIES))
    s = {"f": f}
    if f in FILE_FACTORIES:
        s["raw"] = draw(st.integers(0, 3)) == 0
        if not s["raw"] and draw(st.integers(0, 3)) == 0:
            s["filter"] = draw(st.sampled_from(["keep", "TOKEN", "line"]))
    if f == "simple_file":
        s["path"] = draw(st.sampled_from(D_FILES))
    elif f == "first_file":
        s["paths"] = draw(st.lists(st.sampled_from(D_FILES + ["/etc/missing"]), min_size=1, max_size=4))
    elif f == "glob_file":
        s["patterns"] = draw(st.lists(st.sampled_from(D_PATTERNS + D_FILES[:4]), min_size=1, max_size=3))
    elif f == "foreach_collect":
        form = draw(st.sampled_from(["%s", "/etc/%s", "/%s/%s", "/etc/%s.conf"]))
        s["tmpl"] = form
        n = draw(st.integers(1, 4))
        if form == "%s":
            s["elems"] = [draw(st.sampled_from(D_FILES + D_PATTERNS)) for _ in range(n)]
        elif form == "/etc/%s":
            s["elems"] = [draw(st.sampled_from(["a.conf", "a.conf.bak", "a.con", "b.conf", "hosts", "hosts*",
                                                "sub/c.conf", "*.conf", "a.con*", "x y.conf", "x  y.conf",
                                                "x*", "app[1].conf", "app[[]1].conf", "app*", "q?.conf",
                                                "a+b.conf", "(c|d).conf", "HOSTS", "sub/n[[]eth0].cfg"]))
                          for _ in range(n)]
        elif form == "/%s/%s":
            s["elems"] = [[draw(st.sampled_from(["etc", "etc/sub", "var/log", "*"])),
                           draw(st.sampled_from(["a.conf", "c.conf", "m.log", "m*", "*.conf", "hosts", "t\tu.log",
                                                 "t u.log", "x  y.conf"]))]
                          for _ in range(n)]
        else:
            s["elems"] = [draw(st.sampled_from(["a", "b", "sub/c", "sub/a", "*", "x y", "x  y"])) for _ in range(n)]
    elif f == "simple_command":
        s["cmd"] = draw(_d_cmd())
        s["keep_rc"] = draw(st.booleans())
        if draw(st.integers(0, 4)) == 0:
            s["filter"] = "keep"
    elif f == "command_with_args":
        exe = draw(st.sampled_from(D_EXES))
        if draw(st.booleans()):
            s["tmpl"] = exe + draw(_sep) + "%s"
            s["arg"] = draw(st.sampled_from(D_ARGS))
        else:
            s["tmpl"] = exe + draw(_sep) + "%s" + draw(_sep) + "%s"
            s["arg"] = [draw(st.sampled_from(D_ARGS)), draw(st.sampled_from(D_ARGS))]
    elif f == "foreach_execute":
        exe = draw(st.sampled_from(D_EXES))
        n = draw(st.integers(1, 4))
        if draw(st.booleans()):
            s["tmpl"] = exe + draw(_sep) + "%s"
            s["elems"] = [draw(st.sampled_from(D_ARGS)) for _ in range(n)]
        else:
            s["tmpl"] = exe + draw(_sep) + "%s" + draw(_sep) + "--" + draw(_sep) + "%s"
            s["elems"] = [[draw(st.sampled_from(D_ARGS)), draw(st.sampled_from(D_ARGS))] for _ in range(n)]
        s["keep_rc"] = draw(st.booleans())
    elif f == "container_execute":
        n = draw(st.integers(1, 4))
        if draw(st.booleans()):
            s["tmpl"] = draw(_d_cmd())
            s["elems"] = [[draw(_image), draw(_engine), draw(_cid)] for _ in range(n)]
        else:
            s["tmpl"] = draw(st.sampled_from(D_EXES)) + draw(_sep) + "%s"
            s["elems"] = [[draw(_image), draw(_engine), draw(_cid), draw(st.sampled_from(D_ARGS))]
                          for _ in range(n)]
    elif f == "container_collect":
        n = draw(st.integers(1, 4))
        mode = draw(st.sampled_from([None, "%s", "fixed"]))
        if mode == "fixed":
            s["tmpl"] = draw(st.sampled_from(D_FILES))
            s["elems"] = [[draw(_image), draw(_engine), draw(_cid)] for _ in range(n)]
        else:
            s["tmpl"] = mode
            s["elems"] = [[draw(_image), draw(_engine), draw(_cid), draw(st.sampled_from(D_FILES))]
                          for _ in range(n)]
    return s


@st.composite
def _d_case(draw):
    specs = []
    for _ in range(draw(st.integers(2, 7))):
        again = specs and draw(st.integers(0, 2)) == 0      # two specs of one factory: mixed outcomes
        specs.append(draw(_d_spec(specs[-1]["f"] if again else None)))
    files, cmds = [], []
    for s in specs:
        if s["f"] in FILE_FACTORIES:
            files.extend(d_file_items(s))
        else:
            cmds.extend(expand(s))
    deny_files, deny_cmds = [], []
    for f in files:
        r = draw(st.integers(0, 9))
        if r < 3:
            deny_files.append(f)
        elif r == 3:
            # (the last four: the name with its wildcard / regex characters escaped, with the file name in the
            #  other case - entries like any other, the literal rule says what they deny)
            deny_files.append(draw(st.sampled_from([f + ".bak", f[:-1], f.lstrip("/"), f.upper(), f + " ",
                                                    os.path.dirname(f) or "/", f + "/", "/." + f,
                                                    "/etc/../" + f.lstrip("/"), glob.escape(f), re.escape(f),
                                                    os.path.dirname(f).rstrip("/") + "/" + os.path.basename(f).upper(),
                                                    os.path.dirname(f).rstrip("/") + "/" + os.path.basename(f).lower()])))
    for c in cmds:
        r = draw(st.integers(0, 9))
        words = c.split()
        if r < 3:
            # the command line up to a word boundary, spelled exactly like the spec spells it (a cut in front
            # of a tab, or one that leaves a trailing blank, is an entry like any other: the literal rule says
            # what it matches)
            deny_cmds.append(c[:draw(st.sampled_from(entry_cuts(c)))])
        elif r == 3:
            deny_cmds.append(draw(st.sampled_from([c[:-1], c + "x", c + " ", words[0][:-1], words[0] + "b",
                                                   os.path.basename(words[0]), c.replace(" ", "  ", 1),
                                                   " " + c, words[0].upper(), " ".join(words),
                                                   "\t".join(words)])))
    extra = draw(st.lists(st.sampled_from(["hostname", "ls", "/etc", "{X}", "/bin/ls", "/usr/bin/env exec",
                                           "/usr/bin", "uname -a", "/etc/passwd", "s0"]), max_size=2))
    for e in extra:
        (deny_files if draw(st.booleans()) else deny_cmds).append(e)
    comps = []
    for i, s in enumerate(specs):
        r = draw(st.integers(0, 29))
        if r == 17:
            comps.append("s%d" % i)
        elif r == 23:
            comps.append("p%d" % i)     # only exists for per-item factories; ignored otherwise
    via = draw(st.sampled_from(["apply", "apply", "direct"]))
    symbolic = {"run": [], "deny": []}
    if via == "apply" and draw(st.integers(0, 2)) == 0:
        symbolic["run"] = draw(st.lists(st.sampled_from(SYM_NAMES), min_size=1, max_size=4, unique=True))
        for n in symbolic["run"]:
            r = draw(st.integers(0, 9))
            if r < 4:
                symbolic["deny"].append({"name": n, "sec": draw(st.sampled_from(["files", "commands"]))})
            elif r == 4:    # near misses and literal forms do not name the component
                deny_cmds.append(draw(st.sampled_from([n + "x", n.upper(), n[:-1], " " + n])))
            elif r == 5:
                (deny_files if SYM_SPECS[n][0] == "file" else deny_cmds).append(SYM_SPECS[n][1])
    return {"via": via, "symbolic": symbolic,
            "persist": draw(st.sampled_from(["observer", "observer", "after"])),
            "deny": {"files": [x for x in deny_files if x], "commands": [x for x in deny_cmds if x.strip()],
                     "components": comps},
            "specs": specs}


def strat_deny(tier):
    return _d_case()


# =================================================================================================
# 3. persistence
# =================================================================================================

P_ROOT = "w/r1/r2/R"          # the collection root, three levels below the base
P_OUT = "o/a1/a2/arch"        # the output directory, three levels below the base
P_FILES = ["/etc/a.conf", "/etc/sub/c.conf", "/var/log/m.log", "/top.txt", "/etc/x y.conf"]
# symlinks inside the root that lead to files inside the root (relative and absolute target): collecting
# them is legitimate; what is persisted must still be a file beneath the output directory
P_LINKS = [("/etc/ln.conf", {"to": "a.conf"}), ("/var/lnabs.conf", {"abs": P_ROOT + "/etc/a.conf"}),
           ("/etc/sub/up.conf", {"to": "../../top.txt"})]
P_COLLECTIBLE = P_FILES + [l[0] for l in P_LINKS]
# every save_as with a leading '/' is an absolute path INTO THE SANDBOX ({ABS} = <base>/o/abs), so that a
# tree that fails to strip it writes into the temp area (seen by the diff) and never to the real '/'
# ({I} = index of the spec: two specs never fight over one name as file and as directory)
P_SAVE_AS = [None, None, "sa{I}", "sa{I}/", "d1/d{I}/", "a b{I}/", "x.y{I}", "{ABS}/{I}/", "{ABS}/f{I}",
             "{ABS}/dir/sub{I}/", "/{ABS}/g{I}/", "{ABS}{I}"]


def p_entries():
    ents = [{"t": "d", "p": P_OUT}, {"t": "d", "p": P_OUT + "2"}, {"t": "d", "p": "o/a1/a2/decoy"},
            {"t": "d", "p": "o/abs"}]
    for p in P_FILES:
        ents.append({"t": "f", "p": P_ROOT + p, "c": "content of %s\nline two\n" % p})
    for p, how in P_LINKS:
        ents.append(dict({"t": "l", "p": P_ROOT + p}, **how))
    for x in D_EXES:
        ents.append({"t": "f", "p": "x/" + x.split("/", 1)[1], "c": "#!/bin/sh\nexit 0\n", "mode": 0o755})
    return ents


def check_persist(case):
    from insights.core.context import HostContext
    specs = case["specs"]
    labels = []
    calls = []
    with Sandbox(p_entries()) as sb, GlobalState():
        base = sb.base
        R = os.path.join(base, P_ROOT)
        X = os.path.join(base, "x")
        out = os.path.join(base, P_OUT)
        ABS = os.path.join(base, "o", "abs")
        # the output directory may sit on another file system than the process's temp directory (an archive
        # written to a tmpfs / another disk): renames into it fail with EXDEV, whatever is staged elsewhere must
        # not stay there
        alt = _other_fs_dir() if case.get("other_fs") else None
        if alt is not None:
            out = os.path.join(alt, "out")
            labels.append("output-dir-on-another-file-system")
        try:
            return _check_persist_body(case, specs, labels, calls, base, R, X, out, ABS, alt)
        finally:
            if alt is not None:
                shutil.rmtree(alt, ignore_errors=True)


def _other_fs_dir():
    """a fresh directory on a file system other than the one of tempfile.gettempdir(), or None"""
    try:
        here = os.stat(tempfile.gettempdir()).st_dev
        for cand in ("/dev/shm", "/run/shm", "/var/tmp"):
            if os.path.isdir(cand) and os.access(cand, os.W_OK | os.X_OK) and os.stat(cand).st_dev != here:
                return tempfile.mkdtemp(prefix="vp-c06-out-", dir=cand)
    except OSError:
        pass
    return None


def _check_persist_body(case, specs, labels, calls, base, R, X, out, ABS, alt):
    from insights.core.context import HostContext
    if True:
        def sub(s):
            return s.replace("{X}", X).replace("{ABS}", ABS) if isinstance(s, str) else s
        ctx = RecordingHostContext(R, responder=lambda cmds: "OUT[%s]\nline\n" % " ".join(cmds[0]),
                                   real_prefixes=[base])
        Specs, Impl, names = build_world(specs, HostContext, sub, calls)
        before = fs_snapshot(base)
        before_alt = fs_snapshot(alt) if alt is not None else None
        with audit_trace(needles=None, names=DEFAULT_EVENTS | frozenset(["os.mkdir"])) as events:
            broker = run_world(Specs, Impl, names, ctx, HostContext, out=out, persist=case["persist"])
        after = fs_snapshot(base)
        diff = fs_diff(before, after)
        outrel = P_OUT.split("/")
        n_created = 0
        if alt is not None:
            # nothing at all may appear in the sandbox now; everything created lies beneath <alt>/out
            after_alt = fs_snapshot(alt)
            diff_alt = fs_diff(before_alt, after_alt)
            for kind in ("created", "changed", "removed"):
                for rel in diff[kind]:
                    raise Violation("collection %s %s in the temp area although the output directory is elsewhere "
                                    "(on another file system)" % (kind, rel), diff=diff, specs=[s for s in specs])
                for rel in diff_alt[kind]:
                    if rel.split(os.sep)[:1] != ["out"]:
                        raise Violation("collection %s %s, which is not beneath the output directory" % (kind, rel),
                                        diff=diff_alt, specs=[s for s in specs])
                    if kind == "created" and after_alt[rel][0] == "f":
                        n_created += 1
                    if after_alt.get(rel, ("x",))[0] == "l" and not is_within(
                            os.path.realpath(os.path.join(alt, rel)), out):
                        raise Violation("collection created %s in the archive, a link that leads out of it" % rel)
        for kind in ("created", "changed", "removed"):
            for rel in diff[kind]:
                if rel.split(os.sep)[:len(outrel)] != outrel:
                    raise Violation("collection %s %s, which is not beneath the output directory %s"
                                    % (kind, rel, P_OUT), diff=diff,
                                    specs=[s for s in specs])
                if kind == "created" and after[rel][0] == "f":
                    n_created += 1
                if after.get(rel, ("x",))[0] == "l" and not is_within(
                        os.path.realpath(os.path.join(base, rel)), out):
                    raise Violation("collection created %s in the archive, a link that leads out of it" % rel)
        # writes that would leave the temp area altogether
        for e in events:
            target = None
            if e["event"] == "open":
                fl = e.get("flags") or 0
                if isinstance(fl, int) and fl & (os.O_WRONLY | os.O_RDWR | os.O_CREAT | os.O_TRUNC | os.O_APPEND):
                    target = e["path"]
            elif e["event"] == "os.mkdir":
                target = e["argv"][0] if e["argv"] else None
            elif e["event"] == "subprocess.Popen" and e["argv"] and os.path.basename(e["argv"][0]) == "cp":
                target = e["argv"][-1]
            if target is None or target == os.devnull or "__pycache__" in target:
                continue        # (byte-code of a lazily imported module is not collection output)
            t = os.path.normpath(os.path.abspath(target))
            if is_within(t, base) or (alt is not None and is_within(t, alt)):
                continue            # the diff above is authoritative inside the temp area
            if os.path.lexists(t):  # (still there = persisted)
                raise Violation("collection wrote to %s, outside the output directory" % t, event=e)
        collected = sum(len(flat(broker.get(getattr(Specs, n)))) for n in names)
        if n_created:
            labels.append("files-persisted")
        if collected:
            labels.append("providers")
    has_sa = any(s.get("save_as") for s in specs)
    has_dd = any(".." in x.replace(" ", "/").split("/") for s in specs for x in
                 expand(s) + [s.get("rel") or ""] + [str(y) for e in s.get("elems", []) for y in
                                                    (e if isinstance(e, list) else [e])])
    for s in specs:
        labels.append("f=" + s["f"])
    if has_sa:
        labels.append("save_as")
    if has_dd:
        labels.append("dotdot")
    if any("{ABS}" in (s.get("save_as") or "") for s in specs):
        labels.append("absolute-save_as")
    return {"nontrivial": bool(n_created) and (has_sa or has_dd), "labels": sorted(set(labels))}


# ---- generator ---------------------------------------------------------------------------------

def _climb(draw, f):
    """a route to R/<f> that may climb above the root and return"""
    up = draw(st.integers(0, 3))
    start = draw(st.sampled_from(["", "etc", "etc/sub", "var/log"]))
    comps = P_ROOT.split("/")
    depth = len(start.split("/")) if start else 0
    parts = ([start] if start else []) + [".."] * (depth + up) + (comps[len(comps) - up:] if up else [])
    p = "/".join(parts + [f.lstrip("/")])
    return ("/" if draw(st.booleans()) else "") + p


_p_arg = st.sampled_from(["-l", "../../x", "/../..", "a/../../b", "..", "a b", "/etc/../../..", "-o ../../../../z",
                          "....//....//", "/", "//", ". ..", "../", "-"])


@st.composite
def _p_spec(draw):
    f = draw(st.sampled_from(FILE_FACTORIES + CMD_FACTORIES + ("dsprovider", "simple_file", "container_collect")))
    s = {"f": f}
    if f in FILE_FACTORIES:
        s["raw"] = draw(st.integers(0, 2)) == 0
        s["save_as"] = draw(st.sampled_from(P_SAVE_AS))
    if f == "simple_file":
        s["path"] = _climb(draw, draw(st.sampled_from(P_COLLECTIBLE)))
    elif f == "first_file":
        s["paths"] = [_climb(draw, draw(st.sampled_from(P_COLLECTIBLE + ["/nope"]))) for _ in range(draw(st.integers(1, 3)))]
    elif f == "glob_file":
        s["patterns"] = [_climb(draw, draw(st.sampled_from(["/etc/*", "/etc/*.conf", "/*/*/*", "/top.txt", "/etc/x*"])))
                         for _ in range(draw(st.integers(1, 2)))]
    elif f == "foreach_collect":
        s["tmpl"] = draw(st.sampled_from(["%s", "/%s", "etc/../%s"]))
        s["elems"] = [_climb(draw, draw(st.sampled_from(P_COLLECTIBLE + ["/etc/*"]))).lstrip("/")
                      for _ in range(draw(st.integers(1, 3)))]
    elif f == "simple_command":
        s["cmd"] = " ".join([draw(st.sampled_from(D_EXES))] + draw(st.lists(_p_arg, max_size=3)))
        s["save_as"] = draw(st.sampled_from(P_SAVE_AS))
    elif f == "command_with_args":
        s["tmpl"] = draw(st.sampled_from(D_EXES)) + " %s"
        s["arg"] = draw(_p_arg)
        s["save_as"] = draw(st.sampled_from(P_SAVE_AS))
    elif f == "foreach_execute":
        s["tmpl"] = draw(st.sampled_from(D_EXES)) + " %s"
        s["elems"] = draw(st.lists(_p_arg, min_size=1, max_size=3))
    elif f == "container_execute":
        s["tmpl"] = draw(st.sampled_from(D_EXES)) + " %s"
        s["elems"] = [[draw(_image), draw(_engine), draw(_cid), draw(_p_arg)] for _ in range(draw(st.integers(1, 3)))]
    elif f == "container_collect":
        # paths inside the container come from the running system; the net climb stays inside the sandbox
        def cpath():
            up = draw(st.sampled_from([0, 1, 2, 3, 4, 4, 5, 6]))     # 4 leave the output directory
            down = draw(st.sampled_from(["etc", "etc/nginx", "a/b/c"]))
            depth = len(down.split("/"))
            return "/" + down + "/.." * (depth + up) + draw(st.sampled_from(["/zz/passwd", "/etc/hosts", "/f"]))
        s["tmpl"] = draw(st.sampled_from([None, "%s"]))
        s["elems"] = [[draw(_image), draw(_engine), draw(_cid), cpath()] for _ in range(draw(st.integers(1, 3)))]
    elif f == "dsprovider":
        s["content"] = draw(st.sampled_from(["one\ntwo\n", "x"]))
        s["rel"] = draw(st.sampled_from(["insights_commands/foo", "{ABS}/rel", "a/b c", "etc/./x", "x"]))
        s["save_as"] = draw(st.sampled_from(P_SAVE_AS))
    return s


@st.composite
def _p_case(draw):
    return {"persist": draw(st.sampled_from(["observer", "after"])),
            "specs": draw(st.lists(_p_spec(), min_size=1, max_size=5)),
            "other_fs": draw(st.sampled_from([False, False, True]))}


def strat_persist(tier):
    return _p_case()


# =================================================================================================


# ---- end to end: insights.collect.collect() with a deny list ---------------------------------------

_E2E_COUNTER = itertools.count()


def check_collect(case):
    """A complete host collection through collect.collect(): manifest (default enabled/disabled, configs that
    enable the spec classes by prefix) + the user's deny list (component names, literal files, literal
    commands).  Nothing denied may be read into the archive, opened or executed; what is not denied is."""
    import textwrap
    from insights import collect
    uid = next(_E2E_COUNTER)
    modname = "vp_dyn_c06e2e_%d_%d" % (os.getpid(), uid)
    work = tempfile.mkdtemp(prefix="vp-c06e2e-")
    labels = []
    try:
        src, out, mods = [os.path.join(work, d) for d in ("src", "out", "mods")]
        for d in (src, out, mods):
            os.makedirs(d)
        specs = case["specs"]          # [{"kind": "file"|"cmd", "deny": None|"component"|"literal"|"point",
        #                                   "ws": blanks inside the file name / between the words of the command}]
        paths, markers, cmds = [], [], []
        body = ["from insights.core.spec_factory import RegistryPoint, SpecSet, simple_command, simple_file", "",
                "class Specs(SpecSet):"]
        for k, sp in enumerate(specs):
            body.append("    s%d = RegistryPoint()" % k)
        body += ["", "class Impl(Specs):"]
        for k, sp in enumerate(specs):
            if sp["kind"] == "file":
                ws = sp.get("ws")
                # "sp": characters in the file name that are special to wildcards / regular expressions / case
                # folding (the deny list names the file literally all the same)
                pth = os.path.join(src, "f%d%s%s.conf" % (k, ws + "x" if ws else "", sp.get("sp") or ""))
                with open(pth, "w") as f:
                    f.write("content of spec %d\nSECRET%d\n" % (k, k))
                paths.append(pth)
                markers.append(None)
                cmds.append(None)
                body.append("    s%d = simple_file(%r)" % (k, pth))
            else:
                mk = os.path.join(src, "marker%d%s" % (k, sp.get("sp") or ""))
                paths.append(None)
                markers.append(mk)
                cmds.append("/usr/bin/touch" + (sp.get("ws") or " ") + mk)
                body.append("    s%d = simple_command(%r)" % (k, cmds[k]))
        with open(os.path.join(mods, modname + ".py"), "w") as f:
            f.write("\n".join(body) + "\n")
        rm_conf = {"files": [], "commands": [], "components": []}
        denied = set()
        for k, sp in enumerate(specs):
            if sp["deny"] == "component":
                rm_conf["components"].append("%s.Impl.s%d" % (modname, k))
                denied.add(k)
            elif sp["deny"] == "literal":
                if sp["kind"] == "file":
                    rm_conf["files"].append(paths[k])
                else:
                    rm_conf["commands"].append(cmds[k])
                denied.add(k)
        cfg_style = case["configs"]
        configs = [{"name": "insights.core.spec_factory", "enabled": True}]
        if cfg_style == "module":
            configs.append({"name": modname, "enabled": True})
        elif cfg_style == "classes":
            configs += [{"name": modname + ".Specs", "enabled": True}, {"name": modname + ".Impl", "enabled": True}]
        else:
            for k in range(len(specs)):
                configs += [{"name": "%s.Specs.s%d" % (modname, k), "enabled": True},
                            {"name": "%s.Impl.s%d" % (modname, k), "enabled": True}]
        manifest = {"version": 0,
                    "client": {"context": {"class": "insights.core.context.HostContext", "args": {"timeout": 10}},
                               "blacklist": {"files": [], "commands": [], "patterns": [], "keywords": []},
                               "persist": [{"name": modname + ".Specs", "enabled": True}],
                               "run_strategy": {"name": "serial", "args": {"max_workers": None}}},
                    "plugins": {"default_component_enabled": False, "packages": [modname], "configs": configs}}
        sys.path.insert(0, mods)
        with GlobalState(module_prefix="vp_dyn_"):
            from insights.core import dr
            saved_enabled = dr.ENABLED
            saved_items = dict(saved_enabled)
            try:
                with audit_trace(needles=[src]) as events:
                    output_path, _errors = collect.collect(rm_conf=rm_conf, tmp_path=out, archive_name="archive",
                                                           manifest=manifest)
            finally:
                dr.ENABLED = saved_enabled
                for key in list(saved_enabled.keys()):
                    if key not in saved_items:
                        del saved_enabled[key]
                saved_enabled.update(saved_items)
        data = os.path.join(output_path, "data")
        everything = []
        for dp, _dn, fns in os.walk(output_path):
            for fn in fns:
                try:
                    with open(os.path.join(dp, fn), "rb") as f:
                        everything.append((os.path.join(dp, fn), f.read()))
                except (IOError, OSError):
                    pass
        collected_any = False
        for k, sp in enumerate(specs):
            if sp["kind"] == "file":
                leaked = [p_ for p_, b_ in everything if ("SECRET%d" % k).encode() in b_]
                opened = [e for e in events if e.get("event") == "open" and e.get("path") == paths[k]]
                if k in denied:
                    if leaked:
                        raise Violation("the content of a file spec on the deny list (%s) was collected into the "
                                        "archive: %s" % (sp["deny"], leaked[0]), rm_conf=rm_conf, configs=configs)
                    if opened:
                        raise Violation("a file on the deny list (%s) was opened during collection" % sp["deny"],
                                        path=paths[k], rm_conf=rm_conf)
                elif leaked:
                    collected_any = True
            else:
                ran = os.path.exists(markers[k])
                if k in denied and ran:
                    raise Violation("the command of a spec on the deny list (%s) was executed during collection"
                                    % sp["deny"], command=cmds[k], rm_conf=rm_conf, configs=configs)
                if k not in denied and ran:
                    collected_any = True
        allowed = [k for k in range(len(specs)) if k not in denied]
        if allowed and not collected_any:
            raise HarnessError("nothing was collected although %d specs are not denied" % len(allowed))
        labels = ["configs=" + cfg_style] + sorted(set("deny=%s/%s%s%s" % (
            sp["deny"], sp["kind"], "/blank-run" if (sp.get("ws") or " ") != " " else "",
            "/special-characters" if sp.get("sp") else "") for sp in specs))
        return {"nontrivial": bool(denied) and bool(allowed), "labels": labels}
    finally:
        if sys.path and sys.path[0] == os.path.join(work, "mods"):
            sys.path.pop(0)
        for m in [m for m in sys.modules if m.startswith("vp_dyn_c06e2e_")]:
            sys.modules.pop(m, None)
        shutil.rmtree(work, ignore_errors=True)


# what a file name (the argument of a command) may contain besides letters: wildcard characters, characters of
# regular expressions, upper case, non-ASCII text - none of them means anything to shlex or to a deny list
C_SPECIAL = [None] * 6 + ["[1]", "[a-f]", "?", "*", "+", "(a|b)", "{2}", "^", "UP", "\u00e9"]


@st.composite
def _collect_case(draw):
    # "ws": a file name with a blank / a run of blanks / a tab in it, a command line whose words are separated
    # by more than one blank (the deny list names both literally)
    specs = draw(st.lists(st.fixed_dictionaries({"kind": st.sampled_from(["file", "file", "cmd"]),
                                                 "deny": st.sampled_from([None, None, "component", "component", "literal"]),
                                                 "ws": st.sampled_from([None, None, None, " ", "  ", "\t", "   "]),
                                                 "sp": st.sampled_from(C_SPECIAL)}),
                          min_size=2, max_size=5))
    return {"specs": specs, "configs": draw(st.sampled_from(["module", "classes", "each"]))}


def strat_collect(tier):
    return _collect_case()


SUBS = [
    Sub("collect", check_collect, strategy=strat_collect, quick=120, thorough=1500, workers_quick=4, workers_thorough=8),
    Sub("contain", check_contain, strategy=strat_contain, quick=450, thorough=4000, workers_quick=4),
    Sub("revisit", check_revisit, strategy=strat_revisit, quick=200, thorough=2500, workers_quick=4),
    Sub("deny", check_deny, strategy=strat_deny, quick=300, thorough=2500, workers_quick=4),
    Sub("persist", check_persist, strategy=strat_persist, quick=200, thorough=2000, workers_quick=4),
]

_BASE_C = {"rname": "root", "sibs": ["2"], "nest": False, "rootform": "plain", "ctx": "archive", "links": []}


def _c(**kw):
    d = dict(_BASE_C)
    d.update(kw)
    return d


REGRESSIONS = [
    # finding 1: prefix comparison lets root2 pass for root
    Reg("dotdot-into-prefix-sibling", "contain",
        _c(probe={"kind": "TextFileProvider", "paths": ["../root2/secret"]})),
    Reg("link-into-prefix-sibling", "contain",
        _c(ctx="host", links=[{"dir": 0, "name": "l0", "mode": "abs", "t": {"k": "sib", "i": 0, "p": "secret"}}],
           probe={"kind": "simple_file", "paths": ["/l0"], "raw": False})),
    Reg("glob-through-dirlink-into-prefix-sibling", "contain",
        _c(links=[{"dir": 1, "name": "l0", "mode": "rel", "t": {"k": "sib", "i": 0, "p": ""}}],
           probe={"kind": "glob_file", "paths": ["/etc/l0/*"], "raw": True})),
    Reg("plain-outside-link-is-refused", "contain",
        _c(links=[{"dir": 0, "name": "l0", "mode": "abs", "t": {"k": "out", "p": "secret"}}],
           probe={"kind": "first_file", "paths": ["/l0", "/top.txt"], "raw": False})),
    # finding 2: destinations outside the output directory
    Reg("climbing-spec-path", "persist",
        {"persist": "observer", "specs": [{"f": "simple_file", "raw": False, "save_as": None,
                                           "path": "/etc/../../../r2/R/etc/a.conf"}]}),
    Reg("climbing-container-path", "persist",
        {"persist": "after", "specs": [{"f": "container_collect", "tmpl": None,
                                        "elems": [["img", "env", "c1", "/etc/../../../../../../zz/passwd"]]}]}),
    Reg("absolute-save_as-of-datasource-provider", "persist",
        {"persist": "observer", "specs": [{"f": "dsprovider", "content": "one\ntwo\n", "rel": "x",
                                           "save_as": "{ABS}/"}]}),
    Reg("absolute-save_as-of-factories", "persist",
        {"persist": "observer", "specs": [
            {"f": "simple_file", "raw": False, "save_as": "{ABS}/f", "path": "/etc/a.conf"},
            {"f": "glob_file", "raw": True, "save_as": "{ABS}/", "patterns": ["/etc/*"]},
            {"f": "simple_command", "cmd": "{X}/ls -l ../../x", "save_as": "{ABS}/"}]}),
    # deny list: every factory, matching items next to near misses
    Reg("deny-all-factories", "deny", {
        "via": "apply", "persist": "observer",
        "deny": {"files": ["/etc/a.conf", "/etc/hosts"],
                 "commands": ["{X}/ls", "/usr/bin/env exec c1", "/usr/bin/true exec c2 cat /etc/a.conf"],
                 "components": ["s9"]},
        "specs": [
            {"f": "simple_file", "path": "/etc/a.conf", "raw": False},
            {"f": "glob_file", "patterns": ["/etc/a.con*", "/etc/hosts*"], "raw": False},
            {"f": "first_file", "paths": ["/etc/a.conf", "/etc/a.conf.bak"], "raw": True},
            {"f": "foreach_collect", "tmpl": "/etc/%s", "elems": ["a.conf", "b.conf", "hosts*"], "raw": False},
            {"f": "simple_command", "cmd": "{X}/ls -l /etc", "keep_rc": False},
            {"f": "command_with_args", "tmpl": "{X}/lsblk %s", "arg": "-a"},
            {"f": "foreach_execute", "tmpl": "%s -l", "elems": ["{X}/ls", "{X}/lsblk", "{X}/ls-l"], "keep_rc": True},
            {"f": "container_execute", "tmpl": "{X}/cat %s", "elems": [["img", "env", "c1", "x"], ["img", "env", "c2", "x"]]},
            {"f": "container_collect", "tmpl": None, "elems": [["img", "true", "c2", "/etc/a.conf"],
                                                               ["img", "true", "c2", "/etc/a.conf.bak"]]},
            {"f": "simple_command", "cmd": "{X}/cat x", "keep_rc": False},
        ]}),
    # (no fixed case with symbolic names here: it would load insights.specs.default - 1 600 components -
    #  into the runner's parent process and slow every forked worker's registry snapshot; the generator
    #  produces ~90 such cases per quick run, see label deny:symbolic:denied)
]
